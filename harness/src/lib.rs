//! Shared pieces of the correspondence harness: PRNG, S-expression building,
//! the bridge to the Lean driver, and the JSON report every binary writes.

pub mod rng;
pub mod sx;
pub mod driver;
pub mod report;
pub mod json;
pub mod instr_sx;
pub mod corpus;
pub mod gen_prog;
pub mod hdr_calls;
pub mod ast_sx;
pub mod refrun;
pub mod rowcol;
pub mod builtins;
pub mod proc_sx;
pub mod arrl_sx;
pub mod recl_sx;
pub mod aor_sx;
pub mod procarr_sx;
pub mod jmpl_sx;
pub mod errl_sx;
pub mod procj_sx;
