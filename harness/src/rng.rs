/// splitmix64: every random choice of a run derives from one state (VERIF_SEED).
#[derive(Clone)]
pub struct Rng(pub u64);

impl Rng {
    pub fn from_env() -> Self {
        let seed = std::env::var("VERIF_SEED")
            .ok()
            .and_then(|s| s.parse::<u64>().ok())
            .unwrap_or(20260924);
        Rng(seed)
    }

    pub fn seed(&self) -> u64 {
        self.0
    }

    pub fn next_u64(&mut self) -> u64 {
        self.0 = self.0.wrapping_add(0x9E3779B97F4A7C15);
        let mut z = self.0;
        z = (z ^ (z >> 30)).wrapping_mul(0xBF58476D1CE4E5B9);
        z = (z ^ (z >> 27)).wrapping_mul(0x94D049BB133111EB);
        z ^ (z >> 31)
    }

    /// uniform in 0..n (n > 0)
    pub fn below(&mut self, n: u64) -> u64 {
        self.next_u64() % n
    }

    /// uniform in lo..=hi
    pub fn range(&mut self, lo: i64, hi: i64) -> i64 {
        debug_assert!(lo <= hi);
        let span = (hi - lo) as u64 + 1;
        lo + (self.below(span) as i64)
    }

    pub fn chance(&mut self, num: u64, den: u64) -> bool {
        self.below(den) < num
    }

    pub fn pick<'a, T>(&mut self, items: &'a [T]) -> &'a T {
        &items[self.below(items.len() as u64) as usize]
    }
}
