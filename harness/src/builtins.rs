//! C08: the built-in repertoire of rusty_basic as BASIC call templates, the representative values of
//! every type, and the one place where a program text is run on the real code and its end is
//! classified (`ok | budget | basic-error(code, position) | panic(site) | rejected`).
//! Shared by the table extractor (`extract.rs`, tables `builtintables`, `errorcodes`) and `c08.rs`.

use std::cell::RefCell;


// ---- types, shapes, values ----------------------------------------------------------------------

#[derive(Clone, Copy, PartialEq, Eq, Debug, Hash, PartialOrd, Ord)]
pub enum Ty {
    Int,
    Long,
    Sgl,
    Dbl,
    Str,
}

pub const TYS: [Ty; 5] = [Ty::Int, Ty::Long, Ty::Sgl, Ty::Dbl, Ty::Str];

impl Ty {
    pub fn sigil(self) -> &'static str {
        match self {
            Ty::Int => "%",
            Ty::Long => "&",
            Ty::Sgl => "!",
            Ty::Dbl => "#",
            Ty::Str => "$",
        }
    }
    pub fn lean(self) -> &'static str {
        match self {
            Ty::Int => "int",
            Ty::Long => "long",
            Ty::Sgl => "sgl",
            Ty::Dbl => "dbl",
            Ty::Str => "str",
        }
    }
    /// field of the record type `REC` declared by `TYPE_DECL`
    pub fn field(self) -> &'static str {
        match self {
            Ty::Int => "I",
            Ty::Long => "L",
            Ty::Sgl => "S",
            Ty::Dbl => "D",
            Ty::Str => "T",
        }
    }
}

pub const TYPE_DECL: &str = "TYPE REC\n I AS INTEGER\n L AS LONG\n S AS SINGLE\n D AS DOUBLE\n T AS STRING * 8\nEND TYPE\n";

/// How an argument is written. The extracted table uses `Var` and `Lit` only.
#[derive(Clone, Copy, PartialEq, Eq, Debug, Hash, PartialOrd, Ord)]
pub enum Shape {
    /// a scalar variable with the type's sigil, assigned beforehand
    Var,
    /// a literal, or (where the language has no literal of that type and value) a constant expression
    Lit,
    /// the same expression in parentheses
    Paren,
    /// a call of a user-defined identity function of the type
    UserFn,
    /// an element of a one-dimensional array of the type
    ArrElem,
    /// a field of a record (`STRING * 8` for strings)
    Field,
    /// an element of an array of records, then the field
    ArrField,
    /// a nested built-in call (`MID$(x, 1)` for strings, `-(-x)` for numbers)
    Nested,
}

pub const TABLE_SHAPES: [Shape; 2] = [Shape::Var, Shape::Lit];
pub const ALL_SHAPES: [Shape; 8] =
    [Shape::Var, Shape::Lit, Shape::Paren, Shape::UserFn, Shape::ArrElem, Shape::Field, Shape::ArrField, Shape::Nested];

impl Shape {
    pub fn lean(self) -> &'static str {
        match self {
            Shape::Var => "var",
            Shape::Lit => "lit",
            _ => "other",
        }
    }
}

/// Representative values of a type, each as the text of a constant expression whose static type is
/// exactly that type (checked by `verify_values`): zero, +-1, the boundaries, and for strings the
/// empty string, short ones, an 8-byte one (CVD), one with a character above 127, a long one, a
/// file name, numeric-looking text.
pub fn values(ty: Ty) -> Vec<String> {
    let big = "1".to_owned() + &"0".repeat(308);
    match ty {
        Ty::Int => ["0", "1", "-1", "32767", "-32768", "255", "8"].iter().map(|s| s.to_string()).collect(),
        Ty::Long => ["(65536 - 65536)", "(65537 - 65536)", "(65536 - 65537)", "2147483647", "(-2147483647 - 1)", "65536", "40000"]
            .iter()
            .map(|s| s.to_string())
            .collect(),
        Ty::Sgl => vec![
            "0.0".into(),
            "1.0".into(),
            "-1.0".into(),
            "0.5".into(),
            "2.5".into(),
            "340000000000000000000000000000000000000.0".into(),
            "-340000000000000000000000000000000000000.0".into(),
            "0.000000000000000000000000000001".into(),
        ],
        Ty::Dbl => vec![
            "0.0#".into(),
            "1.0#".into(),
            "-1.0#".into(),
            "2.5#".into(),
            "4294967296".into(),
            format!("{}.0#", big),
            format!("-{}.0#", big),
        ],
        Ty::Str => vec![
            "\"\"".into(),
            "\"a\"".into(),
            "\"abc\"".into(),
            "\"A=B\"".into(),
            "\"12345678\"".into(),
            "(CHR$(200) + \"x\")".into(),
            "STRING$(300, \"x\")".into(),
            "\"F1.DAT\"".into(),
            "\"1E5\"".into(),
            "\"\u{e9}\u{4e16}\"".into(),
        ],
    }
}

/// Checks with the real linter that every representative value has exactly the static type it stands for.
pub fn verify_values() -> Result<(), String> {
    use rusty_parser::{ExpressionType, GlobalStatement, HasExpressionType, Statement, TypeQualifier};
    for ty in TYS {
        for v in values(ty) {
            let text = format!("ZZ{} = {}\n", ty.sigil(), v);
            let prog = rusty_parser::parse_main_str(text.clone()).map_err(|e| format!("{:?}: {:?}", text, e))?;
            let (prog, _) = rusty_linter::core::lint(prog).map_err(|e| format!("{:?}: {:?}", text, e))?;
            let want = match ty {
                Ty::Int => TypeQualifier::PercentInteger,
                Ty::Long => TypeQualifier::AmpersandLong,
                Ty::Sgl => TypeQualifier::BangSingle,
                Ty::Dbl => TypeQualifier::HashDouble,
                Ty::Str => TypeQualifier::DollarString,
            };
            let mut seen = false;
            for g in prog.iter() {
                if let GlobalStatement::Statement(Statement::Assignment(a)) = &g.element {
                    seen = true;
                    let got = a.rvalue().expression_type();
                    if got != ExpressionType::BuiltIn(want) {
                        return Err(format!("value {} of {:?} has static type {:?}", v, ty, got));
                    }
                }
            }
            if !seen {
                return Err(format!("no assignment found in {:?}", text));
            }
        }
    }
    Ok(())
}

// ---- file contexts ------------------------------------------------------------------------------------

/// What is open on file handle 1 when the statement runs.
#[derive(Clone, Copy, PartialEq, Eq, Debug, Hash, PartialOrd, Ord)]
pub enum Ctx {
    NoFile,
    FileIn,
    FileOut,
    FileRnd,
}

pub const FILE_CTXS: [Ctx; 4] = [Ctx::NoFile, Ctx::FileIn, Ctx::FileOut, Ctx::FileRnd];
pub const NO_CTX: [Ctx; 1] = [Ctx::NoFile];
pub const RND_CTXS: [Ctx; 2] = [Ctx::NoFile, Ctx::FileRnd];

impl Ctx {
    pub fn lean(self) -> &'static str {
        match self {
            Ctx::NoFile => "noFile",
            Ctx::FileIn => "fileIn",
            Ctx::FileOut => "fileOut",
            Ctx::FileRnd => "fileRnd",
        }
    }
    pub fn prelude(self) -> &'static str {
        match self {
            Ctx::NoFile => "",
            Ctx::FileIn => {
                "OPEN \"F1.DAT\" FOR OUTPUT AS #1\nPRINT #1, \"12,abc,3.5\"\nPRINT #1, \"x y\"\nPRINT #1, \"-7\"\nCLOSE #1\nOPEN \"F1.DAT\" FOR INPUT AS #1\n"
            }
            Ctx::FileOut => "OPEN \"F1.DAT\" FOR OUTPUT AS #1\n",
            Ctx::FileRnd => "OPEN \"F1.DAT\" FOR RANDOM AS #1 LEN = 16\nFIELD #1, 8 AS FA$, 8 AS FB$\n",
        }
    }
}

// ---- the built-ins -------------------------------------------------------------------------------------

#[derive(Clone, Copy, PartialEq, Eq, Debug)]
pub enum Special {
    None,
    /// first argument in `Var` shape is an array name (LBOUND / UBOUND)
    ArrayFirst,
    /// reads the console: the value dimension is the bytes on standard input
    Console,
    /// READ: the value dimension is the DATA line
    Data,
    /// reads file 1: the variables receive what the file context holds, one run per row
    FileRead,
}

pub struct BuiltIn {
    /// constructor name in the Lean enumeration `RbModel.Outcome.BI`
    pub lean: &'static str,
    /// name as in the documentation
    pub name: &'static str,
    pub is_fn: bool,
    pub arities: &'static [usize],
    pub ctxs: &'static [Ctx],
    pub special: Special,
    /// statement text for the given argument texts
    pub fmt: fn(&[String]) -> String,
}

fn call(name: &str, a: &[String]) -> String {
    if a.is_empty() {
        format!("PRINT {}", name)
    } else {
        format!("PRINT {}({})", name, a.join(", "))
    }
}

fn list(kw: &str, a: &[String]) -> String {
    if a.is_empty() { kw.to_owned() } else { format!("{} {}", kw, a.join(", ")) }
}

macro_rules! func {
    ($lean:literal, $name:literal, $ar:expr) => {
        BuiltIn { lean: $lean, name: $name, is_fn: true, arities: $ar, ctxs: &NO_CTX, special: Special::None, fmt: |a| call($name, a) }
    };
}

/// Every built-in function and sub of `rusty_parser::{BuiltInFunction, BuiltInSub}` except INKEY$
/// (keyboard) — plus the statements that reach a built-in through their own syntax.
/// `arities` are the argument counts tried (0..=3, restricted to what the statement's syntax can express).
pub fn built_ins() -> Vec<BuiltIn> {
    const A0123: &[usize] = &[0, 1, 2, 3];
    vec![
        func!("chr", "CHR$", A0123),
        func!("cvd", "CVD", A0123),
        func!("environFn", "ENVIRON$", A0123),
        BuiltIn { lean: "eof", name: "EOF", is_fn: true, arities: A0123, ctxs: &FILE_CTXS, special: Special::None, fmt: |a| call("EOF", a) },
        func!("err", "ERR", A0123),
        func!("instr", "INSTR", A0123),
        BuiltIn { lean: "lbound", name: "LBOUND", is_fn: true, arities: A0123, ctxs: &NO_CTX, special: Special::ArrayFirst, fmt: |a| call("LBOUND", a) },
        func!("lcase", "LCASE$", A0123),
        func!("left", "LEFT$", A0123),
        func!("len", "LEN", A0123),
        func!("ltrim", "LTRIM$", A0123),
        func!("mid", "MID$", A0123),
        func!("mkd", "MKD$", A0123),
        func!("peek", "PEEK", A0123),
        func!("right", "RIGHT$", A0123),
        func!("rtrim", "RTRIM$", A0123),
        func!("space", "SPACE$", A0123),
        func!("str", "STR$", A0123),
        func!("string", "STRING$", A0123),
        BuiltIn { lean: "ubound", name: "UBOUND", is_fn: true, arities: A0123, ctxs: &NO_CTX, special: Special::ArrayFirst, fmt: |a| call("UBOUND", a) },
        func!("ucase", "UCASE$", A0123),
        func!("val", "VAL", A0123),
        func!("varptr", "VARPTR", A0123),
        func!("varseg", "VARSEG", A0123),
        // subs
        BuiltIn { lean: "beep", name: "BEEP", is_fn: false, arities: &[0], ctxs: &NO_CTX, special: Special::None, fmt: |_| "BEEP".into() },
        BuiltIn {
            lean: "callAbsolute",
            name: "CALL ABSOLUTE",
            is_fn: false,
            arities: &[1, 2],
            ctxs: &NO_CTX,
            special: Special::None,
            fmt: |a| format!("CALL ABSOLUTE({})", a.join(", ")),
        },
        BuiltIn { lean: "close", name: "CLOSE", is_fn: false, arities: &[0, 1, 2], ctxs: &RND_CTXS, special: Special::None, fmt: |a| list("CLOSE", a) },
        BuiltIn { lean: "cls", name: "CLS", is_fn: false, arities: &[0], ctxs: &NO_CTX, special: Special::None, fmt: |_| "CLS".into() },
        BuiltIn { lean: "color", name: "COLOR", is_fn: false, arities: &[1, 2, 3], ctxs: &NO_CTX, special: Special::None, fmt: |a| list("COLOR", a) },
        BuiltIn {
            lean: "defSeg",
            name: "DEF SEG",
            is_fn: false,
            arities: &[0, 1],
            ctxs: &NO_CTX,
            special: Special::None,
            fmt: |a| if a.is_empty() { "DEF SEG".into() } else { format!("DEF SEG = {}", a[0]) },
        },
        BuiltIn { lean: "environSub", name: "ENVIRON", is_fn: false, arities: &[1], ctxs: &NO_CTX, special: Special::None, fmt: |a| list("ENVIRON", a) },
        BuiltIn {
            lean: "field",
            name: "FIELD",
            is_fn: false,
            arities: &[1, 2],
            ctxs: &RND_CTXS,
            special: Special::None,
            fmt: |a| {
                if a.len() == 1 {
                    format!("FIELD #1, {} AS FC$", a[0])
                } else {
                    format!("FIELD #1, {} AS FC$, {} AS FD$", a[0], a[1])
                }
            },
        },
        BuiltIn {
            lean: "get",
            name: "GET",
            is_fn: false,
            arities: &[1],
            ctxs: &FILE_CTXS,
            special: Special::None,
            fmt: |a| format!("GET #1, {}", a[0]),
        },
        BuiltIn { lean: "input", name: "INPUT", is_fn: false, arities: &[1, 2], ctxs: &NO_CTX, special: Special::Console, fmt: |a| list("INPUT", a) },
        BuiltIn {
            lean: "inputFile",
            name: "INPUT #",
            is_fn: false,
            arities: &[1, 2],
            ctxs: &FILE_CTXS,
            special: Special::FileRead,
            fmt: |a| format!("INPUT #1, {}", a.join(", ")),
        },
        BuiltIn { lean: "kill", name: "KILL", is_fn: false, arities: &[1], ctxs: &FILE_CTXS, special: Special::None, fmt: |a| list("KILL", a) },
        BuiltIn {
            lean: "lineInput",
            name: "LINE INPUT",
            is_fn: false,
            arities: &[1],
            ctxs: &NO_CTX,
            special: Special::Console,
            fmt: |a| list("LINE INPUT", a),
        },
        BuiltIn {
            lean: "lineInputFile",
            name: "LINE INPUT #",
            is_fn: false,
            arities: &[1],
            ctxs: &FILE_CTXS,
            special: Special::FileRead,
            fmt: |a| format!("LINE INPUT #1, {}", a[0]),
        },
        BuiltIn { lean: "locate", name: "LOCATE", is_fn: false, arities: &[1, 2, 3], ctxs: &NO_CTX, special: Special::None, fmt: |a| list("LOCATE", a) },
        BuiltIn {
            lean: "lset",
            name: "LSET",
            is_fn: false,
            arities: &[2],
            ctxs: &FILE_CTXS,
            special: Special::None,
            fmt: |a| format!("LSET {} = {}", a[0], a[1]),
        },
        BuiltIn {
            lean: "name",
            name: "NAME",
            is_fn: false,
            arities: &[2],
            ctxs: &FILE_CTXS,
            special: Special::None,
            fmt: |a| format!("NAME {} AS {}", a[0], a[1]),
        },
        BuiltIn {
            lean: "open",
            name: "OPEN",
            is_fn: false,
            arities: &[1, 2, 3],
            ctxs: &FILE_CTXS,
            special: Special::None,
            fmt: |a| match a.len() {
                1 => format!("OPEN {} FOR INPUT AS #2", a[0]),
                2 => format!("OPEN {} FOR APPEND AS {}", a[0], a[1]),
                _ => format!("OPEN {} FOR RANDOM AS {} LEN = {}", a[0], a[1], a[2]),
            },
        },
        BuiltIn { lean: "poke", name: "POKE", is_fn: false, arities: &[1, 2, 3], ctxs: &NO_CTX, special: Special::None, fmt: |a| list("POKE", a) },
        BuiltIn {
            lean: "put",
            name: "PUT",
            is_fn: false,
            arities: &[1],
            ctxs: &FILE_CTXS,
            special: Special::None,
            fmt: |a| format!("PUT #1, {}", a[0]),
        },
        BuiltIn { lean: "read", name: "READ", is_fn: false, arities: &[1, 2], ctxs: &NO_CTX, special: Special::Data, fmt: |a| list("READ", a) },
        BuiltIn { lean: "screen", name: "SCREEN", is_fn: false, arities: &[1], ctxs: &NO_CTX, special: Special::None, fmt: |a| list("SCREEN", a) },
        BuiltIn {
            lean: "viewPrint",
            name: "VIEW PRINT",
            is_fn: false,
            arities: &[0, 2],
            ctxs: &NO_CTX,
            special: Special::None,
            fmt: |a| if a.is_empty() { "VIEW PRINT".into() } else { format!("VIEW PRINT {} TO {}", a[0], a[1]) },
        },
        BuiltIn { lean: "width", name: "WIDTH", is_fn: false, arities: &[1, 2], ctxs: &NO_CTX, special: Special::None, fmt: |a| list("WIDTH", a) },
    ]
}

/// Console inputs used as the value dimension of INPUT / LINE INPUT rows.
pub fn console_inputs() -> Vec<Vec<u8>> {
    vec![
        b"".to_vec(),
        b"\n".to_vec(),
        b"1\n".to_vec(),
        b"1,2,3\n".to_vec(),
        b"abc\n".to_vec(),
        b"-1, 0.5 ,\"q, r\"\n".to_vec(),
        b"99999999999,1E39,1D400\n".to_vec(),
        b"\"unterminated\n".to_vec(),
        b"1,2\r\n3\r\n".to_vec(),
        vec![0xff, 0xfe, b',', 0x80, b'\n'],
        b"no newline at the end".to_vec(),
        {
            let mut v = vec![b'7'; 5000];
            v.push(b'\n');
            v
        },
        b",,\n".to_vec(),
        b"\0\n".to_vec(),
    ]
}

/// DATA lines used as the value dimension of READ rows ("" = no DATA statement).
pub fn data_lines() -> Vec<&'static str> {
    vec![
        "",
        "DATA 1, 2, 3",
        "DATA \"a\", \"b\", \"c\"",
        "DATA 99999, 2.5, -1",
        "DATA 1",
        "DATA -32768, 2147483647, 12345678901234",
        "DATA \"\", 0, \"1\"",
        "DATA 1.5, \"x\", 3",
    ]
}

// ---- building the program text of one call ------------------------------------------------------------

/// One concrete program: text + standard input.
#[derive(Clone, Debug)]
pub struct Case {
    pub text: String,
    pub stdin: Vec<u8>,
}

struct Pieces {
    needs_type: bool,
    prelude: Vec<String>,
    functions: Vec<String>,
}

fn arg_text(i: usize, ty: Ty, shape: Shape, val: &str, array_name: bool, p: &mut Pieces) -> String {
    let s = ty.sigil();
    if array_name && shape == Shape::Var {
        p.prelude.push(format!("DIM W{}{}(1 TO 3, -2 TO 2)", i, s));
        return format!("W{}{}", i, s);
    }
    match shape {
        Shape::Var => {
            p.prelude.push(format!("V{}{} = {}", i, s, val));
            format!("V{}{}", i, s)
        }
        Shape::Lit => val.to_owned(),
        Shape::Paren => format!("({})", val),
        Shape::UserFn => {
            let f = format!("FUNCTION ID{n}{s}(X{s})\n ID{n}{s} = X{s}\nEND FUNCTION", n = ty.field(), s = s);
            if !p.functions.contains(&f) {
                p.functions.push(f);
            }
            format!("ID{}{}({})", ty.field(), s, val)
        }
        Shape::ArrElem => {
            p.prelude.push(format!("DIM AR{}{}(1 TO 2)", i, s));
            p.prelude.push(format!("AR{}{}(2) = {}", i, s, val));
            format!("AR{}{}(2)", i, s)
        }
        Shape::Field => {
            p.needs_type = true;
            p.prelude.push(format!("DIM R{} AS REC", i));
            p.prelude.push(format!("R{}.{} = {}", i, ty.field(), val));
            format!("R{}.{}", i, ty.field())
        }
        Shape::ArrField => {
            p.needs_type = true;
            p.prelude.push(format!("DIM RA{}(0 TO 1) AS REC", i));
            p.prelude.push(format!("RA{}(1).{} = {}", i, ty.field(), val));
            format!("RA{}(1).{}", i, ty.field())
        }
        Shape::Nested => {
            if ty == Ty::Str {
                format!("MID$({}, 1)", val)
            } else {
                format!("-(-({}))", val)
            }
        }
    }
}

/// The program for one call of `b` in context `ctx` with the given argument types/shapes/values.
pub fn program(b: &BuiltIn, ctx: Ctx, args: &[(Ty, Shape)], vals: &[String], data_line: &str) -> String {
    let mut p = Pieces { needs_type: false, prelude: vec![], functions: vec![] };
    let texts: Vec<String> = args
        .iter()
        .enumerate()
        .map(|(i, (ty, sh))| arg_text(i, *ty, *sh, &vals[i], b.special == Special::ArrayFirst && i == 0, &mut p))
        .collect();
    let mut out = String::new();
    if p.needs_type {
        out.push_str(TYPE_DECL);
    }
    if !data_line.is_empty() {
        out.push_str(data_line);
        out.push('\n');
    }
    for l in &p.prelude {
        out.push_str(l);
        out.push('\n');
    }
    out.push_str(ctx.prelude());
    out.push_str(&(b.fmt)(&texts));
    out.push('\n');
    for f in &p.functions {
        out.push_str(f);
        out.push('\n');
    }
    out
}

// ---- non-scalar argument kinds -------------------------------------------------------------------------

/// Declarations every program of the non-scalar families starts with.
pub const ODD_PRELUDE: &str = "TYPE REC\n I AS INTEGER\n L AS LONG\n S AS SINGLE\n D AS DOUBLE\n T AS STRING * 8\nEND TYPE\n\
TYPE NEST\n R AS REC\n K AS INTEGER\nEND TYPE\n\
DIM RQ AS REC\nDIM RQA(1 TO 2) AS REC\nDIM NQ AS NEST\nDIM NQA(0 TO 1) AS NEST\n\
DIM WI%(1 TO 3)\nDIM WS$(1 TO 3)\nDIM WD#(1 TO 2, 0 TO 1)\nDIM WR(1 TO 3) AS REC\nDIM WF(1 TO 2) AS STRING * 3\n\
DIM FQ AS STRING * 4\nFQ = \"ab\"\nRQ.I = 1\nRQ.T = \"t\"\nWI%(1) = 1\nWS$(1) = \"w\"\n";

/// What a program can write in an argument / operand position besides a scalar of the five built-in
/// types: a record variable, a record-typed array element, a record-valued field, a whole array with and
/// without empty parentheses (INTEGER, STRING, DOUBLE 2-d, record and fixed-string elements), a
/// fixed-length string variable and array element, a record field of each type, a call of an undefined
/// function (bare, `$`, `%`), a variable that was never assigned. `(name, text)`; all names are declared by
/// `ODD_PRELUDE`.  `odd_kinds(true)` adds each of them in parentheses.
pub fn odd_kinds(with_parens: bool) -> Vec<(String, String)> {
    let base: Vec<(&str, &str)> = vec![
        ("record-variable", "RQ"),
        ("record-array-element", "RQA(1)"),
        ("nested-record-variable", "NQ"),
        ("record-valued-field", "NQ.R"),
        ("record-valued-field-of-array-element", "NQA(1).R"),
        ("whole-array-int", "WI%"),
        ("whole-array-int-parens", "WI%()"),
        ("whole-array-str", "WS$"),
        ("whole-array-str-parens", "WS$()"),
        ("whole-array-dbl2", "WD#"),
        ("whole-array-dbl2-parens", "WD#()"),
        ("whole-array-record", "WR"),
        ("whole-array-record-parens", "WR()"),
        ("whole-array-fixed-string-parens", "WF()"),
        ("fixed-string-variable", "FQ"),
        ("fixed-string-array-element", "WF(1)"),
        ("field-int", "RQ.I"),
        ("field-long", "RQ.L"),
        ("field-single", "RQ.S"),
        ("field-double", "RQ.D"),
        ("field-fixed-string", "RQ.T"),
        ("field-of-array-element", "RQA(2).T"),
        ("nested-field", "NQ.R.D"),
        ("undefined-function", "UNDEFQ(1)"),
        ("undefined-function-str", "UNDEFQ$(1)"),
        ("undefined-function-int2", "UNDEFQ%(1, 2)"),
        ("unassigned-variable", "UQ"),
        ("unassigned-variable-str", "UQ$"),
    ];
    let mut v: Vec<(String, String)> = base.iter().map(|(n, t)| (n.to_string(), t.to_string())).collect();
    if with_parens {
        for (n, t) in base.iter() {
            v.push((format!("({})", n), format!("({})", t)));
        }
    }
    v
}

/// Constructor name of a non-scalar kind in the Lean enumeration `RbModel.Outcome.Ty` (`record-variable` -> `recordVariable`).
pub fn odd_lean(name: &str) -> String {
    let mut out = String::new();
    let mut up = false;
    for c in name.chars() {
        if c == '-' {
            up = true;
        } else if up {
            out.push(c.to_ascii_uppercase());
            up = false;
        } else {
            out.push(c);
        }
    }
    out
}

/// The program for one call of `b` whose argument texts are given (`ODD_PRELUDE` first; the scalar
/// arguments are variables `V<i><sigil>` assigned `values(ty)[1]`, position `odd_at` holds `odd_text`).
pub fn program_with_odd(b: &BuiltIn, ctx: Ctx, tys: &[Ty], odd_at: &[usize], odd_text: &str, data_line: &str) -> String {
    let mut out = String::from(ODD_PRELUDE);
    if !data_line.is_empty() {
        out.push_str(data_line);
        out.push('\n');
    }
    let mut texts = vec![];
    for (i, ty) in tys.iter().enumerate() {
        if odd_at.contains(&i) {
            texts.push(odd_text.to_owned());
        } else if b.special == Special::ArrayFirst && i == 0 {
            texts.push("WD#".to_owned());
        } else {
            out.push_str(&format!("V{}{} = {}\n", i, ty.sigil(), values(*ty)[1]));
            texts.push(format!("V{}{}", i, ty.sigil()));
        }
    }
    out.push_str(ctx.prelude());
    out.push_str(&(b.fmt)(&texts));
    out.push('\n');
    out
}

/// Value combinations for a tuple of argument types: all values for one argument, the full cross
/// product for two when it is small, otherwise `sweeps` diagonal sweeps with different strides.
pub fn value_combos(tys: &[Ty], cap: usize) -> Vec<Vec<String>> {
    let vs: Vec<Vec<String>> = tys.iter().map(|t| values(*t)).collect();
    if tys.is_empty() {
        return vec![vec![]];
    }
    let total: usize = vs.iter().map(|v| v.len()).product();
    let mut out = vec![];
    if total <= cap {
        let mut idx = vec![0usize; tys.len()];
        loop {
            out.push(idx.iter().enumerate().map(|(i, k)| vs[i][*k].clone()).collect());
            let mut i = 0;
            loop {
                idx[i] += 1;
                if idx[i] < vs[i].len() {
                    break;
                }
                idx[i] = 0;
                i += 1;
                if i == idx.len() {
                    return out;
                }
            }
        }
    }
    let n = vs.iter().map(|v| v.len()).max().unwrap();
    let mut seen = std::collections::BTreeSet::new();
    let mut stride = 0;
    while out.len() < cap && stride < 8 {
        for j in 0..n {
            let idx: Vec<usize> = (0..tys.len()).map(|i| (j + i * stride * (i + 1)) % vs[i].len()).collect();
            if seen.insert(idx.clone()) && out.len() < cap {
                out.push(idx.iter().enumerate().map(|(i, k)| vs[i][*k].clone()).collect());
            }
        }
        stride += 1;
    }
    out
}

/// All concrete cases of one row (built-in, context, argument types and shapes).
pub fn row_cases(b: &BuiltIn, ctx: Ctx, args: &[(Ty, Shape)], cap: usize) -> Vec<Case> {
    let tys: Vec<Ty> = args.iter().map(|a| a.0).collect();
    match b.special {
        Special::Console => {
            // the variables receive what is typed: one value tuple, every console input
            let vals: Vec<String> = tys.iter().map(|t| values(*t)[1].clone()).collect();
            let text = program(b, ctx, args, &vals, "");
            console_inputs().into_iter().map(|stdin| Case { text: text.clone(), stdin }).collect()
        }
        Special::FileRead => {
            let vals: Vec<String> = tys.iter().map(|t| values(*t)[1].clone()).collect();
            vec![Case { text: program(b, ctx, args, &vals, ""), stdin: vec![] }]
        }
        Special::Data => {
            let vals: Vec<String> = tys.iter().map(|t| values(*t)[1].clone()).collect();
            data_lines().into_iter().map(|d| Case { text: program(b, ctx, args, &vals, d), stdin: vec![] }).collect()
        }
        _ => value_combos(&tys, cap)
            .into_iter()
            .map(|vals| Case { text: program(b, ctx, args, &vals, ""), stdin: b"5\n".to_vec() })
            .collect(),
    }
}

/// All argument type/shape tuples of the given arity over the given shapes.
pub fn arg_tuples(arity: usize, shapes: &[Shape]) -> Vec<Vec<(Ty, Shape)>> {
    let mut all: Vec<Vec<(Ty, Shape)>> = vec![vec![]];
    for _ in 0..arity {
        let mut next = vec![];
        for t in &all {
            for ty in TYS {
                for sh in shapes {
                    let mut u = t.clone();
                    u.push((ty, *sh));
                    next.push(u);
                }
            }
        }
        all = next;
    }
    all
}

// ---- running a program on the real code and classifying its end ---------------------------------------

#[derive(Clone, Debug, PartialEq)]
pub enum Outcome {
    /// rejected by the parser or the linter (message)
    Rejected(String),
    Ok,
    /// the instruction budget ran out (the run was still going)
    Budget,
    /// BASIC run-time error: variant name, numeric code, number of positions, first (row, col)
    Err { variant: String, code: i32, positions: usize, row: u32, col: u32 },
    /// a panic in the front end, the instruction generator or the interpreter
    Panic { site: String, msg: String },
}

impl Outcome {
    pub fn is_internal_failure(&self) -> bool {
        matches!(self, Outcome::Panic { .. })
    }
    /// signature of a panic: file (relative to the repository) + head of the message, without the line number
    pub fn signature(&self) -> Option<String> {
        match self {
            Outcome::Panic { site, msg } => {
                let file = site.rsplit_once(':').map(|x| x.0).unwrap_or(site);
                // path from the crate directory on (independent of where the repository lives)
                let file = file.find("rusty_").map(|i| &file[i..]).unwrap_or(file);
                // head of the message, up to the first value it prints
                let first = msg.lines().next().unwrap_or("");
                let cut = first.find(|c: char| "({[:".contains(c) || c.is_ascii_digit()).unwrap_or(first.len());
                let head: String = first[..cut].chars().take(60).collect();
                Some(format!("panic:{}:{}", file, head.trim()))
            }
            _ => None,
        }
    }
}

thread_local! {
    static LAST_PANIC: RefCell<Option<(String, String)>> = const { RefCell::new(None) };
}

/// Installs a panic hook that records location and message of the last panic of the thread (and prints nothing).
pub fn install_panic_capture() {
    std::panic::set_hook(Box::new(|info| {
        let loc = info.location().map(|l| format!("{}:{}", l.file(), l.line())).unwrap_or_else(|| "?".into());
        let msg = info
            .payload()
            .downcast_ref::<&str>()
            .map(|s| s.to_string())
            .or_else(|| info.payload().downcast_ref::<String>().cloned())
            .unwrap_or_else(|| "?".into());
        LAST_PANIC.with(|p| *p.borrow_mut() = Some((loc, msg)));
    }));
}

pub fn variant_name(dbg: &str) -> String {
    dbg.chars().take_while(|c| c.is_ascii_alphanumeric()).collect()
}

fn first_position(dbg: &str) -> (usize, u32, u32) {
    // "... [Position { row: 1, col: 7 }, Position { .. }]" : the stack trace is the last bracketed list
    let n = dbg.matches("Position {").count();
    let tail = dbg.rfind("[Position {").map(|i| &dbg[i..]).unwrap_or("");
    let num = |key: &str| -> u32 {
        tail.find(key)
            .map(|i| tail[i + key.len()..].chars().take_while(|c| c.is_ascii_digit()).collect::<String>())
            .and_then(|s| s.parse().ok())
            .unwrap_or(0)
    };
    let in_trace = tail.matches("Position {").count();
    let _ = n;
    (in_trace, num("row: "), num("col: "))
}

fn last_panic() -> (String, String) {
    LAST_PANIC.with(|p| p.borrow_mut().take()).unwrap_or_else(|| ("?".into(), "?".into()))
}

/// Runs the program in memory on the real front end, generator and interpreter.
/// A panic of the parser or linter makes the program *not accepted* (`Rejected("front-end panic ...")`:
/// that is C07's subject); a panic of the instruction generator or the interpreter is `Panic`.
pub fn run_case(text: &str, stdin: &[u8], budget: u64) -> Outcome {
    use rusty_basic::instruction_generator::{generate_instructions, unwrap_linter_context};
    use rusty_basic::interpreter::verif::run_instructions;
    LAST_PANIC.with(|p| *p.borrow_mut() = None);
    let t = text.to_owned();
    let front = std::panic::catch_unwind(move || match rusty_parser::parse_main_str(t) {
        Err(e) => Err(format!("parse: {:?}", e)),
        Ok(p) => rusty_linter::core::lint(p).map_err(|e| format!("lint: {:?}", e)),
    });
    let (program, ctx) = match front {
        Err(_) => {
            let (site, msg) = last_panic();
            return Outcome::Rejected(format!("front-end panic at {}: {}", site, msg.lines().next().unwrap_or("")));
        }
        Ok(Err(m)) => return Outcome::Rejected(m),
        Ok(Ok(x)) => x,
    };
    let inp = stdin.to_vec();
    let r = std::panic::catch_unwind(std::panic::AssertUnwindSafe(move || {
        let (names, types) = unwrap_linter_context(ctx);
        let code = generate_instructions(program, names);
        run_instructions(code, types, &inp, budget, None, false)
    }));
    match r {
        Err(_) => {
            let (site, msg) = last_panic();
            Outcome::Panic { site, msg }
        }
        Ok(rr) => {
            if rr.budget_exhausted {
                return Outcome::Budget;
            }
            match rr.result {
                Ok(()) => Outcome::Ok,
                Err(e) => {
                    let code = match std::panic::catch_unwind(std::panic::AssertUnwindSafe(|| e.err().get_code())) {
                        Ok(c) => c,
                        Err(_) => {
                            let (site, msg) = last_panic();
                            return Outcome::Panic { site, msg };
                        }
                    };
                    let dbg = format!("{:?}", e);
                    let (positions, row, col) = first_position(&dbg);
                    Outcome::Err { variant: variant_name(&format!("{:?}", e.err())), code, positions, row, col }
                }
            }
        }
    }
}

/// Removes everything in the current directory, which must be a scratch directory (name `scratch*`).
pub fn clean_scratch() {
    let cwd = match std::env::current_dir() {
        Ok(c) => c,
        Err(_) => return,
    };
    let ok = cwd.file_name().map(|n| n.to_string_lossy().starts_with("scratch")).unwrap_or(false);
    if !ok {
        return;
    }
    if let Ok(rd) = std::fs::read_dir(&cwd) {
        for e in rd.flatten() {
            let p = e.path();
            if p.is_dir() {
                let _ = std::fs::remove_dir_all(&p);
            } else {
                let _ = std::fs::remove_file(&p);
            }
        }
    }
}

/// Every variant of `RuntimeError` (payload-carrying ones with a sample payload), with its name.
pub fn runtime_error_variants() -> Vec<(&'static str, rusty_basic::RuntimeError)> {
    use rusty_basic::RuntimeError as E;
    // exhaustiveness guard: adding a variant to the enum makes this match fail to compile
    fn _guard(e: &E) {
        match e {
            E::BadFileMode
            | E::BadFileNameOrNumber
            | E::BadRecordLength
            | E::BadRecordNumber
            | E::DivisionByZero
            | E::ElementNotDefined
            | E::FieldOverflow
            | E::FileAlreadyOpen
            | E::FileNotFound
            | E::ForLoopZeroStep
            | E::DeviceIOError(_)
            | E::IllegalFunctionCall
            | E::InputPastEndOfFile
            | E::LinterError(_)
            | E::OutOfData
            | E::OutOfMemory
            | E::Overflow
            | E::ReturnWithoutGoSub
            | E::SubscriptOutOfRange
            | E::TypeMismatch
            | E::VariableRequired
            | E::Other(_)
            | E::ResumeWithoutError => {}
        }
    }
    vec![
        ("BadFileMode", E::BadFileMode),
        ("BadFileNameOrNumber", E::BadFileNameOrNumber),
        ("BadRecordLength", E::BadRecordLength),
        ("BadRecordNumber", E::BadRecordNumber),
        ("DivisionByZero", E::DivisionByZero),
        ("ElementNotDefined", E::ElementNotDefined),
        ("FieldOverflow", E::FieldOverflow),
        ("FileAlreadyOpen", E::FileAlreadyOpen),
        ("FileNotFound", E::FileNotFound),
        ("ForLoopZeroStep", E::ForLoopZeroStep),
        ("DeviceIOError", E::DeviceIOError("x".into())),
        ("IllegalFunctionCall", E::IllegalFunctionCall),
        ("InputPastEndOfFile", E::InputPastEndOfFile),
        ("LinterError", E::LinterError(rusty_linter::core::LintError::ArgumentCountMismatch)),
        ("OutOfData", E::OutOfData),
        ("OutOfMemory", E::OutOfMemory),
        ("Overflow", E::Overflow),
        ("ReturnWithoutGoSub", E::ReturnWithoutGoSub),
        ("SubscriptOutOfRange", E::SubscriptOutOfRange),
        ("TypeMismatch", E::TypeMismatch),
        ("VariableRequired", E::VariableRequired),
        ("Other", E::Other("x".into())),
        ("ResumeWithoutError", E::ResumeWithoutError),
    ]
}
