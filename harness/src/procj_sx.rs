//! Serialisation of the LINTED program with user procedures AND labels / GOTO / GOSUB / RETURN (the exact input of
//! `generate_instructions`) into the syntax of `lean/RbModel/ProcJ/Syntax.lean` (`(pjprogram …)`), with the slot-name tables
//! the normaliser of `RbModel.ProcJ.Compile` needs. `proc_sx.rs` (SUB / FUNCTION implementations, user SUB and FUNCTION calls,
//! EXIT SUB / EXIT FUNCTION, DIM SHARED, STATIC) extended by `Statement::Label`, `GoTo`, `GoSub` and `Return(None)` in the main
//! module and inside procedure bodies. Labels are numbered over the whole program (the linter makes them unique across
//! scopes): main module first, then the FUNCTIONs, then the SUBs, each in program order, case-insensitively; a label
//! statement keeps its name as written. Additional `None`s: `RETURN label`, a label defined twice, a GOTO / GOSUB whose label
//! is unknown, a label inside the body of a `FOR … STEP` (generated twice: known finding C05-a).
//!
//! Conventions (checked again on the Lean side by `SProgram.wf`):
//! * procedures are numbered as the generator places them: FUNCTIONs in source order, then SUBs in source order;
//! * one slot table per scope; in a procedure parameter `i` is slot `i`, a FUNCTION's own qualified name is slot
//!   `n` (right after the `n` parameters), other variables follow in order of first occurrence;
//! * every actual argument carries the (name, type) of the parameter it binds to.
//! * a variable reference is `<slot>` (slot of the scope it occurs in) or `(g <slot>)` (slot of the table of DIM SHARED
//!   variables); which one is decided by the linter's own answer `Names::get_resolved_variable_info(scope, name).shared`,
//!   the very flag the generator copies into `RootPath { shared }`;
//! * a procedure carries its `is_static` flag; a `CONST` statement is dropped (its uses are literals already).
//! Returns `None` for anything outside the modelled language: arrays, records, fixed-length strings,
//! DIM SHARED inside a procedure, ON ERROR / RESUME, built-ins other than DATA / READ,
//! extended-style (`AS INTEGER`) parameters are accepted only if built-in, duplicate parameter names are rejected.

use std::cell::RefCell;
use std::collections::HashMap;

use rusty_common::Positioned;
use rusty_linter::core::ScopeName;
use rusty_linter::names::Names;
use rusty_parser::{
    AsBareName, BuiltInSub, CaseExpression, DimType, DoLoopConditionKind, DoLoopConditionPosition, Expression,
    ExpressionPos, ExpressionType, Expressions, GlobalStatement, Operator, ParamType, Parameter, PrintArg, Program,
    Name, Statement, Statements, TypeQualifier, UnaryOperator,
};

use crate::ast_sx::{float_val, qual};
use crate::instr_sx::s;
use crate::sx;

struct Slots {
    map: HashMap<(String, &'static str), usize>,
    types: Vec<&'static str>,
}

impl Slots {
    fn new() -> Self {
        Slots { map: HashMap::new(), types: vec![] }
    }

    fn get(&mut self, bare: &str, q: TypeQualifier) -> usize {
        let t = qual(q);
        let key = (bare.to_ascii_uppercase(), t);
        if let Some(i) = self.map.get(&key) {
            return *i;
        }
        let i = self.types.len();
        self.types.push(t);
        self.map.insert(key, i);
        i
    }

    fn table(&self) -> String {
        let mut names: Vec<(usize, String)> = self.map.iter().map(|((n, t), i)| (*i, format!("({} {})", s(n), t))).collect();
        names.sort();
        sx::list(names.into_iter().map(|(_, x)| x))
    }
}

#[derive(Clone)]
struct Sig {
    index: usize,
    /// (declared bare name, type)
    params: Vec<(String, TypeQualifier)>,
    result: Option<TypeQualifier>,
    is_static: bool,
}

struct Ctx<'a> {
    /// user FUNCTIONs by upper-case bare name, user SUBs by upper-case bare name
    functions: HashMap<String, Sig>,
    subs: HashMap<String, Sig>,
    in_proc: bool,
    /// the procedure being serialised is STATIC
    in_static: bool,
    /// the scope being serialised, as the linter names it
    scope: ScopeName,
    names: &'a Names,
    /// the table of DIM SHARED variables
    gslots: RefCell<Slots>,
    /// label name (upper-cased) -> index
    labels: HashMap<String, usize>,
}

/// collects the label definitions of a block; `in_step` = inside the body of a FOR with an explicit STEP
fn collect_labels(stmts: &Statements, in_step: bool, labels: &mut HashMap<String, usize>) -> Option<()> {
    for st in stmts {
        match &st.element {
            Statement::Label(name) => {
                if in_step {
                    return None;
                }
                let key = name.to_string().to_ascii_uppercase();
                if labels.contains_key(&key) {
                    return None;
                }
                let i = labels.len();
                labels.insert(key, i);
            }
            Statement::IfBlock(i) => {
                collect_labels(&i.if_block.statements, in_step, labels)?;
                for eb in &i.else_if_blocks {
                    collect_labels(&eb.statements, in_step, labels)?;
                }
                if let Some(e) = &i.else_block {
                    collect_labels(e, in_step, labels)?;
                }
            }
            Statement::SelectCase(sc) => {
                for cb in &sc.case_blocks {
                    collect_labels(cb.statements(), in_step, labels)?;
                }
                if let Some(e) = &sc.else_block {
                    collect_labels(e, in_step, labels)?;
                }
            }
            Statement::ForLoop(f) => collect_labels(&f.statements, in_step || f.step.is_some(), labels)?,
            Statement::While(w) => collect_labels(&w.statements, in_step, labels)?,
            Statement::DoLoop(d) => collect_labels(&d.statements, in_step, labels)?,
            _ => {}
        }
    }
    Some(())
}

/// `<slot>` or `(g <slot>)`
fn var_ref(name: &Name, q: TypeQualifier, slots: &mut Slots, cx: &Ctx) -> String {
    let bare = name.as_bare_name().to_string();
    if cx.names.get_resolved_variable_info(&cx.scope, name).shared {
        format!("(g {})", cx.gslots.borrow_mut().get(&bare, q))
    } else {
        format!("{}", slots.get(&bare, q))
    }
}

fn op(o: Operator) -> &'static str {
    match o {
        Operator::Less => "less",
        Operator::LessOrEqual => "lessOrEqual",
        Operator::Equal => "equal",
        Operator::GreaterOrEqual => "greaterOrEqual",
        Operator::Greater => "greater",
        Operator::NotEqual => "notEqual",
        Operator::Plus => "plus",
        Operator::Minus => "minus",
        Operator::Multiply => "multiply",
        Operator::Divide => "divide",
        Operator::Modulo => "modulo",
        Operator::And => "and",
        Operator::Or => "or",
    }
}

fn args(a: &Expressions, sig: &Sig, slots: &mut Slots, cx: &Ctx) -> Option<String> {
    if a.len() != sig.params.len() {
        return None;
    }
    let mut out = vec![];
    for (e, (pn, pq)) in a.iter().zip(sig.params.iter()) {
        out.push(format!("({} {} {})", expr(e, slots, cx)?, s(pn), qual(*pq)));
    }
    Some(sx::list(out))
}

fn expr(e: &ExpressionPos, slots: &mut Slots, cx: &Ctx) -> Option<String> {
    let Positioned { element, pos } = e;
    let (r, c) = (pos.row(), pos.col());
    Some(match element {
        Expression::IntegerLiteral(i) => format!("(lit (int {}) {} {})", i, r, c),
        Expression::LongLiteral(l) => format!("(lit (long {}) {} {})", l, r, c),
        Expression::SingleLiteral(f) => format!("(lit {} {} {})", float_val("sgl", *f as f64)?, r, c),
        Expression::DoubleLiteral(f) => format!("(lit {} {} {})", float_val("dbl", *f)?, r, c),
        Expression::StringLiteral(t) => format!("(lit (str {}) {} {})", sx::chars(t), r, c),
        Expression::Variable(name, ExpressionType::BuiltIn(q)) => {
            let x = var_ref(name, *q, slots, cx);
            format!("(var {} {} {} {})", x, qual(*q), r, c)
        }
        Expression::UnaryExpression(UnaryOperator::Minus, child) => format!("(neg {} {} {})", expr(child, slots, cx)?, r, c),
        Expression::UnaryExpression(UnaryOperator::Not, child) => format!("(not {} {} {})", expr(child, slots, cx)?, r, c),
        Expression::BinaryExpression(o, l, rr, ExpressionType::BuiltIn(q)) => {
            format!("(bin {} {} {} {} {} {})", op(*o), expr(l, slots, cx)?, expr(rr, slots, cx)?, qual(*q), r, c)
        }
        Expression::Parenthesis(child) => format!("(paren {} {} {})", expr(child, slots, cx)?, r, c),
        Expression::FunctionCall(name, a) => {
            let sig = cx.functions.get(&name.as_bare_name().to_string().to_ascii_uppercase())?.clone();
            let q = name.qualifier()?;
            if Some(q) != sig.result {
                return None;
            }
            format!("(callfn {} {} {} {} {})", sig.index, args(a, &sig, slots, cx)?, qual(q), r, c)
        }
        _ => return None,
    })
}

fn case_expr(ce: &CaseExpression, slots: &mut Slots, cx: &Ctx) -> Option<String> {
    Some(match ce {
        CaseExpression::Simple(e) => format!("(simple {})", expr(e, slots, cx)?),
        CaseExpression::Is(o, e) => format!("(is {} {})", op(*o), expr(e, slots, cx)?),
        CaseExpression::Range(a, b) => format!("(range {} {})", expr(a, slots, cx)?, expr(b, slots, cx)?),
    })
}

fn sblock(stmts: &Statements, slots: &mut Slots, cx: &Ctx) -> Option<String> {
    let mut out = vec![];
    for st in stmts {
        sstmt(st, slots, cx, &mut out)?;
    }
    Some(sx::list(out))
}

fn lit_val(e: &Expression) -> Option<String> {
    Some(match e {
        Expression::IntegerLiteral(i) => format!("(int {})", i),
        Expression::LongLiteral(l) => format!("(long {})", l),
        Expression::SingleLiteral(f) => float_val("sgl", *f as f64)?,
        Expression::DoubleLiteral(f) => float_val("dbl", *f)?,
        Expression::StringLiteral(t) => format!("(str {})", sx::chars(t)),
        _ => return None,
    })
}

fn sstmt(st: &Positioned<Statement>, slots: &mut Slots, cx: &Ctx, out: &mut Vec<String>) -> Option<()> {
    let Positioned { element, pos } = st;
    let (r, c) = (pos.row(), pos.col());
    match element {
        Statement::Comment(_) => out.push("comment".to_owned()),
        Statement::Const(_) => out.push("comment".to_owned()),
        Statement::Dim(dim_list) => {
            if dim_list.shared && cx.in_proc {
                return None;
            }
            for v in &dim_list.variables {
                match v.element.var_type() {
                    DimType::BuiltIn(q, _) => {
                        let bare = v.element.as_bare_name().to_string();
                        if cx.in_static {
                            let x = slots.get(&bare, *q);
                            out.push(format!("(sdim {} {} {} {})", x, qual(*q), v.pos.row(), v.pos.col()));
                            continue;
                        }
                        let x = if dim_list.shared {
                            format!("(g {})", cx.gslots.borrow_mut().get(&bare, *q))
                        } else {
                            format!("{}", slots.get(&bare, *q))
                        };
                        out.push(format!("(dim {} {} {} {})", x, qual(*q), v.pos.row(), v.pos.col()));
                    }
                    _ => return None,
                }
            }
        }
        Statement::Assignment(a) => match a.lvalue() {
            Expression::Variable(name, ExpressionType::BuiltIn(q)) => {
                let x = var_ref(name, *q, slots, cx);
                out.push(format!("(assign {} {} {} {} {})", x, qual(*q), expr(a.rvalue(), slots, cx)?, r, c));
            }
            _ => return None,
        },
        Statement::Print(p) => {
            if p.file_number.is_some() || p.lpt1 || p.format_string.is_some() {
                return None;
            }
            let mut items = vec![];
            for a in &p.args {
                items.push(match a {
                    PrintArg::Comma => "comma".to_owned(),
                    PrintArg::Semicolon => "semi".to_owned(),
                    PrintArg::Expression(e) => format!("(e {})", expr(e, slots, cx)?),
                });
            }
            out.push(format!("(print {} {} {})", sx::list(items), r, c));
        }
        Statement::BuiltInSubCall(b) => match b.built_in_sub() {
            BuiltInSub::Data => {
                if cx.in_proc {
                    return None;
                }
                let mut items = vec![];
                for a in b.args() {
                    items.push(format!("({} {} {})", lit_val(&a.element)?, a.pos.row(), a.pos.col()));
                }
                out.push(format!("(data {} {} {})", sx::list(items), r, c));
            }
            BuiltInSub::Read => {
                let mut vars = vec![];
                for a in b.args() {
                    match &a.element {
                        Expression::Variable(name, ExpressionType::BuiltIn(q)) => {
                            let x = var_ref(name, *q, slots, cx);
                            vars.push(format!("({} {} {} {})", x, qual(*q), a.pos.row(), a.pos.col()));
                        }
                        _ => return None,
                    }
                }
                out.push(format!("(read {} {} {})", sx::list(vars), r, c));
            }
            _ => return None,
        },
        Statement::SubCall(sc) => {
            let sig = cx.subs.get(&sc.sub_name().to_string().to_ascii_uppercase())?.clone();
            out.push(format!("(callsub {} {} {} {})", sig.index, args(sc.args(), &sig, slots, cx)?, r, c));
        }
        Statement::Exit(_) => {
            if !cx.in_proc {
                return None;
            }
            out.push(format!("(exit {} {})", r, c));
        }
        Statement::IfBlock(i) => {
            let thn = sblock(&i.if_block.statements, slots, cx)?;
            let cond = expr(&i.if_block.condition, slots, cx)?;
            let mut elifs = vec![];
            for eb in &i.else_if_blocks {
                elifs.push(format!("({} {})", expr(&eb.condition, slots, cx)?, sblock(&eb.statements, slots, cx)?));
            }
            let els = match &i.else_block {
                Some(e) => sblock(e, slots, cx)?,
                None => "none".to_owned(),
            };
            out.push(format!("(if {} {} {} {} {} {})", cond, thn, sx::list(elifs), els, r, c));
        }
        Statement::SelectCase(sc) => {
            let subject = expr(&sc.expr, slots, cx)?;
            let mut cases = vec![];
            for cb in &sc.case_blocks {
                let mut conds = vec![];
                for ce in cb.conditions() {
                    conds.push(case_expr(ce, slots, cx)?);
                }
                cases.push(format!("({} {})", sx::list(conds), sblock(cb.statements(), slots, cx)?));
            }
            let els = match &sc.else_block {
                Some(e) => sblock(e, slots, cx)?,
                None => "none".to_owned(),
            };
            out.push(format!("(select {} {} {} {} {})", subject, sx::list(cases), els, r, c));
        }
        Statement::ForLoop(f) => {
            let (x, q) = match &f.variable_name.element {
                Expression::Variable(name, ExpressionType::BuiltIn(q)) => (var_ref(name, *q, slots, cx), *q),
                _ => return None,
            };
            let lo = expr(&f.lower_bound, slots, cx)?;
            let hi = expr(&f.upper_bound, slots, cx)?;
            let step = match &f.step {
                Some(st) => expr(st, slots, cx)?,
                None => "none".to_owned(),
            };
            out.push(format!("(for {} {} {} {} {} {} {} {})", x, qual(q), lo, hi, step, sblock(&f.statements, slots, cx)?, r, c));
        }
        Statement::While(w) => {
            out.push(format!("(while {} {} {} {})", expr(&w.condition, slots, cx)?, sblock(&w.statements, slots, cx)?, r, c));
        }
        Statement::DoLoop(d) => {
            out.push(format!(
                "(do {} {} {} {} {} {})",
                expr(&d.condition, slots, cx)?,
                if d.position == DoLoopConditionPosition::Top { "t" } else { "f" },
                if d.kind == DoLoopConditionKind::Until { "t" } else { "f" },
                sblock(&d.statements, slots, cx)?,
                r,
                c
            ));
        }
        Statement::End | Statement::System => out.push(format!("(end {} {})", r, c)),
        Statement::Label(name) => {
            let l = cx.labels.get(&name.to_string().to_ascii_uppercase())?;
            out.push(format!("(label {} {} {} {})", l, s(&name.to_string()), r, c));
        }
        Statement::GoTo(name) => {
            let l = cx.labels.get(&name.to_string().to_ascii_uppercase())?;
            out.push(format!("(goto {} {} {})", l, r, c));
        }
        Statement::GoSub(name) => {
            let l = cx.labels.get(&name.to_string().to_ascii_uppercase())?;
            out.push(format!("(gosub {} {} {})", l, r, c));
        }
        Statement::Return(None) => out.push(format!("(return {} {})", r, c)),
        _ => return None,
    }
    Some(())
}

fn params(ps: &[Positioned<Parameter>]) -> Option<Vec<(String, TypeQualifier)>> {
    let mut out: Vec<(String, TypeQualifier)> = vec![];
    for p in ps {
        let (bare, t): (rusty_parser::BareName, ParamType) = p.element.clone().into();
        let q = match t {
            ParamType::BuiltIn(q, _) => q,
            _ => return None,
        };
        let name = bare.to_string();
        if out.iter().any(|(n, _)| n.eq_ignore_ascii_case(&name)) {
            return None;
        }
        out.push((name, q));
    }
    Some(out)
}

pub struct ProcProgram {
    /// `(pjprogram (<main ty>…) (<shared ty>…) (<stmt>…) (<proc>…))`
    pub program: String,
    /// `(<main table> <shared table> (<proc table>…))`, a table = `((<name> <ty>)…)` in slot order
    pub tables: String,
    pub n_procs: usize,
    pub n_labels: usize,
}

/// The linted program with procedures in the syntax of `RbModel.ProcJ.Syntax`, or None if outside it.
pub fn program(p: &Program, names: &Names) -> Option<ProcProgram> {
    // pass 1: signatures, FUNCTIONs first, then SUBs (the order `generate_unresolved` emits them in)
    let mut cx = Ctx {
        functions: HashMap::new(),
        subs: HashMap::new(),
        in_proc: false,
        in_static: false,
        scope: ScopeName::Global,
        names,
        gslots: RefCell::new(Slots::new()),
        labels: HashMap::new(),
    };
    // pass 0: the labels of the whole program: main module, FUNCTIONs, SUBs
    {
        let mut labels = HashMap::new();
        let mut main: Statements = vec![];
        for gs in p {
            if let GlobalStatement::Statement(st) = &gs.element {
                main.push(Positioned { element: st.clone(), pos: gs.pos });
            }
        }
        collect_labels(&main, false, &mut labels)?;
        for gs in p {
            if let GlobalStatement::FunctionImplementation(f) = &gs.element {
                collect_labels(&f.body, false, &mut labels)?;
            }
        }
        for gs in p {
            if let GlobalStatement::SubImplementation(sb) = &gs.element {
                collect_labels(&sb.body, false, &mut labels)?;
            }
        }
        cx.labels = labels;
    }
    let mut index = 0;
    for gs in p {
        if let GlobalStatement::FunctionImplementation(f) = &gs.element {
            let name = &f.name.element;
            let sig = Sig { index, params: params(&f.params)?, result: Some(name.qualifier()?), is_static: f.is_static };
            // a parameter named like the function IS the result variable for the generator (and changes the
            // prologue of a STATIC function): outside the model, where the result variable is never a parameter
            let fbare = name.as_bare_name().to_string();
            if sig.params.iter().any(|(n, _)| n.eq_ignore_ascii_case(&fbare)) {
                return None;
            }
            if cx.functions.insert(name.as_bare_name().to_string().to_ascii_uppercase(), sig).is_some() {
                return None;
            }
            index += 1;
        }
    }
    for gs in p {
        if let GlobalStatement::SubImplementation(sb) = &gs.element {
            let sig = Sig { index, params: params(&sb.params)?, result: None, is_static: sb.is_static };
            if cx.subs.insert(sb.name.element.to_string().to_ascii_uppercase(), sig).is_some() {
                return None;
            }
            index += 1;
        }
    }
    // pass 2: the main module
    let mut main_slots = Slots::new();
    let mut main = vec![];
    for gs in p {
        match &gs.element {
            GlobalStatement::Statement(st) => {
                let sp = Positioned { element: st.clone(), pos: gs.pos };
                sstmt(&sp, &mut main_slots, &cx, &mut main)?;
            }
            GlobalStatement::DefType(_)
            | GlobalStatement::FunctionDeclaration(_)
            | GlobalStatement::SubDeclaration(_)
            | GlobalStatement::FunctionImplementation(_)
            | GlobalStatement::SubImplementation(_) => {}
            _ => return None,
        }
    }
    // pass 3: the procedures, in placement order
    cx.in_proc = true;
    let mut procs = vec![];
    let mut tables = vec![];
    for gs in p {
        if let GlobalStatement::FunctionImplementation(f) = &gs.element {
            let name = &f.name.element;
            let q = name.qualifier()?;
            let sig = cx.functions.get(&name.as_bare_name().to_string().to_ascii_uppercase())?.clone();
            cx.scope = ScopeName::Function(name.clone());
            cx.in_static = sig.is_static;
            let mut slots = Slots::new();
            for (pn, pq) in &sig.params {
                slots.get(pn, *pq);
            }
            if slots.types.len() != sig.params.len() {
                return None;
            }
            if slots.get(&name.as_bare_name().to_string(), q) != sig.params.len() {
                // a parameter with the function's own qualified name
                return None;
            }
            let body = sblock(&f.body, &mut slots, &cx)?;
            procs.push(format!(
                "(proc (fn {}) {} {} {} {} {} {} {})",
                qual(q),
                if sig.is_static { "t" } else { "f" },
                s(&name.to_string()),
                sx::list(sig.params.iter().map(|(n, t)| format!("({} {})", s(n), qual(*t)))),
                sx::list(slots.types.iter()),
                body,
                gs.pos.row(),
                gs.pos.col()
            ));
            tables.push(slots.table());
        }
    }
    for gs in p {
        if let GlobalStatement::SubImplementation(sb) = &gs.element {
            let name = sb.name.element.to_string();
            let sig = cx.subs.get(&name.to_ascii_uppercase())?.clone();
            cx.scope = ScopeName::Sub(sb.name.element.clone());
            cx.in_static = sig.is_static;
            let mut slots = Slots::new();
            for (pn, pq) in &sig.params {
                slots.get(pn, *pq);
            }
            if slots.types.len() != sig.params.len() {
                return None;
            }
            let body = sblock(&sb.body, &mut slots, &cx)?;
            procs.push(format!(
                "(proc sub {} {} {} {} {} {} {})",
                if sig.is_static { "t" } else { "f" },
                s(&name),
                sx::list(sig.params.iter().map(|(n, t)| format!("({} {})", s(n), qual(*t)))),
                sx::list(slots.types.iter()),
                body,
                gs.pos.row(),
                gs.pos.col()
            ));
            tables.push(slots.table());
        }
    }
    let n_procs = procs.len();
    Some(ProcProgram {
        program: format!(
            "(pjprogram {} {} {} {})",
            sx::list(main_slots.types.iter()),
            sx::list(cx.gslots.borrow().types.iter()),
            sx::list(main),
            sx::list(procs)
        ),
        tables: format!("({} {} {})", main_slots.table(), cx.gslots.borrow().table(), sx::list(tables)),
        n_procs,
        n_labels: cx.labels.len(),
    })
}

/// parse + lint + serialise + the real instruction list: `(program, tables, code)`; None = rejected or outside
pub fn src_and_code(text: &str) -> Option<(ProcProgram, String)> {
    let t = text.to_owned();
    std::panic::catch_unwind(move || {
        let p = rusty_parser::parse_main_str(t).ok()?;
        let (linted, ctx) = rusty_linter::core::lint(p).ok()?;
        let (names, _udt) = rusty_basic::instruction_generator::unwrap_linter_context(ctx);
        if std::env::var("VERIF_C03J_TREE").is_ok() {
            eprintln!("{:?}", linted);
        }
        let pp = program(&linted, &names)?;
        let res = rusty_basic::instruction_generator::generate_instructions(linted, names);
        let (code, _addrs) = crate::instr_sx::program(&res);
        Some((pp, code))
    })
    .map_err(|e| {
        if std::env::var("VERIF_C03J_SHOW").is_ok() {
            eprintln!("front end / serialiser panicked: {:?}", e.downcast_ref::<String>());
        }
        e
    })
    .ok()
    .flatten()
}
