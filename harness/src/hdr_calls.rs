//! Directed programs `header-calls`: a user FUNCTION called from every *header* position of every construct
//! (FOR lower bound / upper bound / STEP, the five loop conditions, IF / ELSEIF conditions, SELECT selector, CASE
//! items of the three kinds, PRINT items, array subscripts and DIM bounds), where the callee's body itself uses — at
//! its top level and nested — every construct that keeps state in the VM's registers or on its value stack (FOR with
//! and without STEP, both signs, steps other than 1, LONG and SINGLE counters; SELECT CASE; nested calls; GOSUB; EXIT
//! FUNCTION from inside a FOR; recursion; STATIC), the calling construct optionally inside another construct or inside
//! a FUNCTION / SUB of its own.  A user FUNCTION runs in the register frame of its caller, so whatever the callee
//! leaves in a register or on a stack must not be read by the construct whose header called it: every construct prints
//! what it does, so any such leak changes the printed trace.
//!
//! Written after a wave-9 seed (the default step of a FOR without STEP was loaded into register D *before* the upper
//! bound was evaluated: a FOR … STEP 2 at the top level of a function called from the upper bound left its step
//! there).  Shared by C02 (every program is also respelled: all spellings must print the same) and C03 (`c03p`:
//! `Proc.Ref` says what must be printed).
//!
//! Contract of every callee shape: `F%(x)` prints `f x` and returns `x` for 0 <= x <= 9.

pub const N_POS: usize = 27;
pub const N_SHAPES: usize = 16;
pub const N_CTX: usize = 8;

const POS_NAMES: [&str; N_POS] = [
    "for-lo",
    "for-hi",
    "for-hi-with-step",
    "for-step",
    "for-negative-step",
    "for-lo-hi",
    "for-lo-hi-step",
    "for-hi-pending-operand",
    "for-hi-long-counter",
    "for-hi-single-counter",
    "for-hi-inside-for",
    "while",
    "do-while-top",
    "do-until-top",
    "loop-while",
    "loop-until",
    "if-elseif",
    "if-single-line",
    "if-else-block",
    "select-selector",
    "case-simple",
    "case-is",
    "case-range",
    "select-mixed",
    "print-items",
    "array-subscript",
    "dim-bounds",
];

const SHAPE_NAMES: [&str; N_SHAPES] = [
    "plain",
    "for",
    "for-step2",
    "for-step-minus3",
    "for-computed-step",
    "for-single-step",
    "for-long-step-minus1",
    "select",
    "select-for-select",
    "nested-call-in-for-header",
    "nested-fors-then-for",
    "gosub-for-step4",
    "exit-function-in-for",
    "while-do",
    "static-for-step3",
    "recursion-in-for",
];

const CTX_NAMES: [&str; N_CTX] =
    ["top", "in-for", "in-for-negative-step", "in-select", "in-while", "in-function", "in-sub", "in-else"];

pub fn pos_name(p: usize) -> &'static str {
    POS_NAMES[p]
}
pub fn shape_name(s: usize) -> &'static str {
    SHAPE_NAMES[s]
}
pub fn ctx_name(c: usize) -> &'static str {
    CTX_NAMES[c]
}

/// the program uses arrays (outside the procedures layer of C03)
pub fn uses_arrays(pos: usize) -> bool {
    pos >= 25
}
/// the program uses GOSUB / labels (outside the procedures layer of C03)
pub fn uses_gosub(shape: usize) -> bool {
    shape == 11
}

fn c(a: &str) -> String {
    format!("F%({})", a)
}

fn v(lines: &[&str]) -> Vec<String> {
    lines.iter().map(|l| (*l).to_owned()).collect()
}

fn for_loop(head: String, var: &str) -> Vec<String> {
    vec![head, format!("  PRINT {};", var), "NEXT".to_owned(), format!("PRINT \"|\"; {}", var)]
}

/// (lines that go first in the scope, the construct); the construct reads `N%` (0..3, set by the context)
fn construct(pos: usize) -> (Vec<String>, Vec<String>) {
    let mut pre = vec![];
    let body = match pos {
        0 => for_loop(format!("FOR I% = {} TO 3", c("N%")), "I%"),
        1 => for_loop(format!("FOR I% = 1 TO {}", c("N% + 1")), "I%"),
        2 => for_loop(format!("FOR I% = 1 TO {} STEP 2", c("N% + 3")), "I%"),
        3 => for_loop(format!("FOR I% = 1 TO 7 STEP {}", c("N% + 1")), "I%"),
        4 => for_loop(format!("FOR I% = 7 TO 1 STEP -{}", c("N% + 1")), "I%"),
        5 => for_loop(format!("FOR I% = {} TO {}", c("1"), c("N% + 1")), "I%"),
        6 => for_loop(format!("FOR I% = {} TO {} STEP {}", c("1"), c("N% + 4"), c("2")), "I%"),
        7 => for_loop(format!("FOR I% = 1 TO 1 + {}", c("N%")), "I%"),
        8 => for_loop(format!("FOR L& = 1 TO {}", c("N% + 1")), "L&"),
        9 => for_loop(format!("FOR V! = 0.5 TO {}", c("N% + 1")), "V!"),
        10 => vec![
            "FOR I% = 1 TO 2".to_owned(),
            format!("  FOR J% = 1 TO {}", c("I% + N%")),
            "    PRINT J%;".to_owned(),
            "  NEXT".to_owned(),
            "  PRINT \"/\"; J%;".to_owned(),
            "NEXT".to_owned(),
            "PRINT \"|\"; I%".to_owned(),
        ],
        11 => vec![
            "K% = 0".to_owned(),
            format!("WHILE {} < N% + 1", c("K%")),
            "  K% = K% + 1".to_owned(),
            "  PRINT K%;".to_owned(),
            "WEND".to_owned(),
            "PRINT \"|\"; K%".to_owned(),
        ],
        12 => vec![
            "K% = 0".to_owned(),
            format!("DO WHILE {} < N% + 1", c("K%")),
            "  K% = K% + 1".to_owned(),
            "  PRINT K%;".to_owned(),
            "LOOP".to_owned(),
            "PRINT \"|\"; K%".to_owned(),
        ],
        13 => vec![
            "K% = 0".to_owned(),
            format!("DO UNTIL {} >= N% + 1", c("K%")),
            "  K% = K% + 1".to_owned(),
            "  PRINT K%;".to_owned(),
            "LOOP".to_owned(),
            "PRINT \"|\"; K%".to_owned(),
        ],
        14 => vec![
            "K% = 0".to_owned(),
            "DO".to_owned(),
            "  K% = K% + 1".to_owned(),
            "  PRINT K%;".to_owned(),
            format!("LOOP WHILE {} < N% + 1", c("K%")),
            "PRINT \"|\"; K%".to_owned(),
        ],
        15 => vec![
            "K% = 0".to_owned(),
            "DO".to_owned(),
            "  K% = K% + 1".to_owned(),
            "  PRINT K%;".to_owned(),
            format!("LOOP UNTIL {} >= N% + 1", c("K%")),
            "PRINT \"|\"; K%".to_owned(),
        ],
        16 => vec![
            format!("IF {} = 0 THEN", c("N%")),
            "  PRINT \"a\"".to_owned(),
            format!("ELSEIF {} = 1 THEN", c("N%")),
            "  PRINT \"b\"".to_owned(),
            format!("ELSEIF 1 + {} = 3 THEN", c("N%")),
            "  PRINT \"c\"".to_owned(),
            "ELSE".to_owned(),
            "  PRINT \"d\"".to_owned(),
            "END IF".to_owned(),
        ],
        17 => vec![format!("IF {} > 1 THEN PRINT \"big\" ELSE PRINT \"small\"", c("N%")), format!("IF {} = 2 THEN PRINT \"two\"", c("N%"))],
        18 => vec![
            format!("IF {} < 2 THEN", c("N%")),
            "  PRINT \"lt\"".to_owned(),
            "ELSE".to_owned(),
            "  PRINT \"ge\"".to_owned(),
            "END IF".to_owned(),
        ],
        19 => vec![
            format!("SELECT CASE {}", c("N%")),
            "CASE 0".to_owned(),
            "  PRINT \"zero\"".to_owned(),
            "CASE 1, 2".to_owned(),
            "  PRINT \"few\"".to_owned(),
            "CASE IS > 2".to_owned(),
            "  PRINT \"many\"".to_owned(),
            "END SELECT".to_owned(),
        ],
        20 => vec![
            "SELECT CASE N%".to_owned(),
            format!("CASE {}", c("0")),
            "  PRINT \"s0\"".to_owned(),
            format!("CASE {}, {}", c("1"), c("2")),
            "  PRINT \"s12\"".to_owned(),
            "CASE ELSE".to_owned(),
            "  PRINT \"else\"".to_owned(),
            "END SELECT".to_owned(),
        ],
        21 => vec![
            "SELECT CASE N%".to_owned(),
            format!("CASE IS < {}", c("1")),
            "  PRINT \"lt1\"".to_owned(),
            format!("CASE IS = {}", c("2")),
            "  PRINT \"eq2\"".to_owned(),
            format!("CASE IS >= 1 + {}", c("2")),
            "  PRINT \"ge3\"".to_owned(),
            "CASE ELSE".to_owned(),
            "  PRINT \"else\"".to_owned(),
            "END SELECT".to_owned(),
        ],
        22 => vec![
            "SELECT CASE N%".to_owned(),
            format!("CASE {} TO {}", c("0"), c("1")),
            "  PRINT \"r01\"".to_owned(),
            format!("CASE {} TO {}, {} TO {}", c("3"), c("2"), c("2"), c("3")),
            "  PRINT \"r23\"".to_owned(),
            "CASE ELSE".to_owned(),
            "  PRINT \"else\"".to_owned(),
            "END SELECT".to_owned(),
        ],
        23 => vec![
            format!("SELECT CASE {} + 1", c("N%")),
            format!("CASE {}", c("1")),
            "  PRINT \"one\"".to_owned(),
            format!("CASE IS > {}", c("3")),
            "  PRINT \"gt3\"".to_owned(),
            format!("CASE {} TO {}, {}", c("2"), c("2"), c("3")),
            "  PRINT \"r23\"".to_owned(),
            "END SELECT".to_owned(),
        ],
        24 => vec![
            format!("PRINT {}; {}, {}; \"x\"; 1 + {}", c("N%"), c("1"), c("2"), c("N%")),
            format!("PRINT \"n\"; {};", c("N%")),
            format!("PRINT {}", c("3")),
        ],
        25 => {
            pre.push(format!("DIM A%({})", c("4")));
            vec![
                format!("A%({}) = 1 + N%", c("N%")),
                format!("PRINT A%({}); A%({})", c("N%"), c("4")),
                format!("FOR I% = 1 TO A%({})", c("N%")),
                "  PRINT I%;".to_owned(),
                "NEXT".to_owned(),
                "PRINT \"|\"; I%".to_owned(),
            ]
        }
        _ => {
            pre.push(format!("DIM B%({}, 1 TO {})", c("3"), c("4")));
            vec![
                format!("B%({}, {}) = 5 + N%", c("N%"), c("N% + 1")),
                format!("PRINT B%({}, {}); UBOUND(B%, 2)", c("N%"), c("N% + 1")),
            ]
        }
    };
    (pre, body)
}

/// the lines of FUNCTION `F%` (and of its helper `G%` when the shape calls one)
fn callee(shape: usize) -> (Vec<String>, bool) {
    let mut helper = false;
    let mut head = "FUNCTION F% (X%)";
    let body: Vec<String> = match shape {
        0 => v(&["F% = X%"]),
        1 => v(&["FOR Q% = 1 TO X%", "  T% = T% + 1", "NEXT", "F% = T%"]),
        2 => v(&["FOR Q% = 1 TO 2 * X% STEP 2", "  T% = T% + 1", "NEXT", "F% = T%"]),
        3 => v(&["FOR Q% = 3 * X% TO 1 STEP -3", "  T% = T% + 1", "NEXT", "F% = T%"]),
        4 => v(&["S% = X% + 2", "FOR Q% = 1 TO X% * S% STEP S%", "  T% = T% + 1", "NEXT", "F% = T%"]),
        5 => v(&["FOR Q! = 0.5 TO X% STEP 0.5", "  T% = T% + 1", "NEXT", "F% = T% / 2"]),
        6 => v(&["FOR Q& = 70000 + X% TO 70001 STEP -1", "  T% = T% + 1", "NEXT", "F% = T%"]),
        7 => v(&[
            "SELECT CASE X% * 2",
            "CASE 0",
            "  T% = 0",
            "CASE 1 TO 5, 6",
            "  T% = X%",
            "CASE IS > 6",
            "  T% = X%",
            "CASE ELSE",
            "  T% = -1",
            "END SELECT",
            "F% = T%",
        ]),
        8 => v(&[
            "SELECT CASE 1",
            "CASE 1",
            "  FOR Q% = 1 TO X% STEP 1",
            "    SELECT CASE Q%",
            "    CASE IS > 0",
            "      T% = T% + 1",
            "    END SELECT",
            "  NEXT",
            "END SELECT",
            "F% = T%",
        ]),
        9 => {
            helper = true;
            v(&["FOR Q% = G%(1) TO G%(X%) * 2 STEP G%(2)", "  T% = T% + 1", "NEXT", "F% = T% + G%(X%) - X%"])
        }
        10 => v(&[
            "FOR Q% = 1 TO 3 STEP 2",
            "  FOR R% = X% TO 1 STEP -1",
            "    T% = T% + 1",
            "  NEXT",
            "NEXT",
            "FOR Q% = 1 TO X%",
            "  T% = T% - 1",
            "NEXT",
            "F% = T%",
        ]),
        11 => v(&[
            "GOSUB Lf1",
            "F% = T%",
            "EXIT FUNCTION",
            "Lf1:",
            "FOR Q% = 1 TO 4 * X% STEP 4",
            "  T% = T% + 1",
            "NEXT",
            "RETURN",
        ]),
        12 => v(&["F% = X%", "FOR Q% = 1 TO 19 STEP 2", "  IF Q% > X% THEN EXIT FUNCTION", "NEXT", "F% = -1"]),
        13 => v(&[
            "WHILE T% < X% - 1",
            "  T% = T% + 1",
            "WEND",
            "DO UNTIL T% >= X%",
            "  T% = T% + 1",
            "LOOP",
            "F% = T%",
        ]),
        14 => {
            head = "FUNCTION F% (X%) STATIC";
            v(&["T% = 0", "FOR Q% = 1 TO 3 * X% STEP 3", "  T% = T% + 1", "NEXT", "CNT% = CNT% + 1", "F% = T%"])
        }
        _ => v(&["FOR Q% = 1 TO 2 STEP 2", "  IF X% > 0 THEN T% = F%(X% - 1) + 1", "NEXT", "F% = T%"]),
    };
    let mut out = vec![head.to_owned(), "  PRINT \"f\"; X%;".to_owned()];
    out.extend(body.into_iter().map(|l| format!("  {}", l)));
    out.push("END FUNCTION".to_owned());
    if helper {
        out.extend(v(&[
            "FUNCTION G% (Y%)",
            "  PRINT \"g\"; Y%;",
            "  FOR W% = 5 * Y% TO 1 STEP -5",
            "    U% = U% + 1",
            "  NEXT",
            "  G% = U%",
            "END FUNCTION",
        ]));
    }
    (out, helper)
}

fn indent(lines: Vec<String>) -> Vec<String> {
    lines.into_iter().map(|l| format!("  {}", l)).collect()
}

/// the whole program for (header position, callee shape, enclosing context)
pub fn program(pos: usize, shape: usize, ctx: usize) -> String {
    let (pre, cons) = construct(pos);
    let (callee_lines, helper) = callee(shape);
    let mut out: Vec<String> = vec!["DECLARE FUNCTION F% (X%)".to_owned()];
    if helper {
        out.push("DECLARE FUNCTION G% (Y%)".to_owned());
    }
    let mut tail: Vec<String> = vec![];
    match ctx {
        0 => {
            out.extend(pre);
            out.push("N% = 2".to_owned());
            out.extend(cons);
        }
        1 => {
            out.extend(pre);
            out.push("FOR N% = 0 TO 3".to_owned());
            out.extend(indent(cons));
            out.push("NEXT".to_owned());
        }
        2 => {
            out.extend(pre);
            out.push("FOR N% = 3 TO 0 STEP -1".to_owned());
            out.extend(indent(cons));
            out.push("NEXT".to_owned());
        }
        3 => {
            out.extend(pre);
            out.push("N% = 1".to_owned());
            out.push("SELECT CASE N% + 1".to_owned());
            out.push("CASE 2".to_owned());
            out.extend(indent(cons));
            out.push("CASE ELSE".to_owned());
            out.push("  PRINT \"no\"".to_owned());
            out.push("END SELECT".to_owned());
        }
        4 => {
            out.extend(pre);
            out.push("N% = -1".to_owned());
            out.push("WHILE N% < 3".to_owned());
            out.push("  N% = N% + 1".to_owned());
            out.extend(indent(cons));
            out.push("WEND".to_owned());
        }
        5 => {
            out.insert(1, "DECLARE FUNCTION H% (N%)".to_owned());
            out.push("FOR M% = 0 TO 3".to_owned());
            out.push("  PRINT 100 + H%(M%)".to_owned());
            out.push("NEXT".to_owned());
            out.push("A% = 7 * H%(2) + 1".to_owned());
            out.push("PRINT A%".to_owned());
            tail.push("FUNCTION H% (N%)".to_owned());
            tail.extend(indent(pre));
            tail.extend(indent(cons));
            tail.push("  H% = N% + 1".to_owned());
            tail.push("END FUNCTION".to_owned());
        }
        6 => {
            out.insert(1, "DECLARE SUB P (N%)".to_owned());
            out.push("P 1".to_owned());
            out.push("M% = 3".to_owned());
            out.push("P M%".to_owned());
            out.push("P (0)".to_owned());
            tail.push("SUB P (N%)".to_owned());
            tail.extend(indent(pre));
            tail.extend(indent(cons));
            tail.push("END SUB".to_owned());
        }
        _ => {
            out.extend(pre);
            out.push("N% = 3".to_owned());
            out.push("IF N% < 0 THEN".to_owned());
            out.push("  PRINT \"no\"".to_owned());
            out.push("ELSE".to_owned());
            out.extend(indent(cons));
            out.push("END IF".to_owned());
        }
    }
    out.push("PRINT \"done\"".to_owned());
    out.extend(callee_lines);
    out.extend(tail);
    out.join("\n") + "\n"
}
