//! Building single-line S-expressions.

pub fn list<I, S>(items: I) -> String
where
    I: IntoIterator<Item = S>,
    S: AsRef<str>,
{
    let mut s = String::from("(");
    let mut first = true;
    for i in items {
        if !first {
            s.push(' ');
        }
        first = false;
        s.push_str(i.as_ref());
    }
    s.push(')');
    s
}

pub fn ints<I, T>(items: I) -> String
where
    I: IntoIterator<Item = T>,
    T: std::fmt::Display,
{
    list(items.into_iter().map(|i| i.to_string()))
}

pub fn bools<I>(items: I) -> String
where
    I: IntoIterator<Item = bool>,
{
    list(items.into_iter().map(|b| if b { "t" } else { "f" }))
}

/// A string as the list of its bytes (no escaping issues, UTF-8 visible).
pub fn bytes(b: &[u8]) -> String {
    ints(b.iter())
}

/// A string as the list of the code points of its chars.
pub fn chars(s: &str) -> String {
    ints(s.chars().map(|c| c as u32))
}

pub fn cmd(name: &str, args: &[String]) -> String {
    let mut v: Vec<String> = vec![name.to_string()];
    v.extend(args.iter().cloned());
    list(v)
}
