//! Serialisation of the LINTED program with arrays of records / fixed-length strings (the exact input of
//! `generate_instructions`) into the syntax of `lean/RbModel/AoR/Syntax.lean` (`(aorprogram …)`), with the three
//! tables the normaliser of `RbModel.AoR.Compile` needs (variables, arrays, type names). `recl_sx.rs` (records,
//! `STRING * n`, field paths) extended by `DIM` / `REDIM` of arrays whose element type is a built-in type, `STRING * n`
//! or a record type, element reads and assignments with a field path below the element, `LBOUND` / `UBOUND`.
//!
//! Conventions: variables and arrays are numbered separately, each in order of first occurrence of the resolved
//! `(bare name, qualifier or none)`; field, type and variable names are upper-cased. Returns `None` for anything outside
//! the modelled language: procedures, SHARED, CONST, GOSUB / GOTO / labels, ON ERROR, built-in functions other than
//! LBOUND / UBOUND, a by-reference dimension argument of LBOUND / UBOUND, READ into anything but a plain built-in variable.

use std::collections::HashMap;

use rusty_common::Positioned;
use rusty_parser::{
    AsBareName, BuiltInFunction, BuiltInSub, CaseExpression, ExpressionTrait, Expressions, DimList, DimType, DoLoopConditionKind, DoLoopConditionPosition, ElementType,
    Expression, ExpressionPos, ExpressionType, GlobalStatement, Operator, PrintArg, Program, Statement, Statements,
    TypeQualifier, UnaryOperator, UserDefinedTypes,
};

use crate::ast_sx::{float_val, qual};
use crate::instr_sx::s;
use crate::sx;

struct Slots {
    map: HashMap<(String, &'static str), usize>,
    /// declared / static type of every slot, as an `ety`
    types: Vec<String>,
}

impl Slots {
    fn new() -> Self {
        Slots { map: HashMap::new(), types: vec![] }
    }

    /// `q = None`: the unqualified name of a record variable
    fn get_typed(&mut self, bare: &str, q: Option<TypeQualifier>, ety: String) -> usize {
        let t = q.map(qual).unwrap_or("none");
        let key = (bare.to_ascii_uppercase(), t);
        if let Some(i) = self.map.get(&key) {
            return *i;
        }
        let i = self.types.len();
        self.types.push(ety);
        self.map.insert(key, i);
        i
    }

    fn get(&mut self, bare: &str, q: Option<TypeQualifier>) -> usize {
        let ety = q.map(qual).unwrap_or("none").to_owned();
        self.get_typed(bare, q, ety)
    }

    fn table(&self) -> String {
        let mut names: Vec<(usize, String)> = self.map.iter().map(|((n, t), i)| (*i, format!("({} {})", s(n), t))).collect();
        names.sort();
        sx::list(names.into_iter().map(|(_, x)| x))
    }
}

struct Names<'a> {
    vars: Slots,
    arrs: Slots,
    /// upper-cased type names in declaration order
    type_names: Vec<String>,
    types: &'a UserDefinedTypes,
}

impl<'a> Names<'a> {
    fn type_id(&self, name: &str) -> Option<usize> {
        let u = name.to_ascii_uppercase();
        self.type_names.iter().position(|n| *n == u)
    }

    /// `int | long | sgl | dbl | str | (fix n) | (rec k)` and the qualifier under which a VARIABLE of the type is stored
    fn ety(&self, t: &ExpressionType) -> Option<(String, Option<TypeQualifier>)> {
        Some(match t {
            ExpressionType::BuiltIn(q) => (qual(*q).to_owned(), Some(*q)),
            ExpressionType::FixedLengthString(n) => (format!("(fix {})", n), Some(TypeQualifier::DollarString)),
            ExpressionType::UserDefined(name) => (format!("(rec {})", self.type_id(&name.to_string())?), None),
            _ => return None,
        })
    }

    /// the expanded field list of type `name`: `((<NAME> <fty>) …)`; `depth` guards against a cyclic table
    fn fields(&self, name: &str, depth: u32) -> Option<String> {
        if depth > 16 {
            return None;
        }
        let key = self.types.keys().find(|k| k.to_string().eq_ignore_ascii_case(name))?;
        let udt = self.types.get(key)?;
        let mut out = vec![];
        for el in udt.elements() {
            let e = &el.element;
            let fty = match &e.element_type {
                ElementType::Integer => "int".to_owned(),
                ElementType::Long => "long".to_owned(),
                ElementType::Single => "sgl".to_owned(),
                ElementType::Double => "dbl".to_owned(),
                ElementType::FixedLengthString(_, n) => format!("(fix {})", n),
                ElementType::UserDefined(inner) => {
                    let iname = inner.element.to_string();
                    format!("(rec {} {})", self.type_id(&iname)?, self.fields(&iname, depth + 1)?)
                }
            };
            out.push(format!("({} {})", s(&e.name.to_string().to_ascii_uppercase()), fty));
        }
        Some(sx::list(out))
    }
}

fn op(o: Operator) -> &'static str {
    match o {
        Operator::Less => "less",
        Operator::LessOrEqual => "lessOrEqual",
        Operator::Equal => "equal",
        Operator::GreaterOrEqual => "greaterOrEqual",
        Operator::Greater => "greater",
        Operator::NotEqual => "notEqual",
        Operator::Plus => "plus",
        Operator::Minus => "minus",
        Operator::Multiply => "multiply",
        Operator::Divide => "divide",
        Operator::Modulo => "modulo",
        Operator::And => "and",
        Operator::Or => "or",
    }
}


enum Root {
    Var(usize),
    /// array number, serialised subscripts
    Elem(usize, String),
}

/// a variable or an array element with a (possibly empty) field path: `(root, path names outermost first)`
fn var_path(e: &Expression, slots: &mut Names) -> Option<(Root, Vec<String>)> {
    match e {
        Expression::Variable(name, t) => {
            let (ety, q) = slots.ety(t)?;
            let x = slots.vars.get_typed(&name.as_bare_name().to_string(), q, ety);
            Some((Root::Var(x), vec![]))
        }
        Expression::ArrayElement(name, idx, t) => {
            let (ety, q) = slots.ety(t)?;
            let a = slots.arrs.get_typed(&name.as_bare_name().to_string(), q, ety);
            Some((Root::Elem(a, exprs(idx, slots)?), vec![]))
        }
        Expression::Property(left, name, _) => {
            let (x, mut path) = var_path(left, slots)?;
            path.push(s(&name.as_bare_name().to_string().to_ascii_uppercase()));
            Some((x, path))
        }
        _ => None,
    }
}

fn exprs(a: &Expressions, slots: &mut Names) -> Option<String> {
    let mut out = vec![];
    for e in a {
        out.push(expr(e, slots)?);
    }
    Some(sx::list(out))
}

fn expr(e: &ExpressionPos, slots: &mut Names) -> Option<String> {
    let Positioned { element, pos } = e;
    let (r, c) = (pos.row(), pos.col());
    Some(match element {
        Expression::IntegerLiteral(i) => format!("(lit (int {}) {} {})", i, r, c),
        Expression::LongLiteral(l) => format!("(lit (long {}) {} {})", l, r, c),
        Expression::SingleLiteral(f) => format!("(lit {} {} {})", float_val("sgl", *f as f64)?, r, c),
        Expression::DoubleLiteral(f) => format!("(lit {} {} {})", float_val("dbl", *f)?, r, c),
        Expression::StringLiteral(t) => format!("(lit (str {}) {} {})", sx::chars(t), r, c),
        Expression::Variable(_, t) | Expression::Property(_, _, t) | Expression::ArrayElement(_, _, t) => {
            let (ety, _) = slots.ety(t)?;
            match var_path(element, slots)? {
                (Root::Var(x), path) => format!("(var {} {} {} {} {})", x, sx::list(path), ety, r, c),
                (Root::Elem(a, idx), path) => format!("(elem {} {} {} {} {} {})", a, idx, sx::list(path), ety, r, c),
            }
        }
        Expression::BuiltInFunctionCall(f, a) if matches!(f, BuiltInFunction::LBound | BuiltInFunction::UBound) => {
            if a.is_empty() || a.len() > 2 {
                return None;
            }
            let an = match &a[0].element {
                Expression::Variable(name, ExpressionType::Array(inner)) => {
                    let (ety, q) = slots.ety(inner.as_ref())?;
                    slots.arrs.get_typed(&name.as_bare_name().to_string(), q, ety)
                }
                _ => return None,
            };
            let d = match a.get(1) {
                Some(d) => {
                    if d.element.is_by_ref() {
                        return None;
                    }
                    expr(d, slots)?
                }
                None => "none".to_owned(),
            };
            format!(
                "(bound {} {} {} {} {} {} {})",
                if matches!(f, BuiltInFunction::UBound) { "t" } else { "f" },
                an,
                a[0].pos.row(),
                a[0].pos.col(),
                d,
                r,
                c
            )
        }
        Expression::UnaryExpression(UnaryOperator::Minus, child) => format!("(neg {} {} {})", expr(child, slots)?, r, c),
        Expression::UnaryExpression(UnaryOperator::Not, child) => format!("(not {} {} {})", expr(child, slots)?, r, c),
        Expression::BinaryExpression(o, l, rr, ExpressionType::BuiltIn(q)) => {
            format!("(bin {} {} {} {} {} {})", op(*o), expr(l, slots)?, expr(rr, slots)?, qual(*q), r, c)
        }
        Expression::Parenthesis(child) => format!("(paren {} {} {})", expr(child, slots)?, r, c),
        _ => return None,
    })
}

fn case_expr(ce: &CaseExpression, slots: &mut Names) -> Option<String> {
    Some(match ce {
        CaseExpression::Simple(e) => format!("(simple {})", expr(e, slots)?),
        CaseExpression::Is(o, e) => format!("(is {} {})", op(*o), expr(e, slots)?),
        CaseExpression::Range(a, b) => format!("(range {} {})", expr(a, slots)?, expr(b, slots)?),
    })
}

fn sblock(stmts: &Statements, slots: &mut Names) -> Option<String> {
    let mut out = vec![];
    for st in stmts {
        sstmt(st, slots, &mut out)?;
    }
    Some(sx::list(out))
}

fn lit_val(e: &Expression) -> Option<String> {
    Some(match e {
        Expression::IntegerLiteral(i) => format!("(int {})", i),
        Expression::LongLiteral(l) => format!("(long {})", l),
        Expression::SingleLiteral(f) => float_val("sgl", *f as f64)?,
        Expression::DoubleLiteral(f) => float_val("dbl", *f)?,
        Expression::StringLiteral(t) => format!("(str {})", sx::chars(t)),
        _ => return None,
    })
}

fn sstmt(st: &Positioned<Statement>, slots: &mut Names, out: &mut Vec<String>) -> Option<()> {
    let Positioned { element, pos } = st;
    let (r, c) = (pos.row(), pos.col());
    match element {
        Statement::Comment(_) => out.push("comment".to_owned()),
        Statement::Dim(dim_list) | Statement::Redim(dim_list) => dim_list_sx(dim_list, slots, out)?,
        Statement::Assignment(a) => {
            let l = a.lvalue();
            let t = match l {
                Expression::Variable(_, t) | Expression::Property(_, _, t) | Expression::ArrayElement(_, _, t) => t,
                _ => return None,
            };
            let (ety, _) = slots.ety(t)?;
            match var_path(l, slots)? {
                (Root::Var(x), path) => {
                    out.push(format!("(assign {} {} {} {} {} {})", x, sx::list(path), ety, expr(a.rvalue(), slots)?, r, c))
                }
                (Root::Elem(an, idx), path) => {
                    out.push(format!("(assignel {} {} {} {} {} {} {})", an, idx, sx::list(path), ety, expr(a.rvalue(), slots)?, r, c))
                }
            }
        }
        Statement::Print(p) => {
            if p.file_number.is_some() || p.lpt1 || p.format_string.is_some() {
                return None;
            }
            let mut items = vec![];
            for a in &p.args {
                items.push(match a {
                    PrintArg::Comma => "comma".to_owned(),
                    PrintArg::Semicolon => "semi".to_owned(),
                    PrintArg::Expression(e) => format!("(e {})", expr(e, slots)?),
                });
            }
            out.push(format!("(print {} {} {})", sx::list(items), r, c));
        }
        Statement::BuiltInSubCall(b) => match b.built_in_sub() {
            BuiltInSub::Data => {
                let mut items = vec![];
                for a in b.args() {
                    items.push(format!("({} {} {})", lit_val(&a.element)?, a.pos.row(), a.pos.col()));
                }
                out.push(format!("(data {} {} {})", sx::list(items), r, c));
            }
            BuiltInSub::Read => {
                let mut vars = vec![];
                for a in b.args() {
                    match &a.element {
                        Expression::Variable(name, ExpressionType::BuiltIn(q)) => {
                            let x = slots.vars.get(&name.as_bare_name().to_string(), Some(*q));
                            vars.push(format!("(v {} {} {} {})", x, qual(*q), a.pos.row(), a.pos.col()));
                        }
                        _ => return None,
                    }
                }
                out.push(format!("(read {} {} {})", sx::list(vars), r, c));
            }
            _ => return None,
        },
        Statement::IfBlock(i) => {
            let thn = sblock(&i.if_block.statements, slots)?;
            let cond = expr(&i.if_block.condition, slots)?;
            let mut elifs = vec![];
            for eb in &i.else_if_blocks {
                elifs.push(format!("({} {})", expr(&eb.condition, slots)?, sblock(&eb.statements, slots)?));
            }
            let els = match &i.else_block {
                Some(e) => sblock(e, slots)?,
                None => "none".to_owned(),
            };
            out.push(format!("(if {} {} {} {} {} {})", cond, thn, sx::list(elifs), els, r, c));
        }
        Statement::SelectCase(sc) => {
            let subject = expr(&sc.expr, slots)?;
            let mut cases = vec![];
            for cb in &sc.case_blocks {
                let mut conds = vec![];
                for ce in cb.conditions() {
                    conds.push(case_expr(ce, slots)?);
                }
                cases.push(format!("({} {})", sx::list(conds), sblock(cb.statements(), slots)?));
            }
            let els = match &sc.else_block {
                Some(e) => sblock(e, slots)?,
                None => "none".to_owned(),
            };
            out.push(format!("(select {} {} {} {} {})", subject, sx::list(cases), els, r, c));
        }
        Statement::ForLoop(f) => {
            let (x, q) = match &f.variable_name.element {
                Expression::Variable(name, ExpressionType::BuiltIn(q)) => (slots.vars.get(&name.as_bare_name().to_string(), Some(*q)), *q),
                _ => return None,
            };
            let lo = expr(&f.lower_bound, slots)?;
            let hi = expr(&f.upper_bound, slots)?;
            let step = match &f.step {
                Some(st) => expr(st, slots)?,
                None => "none".to_owned(),
            };
            out.push(format!("(for {} {} {} {} {} {} {} {})", x, qual(q), lo, hi, step, sblock(&f.statements, slots)?, r, c));
        }
        Statement::While(w) => {
            out.push(format!("(while {} {} {} {})", expr(&w.condition, slots)?, sblock(&w.statements, slots)?, r, c));
        }
        Statement::DoLoop(d) => {
            out.push(format!(
                "(do {} {} {} {} {} {})",
                expr(&d.condition, slots)?,
                if d.position == DoLoopConditionPosition::Top { "t" } else { "f" },
                if d.kind == DoLoopConditionKind::Until { "t" } else { "f" },
                sblock(&d.statements, slots)?,
                r,
                c
            ));
        }
        Statement::End | Statement::System => out.push(format!("(end {} {})", r, c)),
        _ => return None,
    }
    Some(())
}

fn dim_list_sx(dim_list: &DimList, slots: &mut Names, out: &mut Vec<String>) -> Option<()> {
    if dim_list.shared {
        return None;
    }
    for v in &dim_list.variables {
        let bare = v.element.as_bare_name().to_string();
        if let DimType::Array(dims, elem) = v.element.var_type() {
            let (ety, q) = match elem.as_ref() {
                DimType::BuiltIn(q, _) => (qual(*q).to_owned(), Some(*q)),
                DimType::FixedLengthString(_, n) => (format!("(fix {})", n), Some(TypeQualifier::DollarString)),
                DimType::UserDefined(name) => (format!("(rec {})", slots.type_id(&name.element.to_string())?), None),
                _ => return None,
            };
            let mut ds = vec![];
            for d in dims {
                let lo = match &d.lbound {
                    Some(e) => expr(e, slots)?,
                    None => "none".to_owned(),
                };
                ds.push(format!("({} {})", lo, expr(&d.ubound, slots)?));
            }
            let a = slots.arrs.get_typed(&bare, q, ety.clone());
            out.push(format!("(dimarr {} {} {} {} {})", a, ety, sx::list(ds), v.pos.row(), v.pos.col()));
            continue;
        }
        let (ety, q) = match v.element.var_type() {
            DimType::BuiltIn(q, _) => (qual(*q).to_owned(), Some(*q)),
            DimType::FixedLengthString(_, n) => (format!("(fix {})", n), Some(TypeQualifier::DollarString)),
            DimType::UserDefined(name) => (format!("(rec {})", slots.type_id(&name.element.to_string())?), None),
            _ => return None,
        };
        let x = slots.vars.get_typed(&bare, q, ety.clone());
        out.push(format!("(dim {} {} {} {})", x, ety, v.pos.row(), v.pos.col()));
    }
    Some(())
}

pub struct AorProgram {
    /// `(aorprogram (<fields of type 0> …) (<slot ety>…) (<array element ety>…) (<stmt>…))`
    pub program: String,
    /// `(<variable table> <array table> <type names>)`: a table = `((<name> <ty | none>)…)` in slot order,
    /// `(<type name>…)` in type order
    pub tables: String,
    pub n_types: usize,
    pub n_arrays: usize,
}

/// The linted program in the syntax of `RbModel.AoR.Syntax`, or None if outside it. `type_order`: the type names in
/// declaration order (the linted program no longer contains the TYPE statements, the linter's table is a hash map).
pub fn program(p: &Program, types: &UserDefinedTypes, type_order: &[String]) -> Option<AorProgram> {
    let mut names = Names { vars: Slots::new(), arrs: Slots::new(), type_names: type_order.iter().map(|n| n.to_ascii_uppercase()).collect(), types };
    if names.type_names.len() != types.len() {
        return None;
    }
    let mut tys = vec![];
    for n in type_order {
        tys.push(names.fields(n, 0)?);
    }
    let mut main = vec![];
    for gs in p {
        match &gs.element {
            GlobalStatement::Statement(st) => {
                let sp = Positioned { element: st.clone(), pos: gs.pos };
                sstmt(&sp, &mut names, &mut main)?;
            }
            GlobalStatement::DefType(_) | GlobalStatement::UserDefinedType(_) => {}
            _ => return None,
        }
    }
    Some(AorProgram {
        program: format!(
            "(aorprogram {} {} {} {})",
            sx::list(tys),
            sx::list(names.vars.types.iter()),
            sx::list(names.arrs.types.iter()),
            sx::list(main)
        ),
        tables: format!("({} {} {})", names.vars.table(), names.arrs.table(), sx::list(names.type_names.iter().map(|n| s(n)))),
        n_types: type_order.len(),
        n_arrays: names.arrs.types.len(),
    })
}

/// parse + lint + serialise + the real instruction list: `(program, code)`; None = rejected or outside
pub fn src_and_code(text: &str) -> Option<(AorProgram, String)> {
    let t = text.to_owned();
    std::panic::catch_unwind(move || {
        let p = rusty_parser::parse_main_str(t).ok()?;
        let type_order: Vec<String> = p
            .iter()
            .filter_map(|gs| match &gs.element {
                GlobalStatement::UserDefinedType(u) => Some(u.bare_name().to_string()),
                _ => None,
            })
            .collect();
        let (linted, ctx) = rusty_linter::core::lint(p).ok()?;
        let (names, udt) = rusty_basic::instruction_generator::unwrap_linter_context(ctx);
        let pp = program(&linted, &udt, &type_order)?;
        let res = rusty_basic::instruction_generator::generate_instructions(linted, names);
        let (code, _addrs) = crate::instr_sx::program(&res);
        Some((pp, code))
    })
    .ok()
    .flatten()
}
