//! Running a core-language program on the real implementation and on the reference semantics
//! (`RbModel.Ref` through the driver), and comparing the two. Shared by C01 and C02.

use rusty_basic::interpreter::verif::run_in_memory;

use crate::ast_sx;

#[derive(Clone, Debug, PartialEq)]
pub struct Observed {
    /// "normal" or "error <code> <row> <col>" or "panic" / "budget" / "front-end"
    pub outcome: String,
    pub out: Vec<u8>,
}

/// the linted AST of a program text as a `(program …)` S-expression; None = rejected or outside the core
pub fn core_ast(text: &str) -> Option<String> {
    let t = text.to_owned();
    std::panic::catch_unwind(move || {
        let p = rusty_parser::parse_main_str(t).ok()?;
        let (linted, _ctx) = rusty_linter::core::lint(p).ok()?;
        ast_sx::program(&linted)
    })
    .ok()
    .flatten()
}

pub fn first_position(debug: &str) -> Option<(u32, u32)> {
    let i = debug.find("Position { row: ")?;
    let rest = &debug[i + 16..];
    let j = rest.find(',')?;
    let row: u32 = rest[..j].trim().parse().ok()?;
    let k = rest.find("col: ")?;
    let rest2 = &rest[k + 5..];
    let e = rest2.find(' ').or_else(|| rest2.find('}'))?;
    let col: u32 = rest2[..e].trim().parse().ok()?;
    Some((row, col))
}

pub fn run_real(text: &str, stdin: &[u8], budget: u64) -> Observed {
    let t = text.to_owned();
    let sin = stdin.to_vec();
    match std::panic::catch_unwind(move || run_in_memory(&t, &sin, budget, None, false)) {
        Err(_) => Observed { outcome: "panic".into(), out: vec![] },
        Ok(Err(e)) => Observed { outcome: format!("front-end {:?}", e), out: vec![] },
        Ok(Ok(r)) => {
            let outcome = if r.budget_exhausted {
                "budget".to_owned()
            } else {
                match &r.result {
                    Ok(()) => "normal".to_owned(),
                    Err(e) => {
                        let d = format!("{:?}", e);
                        let (row, col) = first_position(&d).unwrap_or((0, 0));
                        format!("error {} {} {}", e.err().get_code(), row, col)
                    }
                }
            };
            Observed { outcome, out: r.stdout }
        }
    }
}

/// parses the driver's answer to `ref.run`: `(<outcome> (<bytes>) (<env>))`
pub fn parse_ref_answer(ans: &str) -> Option<(String, Vec<u8>, String)> {
    let a = ans.trim();
    if !a.starts_with('(') || a.starts_with("(bad-op") {
        return None;
    }
    let inner = &a[1..a.len() - 1];
    let (outcome, rest) = if inner.starts_with('(') {
        let e = inner.find(')')?;
        (inner[1..e].to_owned(), inner[e + 1..].trim_start())
    } else {
        let e = inner.find(' ')?;
        (inner[..e].to_owned(), inner[e + 1..].trim_start())
    };
    let e = rest.find(')')?;
    let bytes: Vec<u8> = rest[1..e].split_whitespace().filter_map(|x| x.parse::<u32>().ok()).map(|x| x as u8).collect();
    let env = rest[e + 1..].trim().to_owned();
    let outcome = if outcome == "halted" { "normal".to_owned() } else { outcome };
    Some((outcome, bytes, env))
}

/// the faithful syntax tree, the slot table and the real instruction list of a core program
pub fn core_src_and_code(text: &str) -> Option<(String, String, String)> {
    let t = text.to_owned();
    std::panic::catch_unwind(move || {
        let p = rusty_parser::parse_main_str(t).ok()?;
        let (linted, ctx) = rusty_linter::core::lint(p).ok()?;
        let (src, table) = ast_sx::program_src(&linted)?;
        let (names, _udt) = rusty_basic::instruction_generator::unwrap_linter_context(ctx);
        let res = rusty_basic::instruction_generator::generate_instructions(linted, names);
        let (code, _addrs) = crate::instr_sx::program(&res);
        Some((src, table, code))
    })
    .ok()
    .flatten()
}
