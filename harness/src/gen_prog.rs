//! Type-directed random generator of BASIC programs (text), shared by the program-level checks.
//! Mostly well-typed and terminating programs; every random choice comes from the given Rng.

use crate::rng::Rng;

#[derive(Clone, Debug)]
pub struct Opts {
    pub max_depth: u32,
    pub max_block: u32,
    pub top_stmts: u32,
    pub subs: bool,
    pub gosub: bool,
    pub goto_fwd: bool,
    pub on_error: bool,
    pub data: bool,
    pub strings: bool,
    pub floats: bool,
    pub select: bool,
    pub division: bool,
    /// inject run-time faults (division by zero, overflow, READ past DATA, zero STEP)
    pub faults: bool,
    /// GOTO out of loops / blocks to a label after the enclosing top-level statement, EXIT SUB/FUNCTION inside loops
    pub jumps_out: bool,
    /// vary indentation and join simple statements with `:` (positions spread over many columns)
    pub relayout: bool,
}

impl Default for Opts {
    fn default() -> Self {
        Opts {
            max_depth: 3,
            max_block: 3,
            top_stmts: 8,
            subs: true,
            gosub: true,
            goto_fwd: true,
            on_error: false,
            data: true,
            strings: true,
            floats: true,
            select: true,
            division: true,
            faults: false,
            jumps_out: true,
            relayout: true,
        }
    }
}

#[derive(Clone, Copy, PartialEq, Eq, Debug)]
pub enum Ty {
    Int,
    Long,
    Sgl,
    Dbl,
    Str,
}

pub struct ProgGen<'a> {
    pub rng: &'a mut Rng,
    pub opts: Opts,
    lines: Vec<String>,
    counters_in_use: Vec<String>,
    fresh: u32,
    gosubs: Vec<(String, Vec<String>)>,
    sel_depth: u32,
    handlers: Vec<(String, Vec<String>)>,
    subs: Vec<SubInfo>,
    in_sub: bool,
    data_items: Vec<(Ty, String)>,
    data_read: usize,
    loop_depth: u32,
    pending_labels: Vec<String>,
    cur_sub_kw: &'static str,
    /// FOR ... STEP loops enclosing the statement being generated: no label is placed inside one (a label in a
    /// FOR ... STEP body is emitted twice, known finding C05-a)
    step_for_depth: u32,
    /// > 0 while generating statements that a backward jump to a block label may execute again (no READ there:
    /// every READ has exactly one DATA item)
    replay_depth: u32,
    /// the handler installed at the start of the main module, restored after a `RESUME label` pattern
    main_handler: Option<String>,
    /// FOR statements (with or without STEP) enclosing the statement being generated
    for_depth: u32,
    /// see `Ext`
    pub ext: Ext,
    pub features: Vec<&'static str>,
}

/// Options beyond `Opts` (kept apart so that the binaries that spell out every field of `Opts` need not change).
#[derive(Clone, Debug, Default)]
pub struct Ext {
    /// labels inside blocks of every kind (CASE / CASE ELSE, THEN / ELSEIF / ELSE, WHILE / DO bodies, FOR bodies without
    /// STEP) with bounded jumps to them (GOTO; RESUME label where ON ERROR is enabled) from the same block, from another
    /// block of the same IF / SELECT CASE, from a nested construct.  Off by default: the respellings of C02 duplicate
    /// blocks (a block holding a label cannot be duplicated) and the core fragment of C01 / C02 has no labels; with the
    /// option off the generator draws exactly the random numbers it drew before the option existed.
    pub block_labels: bool,
    /// allow the target of a `RESUME label` to lie inside a FOR body / a SELECT CASE block (the VM cuts the register and
    /// value stacks back to the label's recorded depths, 1a4d83d).  Off by default: the certificate checker of C15 takes
    /// every RESUME label target for the entry of an activation at relative depth zero and refuses such lists.
    pub resume_label_in_for_select: bool,
}

#[derive(Clone)]
struct SubInfo {
    name: String,
    is_function: bool,
    params: Vec<Ty>,
    is_static: bool,
    ret: Ty,
}

fn suffix(t: Ty) -> &'static str {
    match t {
        Ty::Int => "%",
        Ty::Long => "&",
        Ty::Sgl => "!",
        Ty::Dbl => "#",
        Ty::Str => "$",
    }
}

impl<'a> ProgGen<'a> {
    pub fn new(rng: &'a mut Rng, opts: Opts) -> Self {
        ProgGen {
            rng,
            opts,
            lines: vec![],
            counters_in_use: vec![],
            fresh: 0,
            gosubs: vec![],
            sel_depth: 0,
            handlers: vec![],
            subs: vec![],
            in_sub: false,
            data_items: vec![],
            data_read: 0,
            loop_depth: 0,
            pending_labels: vec![],
            cur_sub_kw: "",
            step_for_depth: 0,
            replay_depth: 0,
            main_handler: None,
            for_depth: 0,
            ext: Ext::default(),
            features: vec![],
        }
    }

    fn feat(&mut self, f: &'static str) {
        if !self.features.contains(&f) {
            self.features.push(f);
        }
    }

    fn num_tys(&mut self) -> Ty {
        if self.opts.floats {
            *self.rng.pick(&[Ty::Int, Ty::Int, Ty::Long, Ty::Sgl, Ty::Dbl])
        } else {
            *self.rng.pick(&[Ty::Int, Ty::Int, Ty::Long])
        }
    }

    fn var(&mut self, t: Ty) -> String {
        let names: &[&str] = match t {
            Ty::Int => &["I%", "J%", "K%"],
            Ty::Long => &["L&", "M&"],
            Ty::Sgl => &["X!", "Y!", "A"],
            Ty::Dbl => &["D#", "E#"],
            Ty::Str => &["S$", "T$"],
        };
        (*self.rng.pick(names)).to_owned()
    }

    fn lit(&mut self, t: Ty) -> String {
        // now and then a value at the very end of its type's range: operators are most likely to go wrong there
        // (after a wave-8 seed: `a - b` computed as `a + (-b)` fails for b = -32768 although the difference fits)
        if self.rng.chance(1, 14) {
            match t {
                Ty::Int => return (*self.rng.pick(&["32767", "-32768", "-32767", "32766"])).to_owned(),
                Ty::Long => return (*self.rng.pick(&["2147483647", "-2147483648", "-2147483647", "32768", "-32769"])).to_owned(),
                _ => {}
            }
        }
        match t {
            Ty::Int => format!("{}", self.rng.range(-9, 20)),
            Ty::Long => {
                if self.rng.chance(1, 4) {
                    format!("{}", self.rng.range(40000, 70000))
                } else {
                    format!("{}", self.rng.range(-9, 20))
                }
            }
            Ty::Sgl => {
                let k = self.rng.range(-20, 40);
                if k % 4 == 0 { format!("{}", k / 4) } else { format!("{}", (k as f64) / 4.0) }
            }
            Ty::Dbl => {
                let k = self.rng.range(-20, 40);
                if k % 8 == 0 { format!("{}", k / 8) } else { format!("{}#", (k as f64) / 8.0) }
            }
            Ty::Str => {
                let words = ["", "a", "Hi", "abc", "x y", "QB"];
                format!("\"{}\"", self.rng.pick(&words))
            }
        }
    }

    /// numeric expression whose static type is "around" t (mixed operands allowed)
    pub fn num_expr(&mut self, t: Ty, depth: u32) -> String {
        if depth == 0 || self.rng.chance(2, 5) {
            return if self.rng.chance(1, 2) { self.var(t) } else { self.lit(t) };
        }
        match self.rng.below(10) {
            0..=2 => format!("{} + {}", self.num_expr(t, depth - 1), self.num_expr(t, depth - 1)),
            3..=4 => format!("{} - {}", self.num_expr(t, depth - 1), self.num_expr(t, depth - 1)),
            5 => format!("{} * {}", self.num_atom(t), self.lit(Ty::Int)),
            6 => format!("({})", self.num_expr(t, depth - 1)),
            7 => format!("-{}", self.num_atom(t)),
            8 => {
                if self.opts.division {
                    self.feat("division");
                    format!("{} / {}", self.num_expr(t, depth - 1), self.rng.pick(&["2", "4", "8"]))
                } else {
                    format!("{} MOD {}", self.num_atom(Ty::Int), self.rng.pick(&["2", "3", "7"]))
                }
            }
            _ => {
                // mix in another numeric type
                let other = self.num_tys();
                format!("{} + {}", self.num_expr(t, depth - 1), self.num_atom(other))
            }
        }
    }

    fn num_atom(&mut self, t: Ty) -> String {
        if self.rng.chance(1, 2) {
            self.var(t)
        } else {
            let l = self.lit(t);
            if l.starts_with('-') { format!("({})", l) } else { l }
        }
    }

    pub fn str_expr(&mut self, depth: u32) -> String {
        if depth == 0 || self.rng.chance(1, 2) {
            return if self.rng.chance(1, 2) { self.var(Ty::Str) } else { self.lit(Ty::Str) };
        }
        format!("{} + {}", self.str_expr(depth - 1), self.str_expr(depth - 1))
    }

    /// a string expression mentioning at most one variable (so repeated execution grows a
    /// string linearly, never exponentially)
    pub fn str_expr_linear(&mut self) -> String {
        let mut parts = vec![];
        let n = self.rng.range(1, 3);
        let var_at = self.rng.range(0, 3);
        for k in 0..n {
            if k == var_at {
                parts.push(self.var(Ty::Str));
            } else {
                parts.push(self.lit(Ty::Str));
            }
        }
        parts.join(" + ")
    }

    pub fn expr(&mut self, t: Ty, depth: u32) -> String {
        if t == Ty::Str { self.str_expr(depth) } else { self.num_expr(t, depth) }
    }

    /// a condition (integer-valued)
    pub fn cond(&mut self, depth: u32) -> String {
        let rel = *self.rng.pick(&["<", "<=", "=", ">=", ">", "<>"]);
        let base = if self.opts.strings && self.rng.chance(1, 6) {
            format!("{} {} {}", self.str_expr(1), rel, self.str_expr(1))
        } else {
            let t = self.num_tys();
            format!("{} {} {}", self.num_expr(t, 1), rel, self.num_expr(t, 1))
        };
        if depth > 0 && self.rng.chance(1, 4) {
            let op = *self.rng.pick(&["AND", "OR"]);
            let other = self.cond(depth - 1);
            if self.rng.chance(1, 3) {
                format!("NOT ({}) {} {}", base, op, other)
            } else {
                format!("{} {} {}", base, op, other)
            }
        } else {
            base
        }
    }

    /// a reference to a label (or any identifier) in a random letter case: names are case-insensitive
    fn recase(&mut self, name: &str) -> String {
        match self.rng.below(4) {
            0 => name.to_ascii_uppercase(),
            1 => name.to_ascii_lowercase(),
            _ => name.to_owned(),
        }
    }

    /// a header operand with a known value that still runs a user FUNCTION between the parts of the header:
    /// `n + 0 * Fn(args)` (after a wave-9 seed: a user FUNCTION runs in the register frame of its caller, so what a FOR at the
    /// callee's top level leaves in the registers must not reach the construct whose header made the call).
    /// Nothing is drawn when the program has no FUNCTION: programs without procedures stay what they were
    fn header_operand(&mut self, n: String) -> String {
        let fns: Vec<usize> = self.subs.iter().enumerate().filter(|(_, s)| s.is_function).map(|(i, _)| i).collect();
        if fns.is_empty() || !self.rng.chance(1, 4) {
            return n;
        }
        let info = self.subs[*self.rng.pick(&fns)].clone();
        let args = self.call_args(&info);
        self.feat("call-in-header");
        let call = if args.is_empty() { info.name.clone() } else { format!("{}({})", info.name, args.join(", ")) };
        format!("{} + 0 * {}", n, call)
    }

    fn fresh_name(&mut self, prefix: &str) -> String {
        self.fresh += 1;
        format!("{}{}", prefix, self.fresh)
    }

    fn emit(&mut self, out: &mut Vec<String>, s: String) {
        out.push(s);
    }

    fn print_stmt(&mut self, out: &mut Vec<String>) {
        let n = self.rng.range(0, 3);
        let mut s = String::from("PRINT");
        for k in 0..n {
            let t = if self.opts.strings && self.rng.chance(1, 3) { Ty::Str } else { self.num_tys() };
            let e = self.expr(t, 1);
            s.push(' ');
            s.push_str(&e);
            if k + 1 < n || self.rng.chance(1, 5) {
                s.push_str(if self.rng.chance(1, 2) { ";" } else { "," });
            }
        }
        self.emit(out, s);
    }

    fn assign_stmt(&mut self, out: &mut Vec<String>) {
        let t = if self.opts.strings && self.rng.chance(1, 5) { Ty::Str } else { self.num_tys() };
        let mut v = self.var(t);
        let mut guard = 0;
        while self.counters_in_use.contains(&v) && guard < 5 {
            v = self.var(t);
            guard += 1;
        }
        if self.counters_in_use.contains(&v) {
            return self.print_stmt(out);
        }
        let src_t = if t == Ty::Str { Ty::Str } else { self.num_tys() };
        let e = if t == Ty::Str { self.str_expr_linear() } else { self.expr(src_t, 2) };
        self.emit(out, format!("{} = {}", v, e));
    }

    /// Labels inside blocks (CASE / CASE ELSE, THEN / ELSEIF / ELSE, WHILE / DO bodies, FOR bodies without STEP) with
    /// bounded jumps to them are generated when `Ext::block_labels` asks for them and forward GOTOs and jumps out of
    /// blocks are both enabled.
    fn block_labels(&self) -> bool {
        self.ext.block_labels && self.opts.goto_fwd && self.opts.jumps_out
    }

    fn host_feature(host: &str) -> &'static str {
        match host {
            "then" => "label-in-then",
            "elseif" => "label-in-elseif",
            "else" => "label-in-else",
            "case" => "label-in-case",
            "case-else" => "label-in-case-else",
            "while" => "label-in-while",
            "do" => "label-in-do",
            "for" => "label-in-for",
            _ => "label-in-block",
        }
    }

    /// A label for the block `host` and a bounded jump to it: (the lines of the label, the lines of the jump).
    /// The jump is `n = n + 1 : IF n < k THEN GOTO label` (a fresh counter: taken k - 1 times at most, so a backward
    /// jump terminates) or, in the main module with ON ERROR enabled, a failing statement under a handler of its own
    /// that ends in `RESUME label` (the handler of the main module is restored behind the label and behind the failing
    /// statement, so no other error ever resumes at the label); the jumping statement sits directly in the block or
    /// inside a nested construct of its own (SELECT CASE, FOR, WHILE, IF, FOR in SELECT CASE, SELECT CASE in FOR,
    /// SELECT CASE in SELECT CASE), which the jump leaves.
    fn label_and_jump(&mut self, host: &'static str, layout: &'static str) -> (Vec<String>, Vec<String>) {
        self.feat(Self::host_feature(host));
        self.feat(layout);
        let l = self.fresh_name("Bk");
        let id = self.fresh;
        let n = format!("Bn{}%", id);
        let lim = self.rng.range(2, 3);
        let r = self.recase(&l);
        let nested = self.sel_depth > 0 || self.for_depth > 0 || matches!(host, "case" | "case-else" | "for");
        let by_resume = self.opts.on_error && !self.in_sub && (self.ext.resume_label_in_for_select || !nested) && self.rng.chance(1, 3);
        let restore = match &self.main_handler {
            Some(h) => format!("ON ERROR GOTO {}", h),
            None => "ON ERROR GOTO 0".to_owned(),
        };
        let mut label_lines = vec![format!("{}:", l)];
        let core = if by_resume {
            self.feat("resume-label-in-block");
            self.feat(match host {
                "case" | "case-else" => "resume-label-in-select-block",
                "for" => "resume-label-in-for-body",
                _ => "resume-label-in-other-block",
            });
            let h = format!("Bh{}", id);
            self.handlers.push((h.clone(), vec!["PRINT \"ERR\"; ERR".to_owned(), format!("RESUME {}", r)]));
            label_lines.push(restore.clone());
            format!("IF {} < {} THEN Bv! = 1 / Bz%", n, lim)
        } else {
            format!("IF {} < {} THEN GOTO {}", n, lim, r)
        };
        let q = format!("Bq{}%", id);
        let ind = |v: Vec<String>| -> Vec<String> { v.into_iter().map(|x| format!("  {}", x)).collect() };
        let in_select = |rng: &mut Rng, v: Vec<String>| -> Vec<String> {
            let mut o = vec![];
            if rng.chance(1, 2) {
                o.push("SELECT CASE 1".to_owned());
                o.push("CASE 1".to_owned());
                o.extend(ind(v));
            } else {
                o.push("SELECT CASE 1".to_owned());
                o.push("CASE 2".to_owned());
                o.push("  PRINT \"no\"".to_owned());
                o.push("CASE ELSE".to_owned());
                o.extend(ind(v));
            }
            o.push("END SELECT".to_owned());
            o
        };
        let in_for = |v: Vec<String>, q: &str| -> Vec<String> {
            let mut o = vec![format!("FOR {} = 1 TO 2", q)];
            o.extend(ind(v));
            o.push("NEXT".to_owned());
            o
        };
        let wrapped = match self.rng.below(12) {
            0..=2 => vec![core],
            3 | 4 => {
                self.feat("jump-from-nested-select");
                in_select(self.rng, vec![core])
            }
            5 | 6 => {
                self.feat("jump-from-nested-for");
                in_for(vec![core], &q)
            }
            7 => {
                self.feat("jump-from-nested-while");
                let w = format!("Bw{}%", id);
                let mut o = vec![format!("{} = 0", w), format!("WHILE {} < 2", w), format!("  {} = {} + 1", w, w)];
                o.extend(ind(vec![core]));
                o.push("WEND".to_owned());
                o
            }
            8 => {
                self.feat("jump-from-nested-if");
                let mut o = vec![format!("IF {} > 0 THEN", n)];
                o.extend(ind(vec![core]));
                o.push("ELSE".to_owned());
                o.push("  PRINT \"no\"".to_owned());
                o.push("END IF".to_owned());
                o
            }
            9 => {
                self.feat("jump-from-for-in-select");
                let f = in_for(vec![core], &q);
                in_select(self.rng, f)
            }
            10 => {
                self.feat("jump-from-select-in-for");
                let f = in_select(self.rng, vec![core]);
                in_for(f, &q)
            }
            _ => {
                self.feat("jump-from-select-in-select");
                let f = in_select(self.rng, vec![core]);
                in_select(self.rng, f)
            }
        };
        let mut jump_lines = vec![format!("{} = {} + 1", n, n)];
        if by_resume {
            jump_lines.push(format!("ON ERROR GOTO Bh{}", id));
            jump_lines.extend(wrapped);
            jump_lines.push(restore);
        } else {
            jump_lines.extend(wrapped);
        }
        (label_lines, jump_lines)
    }

    /// the statements of a block, one entry per generated statement; now and then (see `block_labels`) with a label at
    /// one statement boundary and a bounded jump to it at another one of the same block (before it: the jump skips
    /// forward; behind it: the statements in between run again)
    fn block_parts(&mut self, host: &'static str, depth: u32) -> Vec<Vec<String>> {
        let with_label = self.block_labels() && self.step_for_depth == 0 && self.rng.chance(1, 24);
        if with_label {
            self.replay_depth += 1;
        }
        let mut parts = vec![];
        let n = self.rng.range(1, self.opts.max_block as i64);
        for _ in 0..n {
            let mut out = vec![];
            self.stmt(&mut out, depth);
            parts.push(out);
        }
        if with_label {
            self.replay_depth -= 1;
            let a = self.rng.below(parts.len() as u64 + 1) as usize;
            let b = self.rng.below(parts.len() as u64 + 1) as usize;
            let (label_lines, jump_lines) = self.label_and_jump(host, if b >= a { "jump-back-in-same-block" } else { "jump-forward-in-same-block" });
            if b >= a {
                parts.insert(b, jump_lines);
                parts.insert(a, label_lines);
            } else {
                parts.insert(a, label_lines);
                parts.insert(b, jump_lines);
            }
        }
        parts
    }

    fn block_in(&mut self, host: &'static str, depth: u32) -> Vec<String> {
        self.block_parts(host, depth).concat()
    }

    /// a label in one block of an IF / SELECT CASE statement and a bounded jump to it from another block of the same
    /// statement
    fn sibling_jump(&mut self, blocks: &mut [Vec<Vec<String>>], hosts: &[&'static str]) {
        let i = self.rng.below(blocks.len() as u64) as usize;
        let mut j = self.rng.below(blocks.len() as u64 - 1) as usize;
        if j >= i {
            j += 1;
        }
        let (label_lines, jump_lines) = self.label_and_jump(hosts[i], "jump-from-sibling-block");
        let a = self.rng.below(blocks[i].len() as u64 + 1) as usize;
        blocks[i].insert(a, label_lines);
        let b = self.rng.below(blocks[j].len() as u64 + 1) as usize;
        blocks[j].insert(b, jump_lines);
    }

    fn indent(lines: Vec<String>) -> Vec<String> {
        lines.into_iter().map(|l| format!("  {}", l)).collect()
    }

    fn flush_labels(&mut self, out: &mut Vec<String>) {
        for l in std::mem::take(&mut self.pending_labels) {
            out.push(format!("{}:", l));
        }
    }

    pub fn stmt(&mut self, out: &mut Vec<String>, depth: u32) {
        if self.opts.jumps_out && depth < self.opts.max_depth && self.rng.chance(1, 14) {
            // leave the enclosing block(s) / loop(s) by a jump
            let c = self.cond(0);
            if self.in_sub && (self.loop_depth > 0 || self.sel_depth > 0) && self.rng.chance(1, 2) {
                self.feat(if self.sel_depth > 0 { "exit-sub-in-select" } else { "exit-sub-in-loop" });
                out.push(format!("IF {} THEN EXIT {}", c, self.cur_sub_kw));
            } else if !self.in_sub || depth < 1 {
                self.feat(if self.loop_depth > 0 { "goto-out-of-loop" } else { "goto-out-of-block" });
                let l = self.fresh_name("Jo");
                let r = self.recase(&l);
                out.push(format!("IF {} THEN GOTO {}", c, r));
                self.pending_labels.push(l);
            }
            return;
        }
        let choice = self.rng.below(if depth > 0 { 20 } else { 8 });
        match choice {
            0..=2 => self.print_stmt(out),
            3..=5 => self.assign_stmt(out),
            6 => {
                if self.opts.data && !self.in_sub && self.loop_depth == 0 && self.replay_depth == 0 {
                    self.read_stmt(out)
                } else {
                    self.print_stmt(out)
                }
            }
            7 => {
                if self.opts.gosub && !self.in_sub && self.gosubs.len() < 3 {
                    self.feat("gosub");
                    let name = self.fresh_name("Gs");
                    let saved = std::mem::take(&mut self.counters_in_use);
                    // the subroutine body must not touch counters of loops that may be active: use prints only
                    let mut body = vec![];
                    self.print_stmt(&mut body);
                    self.counters_in_use = saved;
                    self.gosubs.push((name.clone(), body));
                    let r = self.recase(&name);
                    self.emit(out, format!("GOSUB {}", r));
                } else if !self.subs.is_empty() {
                    self.call_stmt(out)
                } else {
                    self.print_stmt(out)
                }
            }
            8..=10 => {
                self.feat("if");
                // now and then a label in one block and a bounded jump to it from another block of the same IF
                let sib = self.block_labels() && self.step_for_depth == 0 && self.rng.chance(1, 24);
                let c = self.cond(1);
                let mut heads = vec![format!("IF {} THEN", c)];
                let mut hosts: Vec<&'static str> = vec!["then"];
                let mut blocks = vec![self.block_parts("then", depth - 1)];
                let n_elseif = self.rng.range(0, 2);
                for _ in 0..n_elseif {
                    let c = self.cond(0);
                    heads.push(format!("ELSEIF {} THEN", c));
                    hosts.push("elseif");
                    blocks.push(self.block_parts("elseif", depth - 1));
                }
                if self.rng.chance(1, 2) || (sib && blocks.len() < 2) {
                    heads.push("ELSE".into());
                    hosts.push("else");
                    blocks.push(self.block_parts("else", depth - 1));
                }
                if sib {
                    self.sibling_jump(&mut blocks, &hosts);
                }
                for (h, b) in heads.into_iter().zip(blocks.into_iter()) {
                    self.emit(out, h);
                    out.extend(Self::indent(b.concat()));
                }
                self.emit(out, "END IF".into());
            }
            11..=13 => self.for_stmt(out, depth),
            14 => {
                self.feat("while");
                let c = self.fresh_name("W");
                let c = format!("{}%", c);
                let n = self.rng.range(0, 3);
                self.emit(out, format!("{} = 0", c));
                let n = self.header_operand(n.to_string());
                self.emit(out, format!("WHILE {} < {}", c, n));
                self.emit(out, format!("  {} = {} + 1", c, c));
                self.loop_depth += 1;
                let b = self.block_in("while", depth - 1);
                self.loop_depth -= 1;
                out.extend(Self::indent(b));
                self.emit(out, "WEND".into());
            }
            15..=16 => {
                self.feat("do");
                let c = self.fresh_name("Q");
                let top = self.rng.chance(1, 2);
                let until = self.rng.chance(1, 2);
                // a quarter of the UNTIL loops test a plain number (true = not zero), not a comparison
                let value_cond = until && self.rng.chance(1, 4);
                // ... and a third of those a floating point number that leaves zero by a tiny amount (2^-19):
                // truth is "not exactly zero", for UNTIL as for WHILE and IF
                let tiny = value_cond && self.opts.floats && self.rng.chance(1, 3);
                let c = if tiny { format!("{}{}", c, self.rng.pick(&["!", "#"])) } else { format!("{}%", c) };
                let n = self.rng.range(0, 3);
                self.emit(out, format!("{} = 0", c));
                let cond = if value_cond {
                    self.feat("until-value");
                    format!("UNTIL {}", c)
                } else if until {
                    format!("UNTIL {} >= {}", c, self.header_operand(n.to_string()))
                } else {
                    format!("WHILE {} < {}", c, self.header_operand(n.to_string()))
                };
                if top {
                    self.emit(out, format!("DO {}", cond));
                } else {
                    self.emit(out, "DO".into());
                }
                if tiny {
                    self.feat("until-tiny-float");
                    self.emit(out, format!("  {} = {} + .0000019073486328125#", c, c));
                } else {
                    let inc = if value_cond { *self.rng.pick(&[1, 2, 5]) } else { 1 };
                    self.emit(out, format!("  {} = {} + {}", c, c, inc));
                }
                self.loop_depth += 1;
                let b = self.block_in("do", depth - 1);
                self.loop_depth -= 1;
                out.extend(Self::indent(b));
                if top {
                    self.emit(out, "LOOP".into());
                } else {
                    self.emit(out, format!("LOOP {}", cond));
                }
            }
            17 => {
                if self.opts.select {
                    self.select_stmt(out, depth)
                } else {
                    self.print_stmt(out)
                }
            }
            18 => {
                if !self.subs.is_empty() {
                    self.call_stmt(out)
                } else {
                    self.assign_stmt(out)
                }
            }
            _ => {
                if self.opts.goto_fwd && depth == self.opts.max_depth && self.counters_in_use.is_empty() {
                    self.feat("goto");
                    let l = self.fresh_name("Lb");
                    let r = self.recase(&l);
                    self.emit(out, format!("GOTO {}", r));
                    self.print_stmt(out);
                    self.emit(out, format!("{}:", l));
                } else {
                    self.print_stmt(out)
                }
            }
        }
    }

    fn for_stmt(&mut self, out: &mut Vec<String>, depth: u32) {
        self.feat("for");
        let t = if self.opts.floats && self.rng.chance(1, 4) { *self.rng.pick(&[Ty::Sgl, Ty::Long]) } else { Ty::Int };
        let mut v = self.var(t);
        let mut guard = 0;
        while self.counters_in_use.contains(&v) && guard < 6 {
            v = self.var(t);
            guard += 1;
        }
        if self.counters_in_use.contains(&v) {
            let f = self.fresh_name("C");
            v = format!("{}{}", f, suffix(t));
        }
        let lo = self.rng.range(-2, 3);
        let len = self.rng.range(-1, 3);
        let (from, to, step) = match self.rng.below(6) {
            0 | 1 => (lo, lo + len, None),
            2 => (lo, lo + len, Some("1".to_owned())),
            3 => (lo + len, lo, Some("-1".to_owned())),
            4 => (lo, lo + 2 * len, Some("2".to_owned())),
            _ => {
                // run-time computed step, of any numeric type
                let st = if self.rng.chance(1, 2) { Ty::Int } else { self.num_tys() };
                let sv = self.var(st);
                if self.counters_in_use.contains(&sv) || sv == v {
                    (lo, lo + len, Some("1".to_owned()))
                } else {
                    let neg = self.rng.chance(1, 2);
                    self.emit(out, format!("{} = {}", sv, if neg { -1 } else { 1 }));
                    self.feat("for-computed-step");
                    if neg { (lo + len, lo, Some(sv)) } else { (lo, lo + len, Some(sv)) }
                }
            }
        };
        let zero_step = self.opts.faults && self.rng.chance(1, 30);
        let step_s = if zero_step {
            " STEP 0".to_owned()
        } else {
            match &step {
                Some(s) => {
                    self.feat("for-step");
                    format!(" STEP {}", s)
                }
                None => String::new(),
            }
        };
        // the bounds are converted to the counter's type: now and then a bound of a wider type whose conversion
        // matters (a fraction that rounds, up or down or at the tie) or, with faults on, fails (out of the counter's range)
        let mut from_s = from.to_string();
        let mut to_s = to.to_string();
        if self.opts.floats && t != Ty::Sgl && self.rng.chance(1, 4) {
            self.feat("for-fractional-bound");
            let frac = *self.rng.pick(&["4", "5", "6", "25", "75"]);
            if self.rng.chance(2, 3) {
                to_s = format!("{}.{}", to, frac);
            } else {
                from_s = format!("{}.{}", from, frac);
            }
        } else if self.opts.faults && t == Ty::Int && self.rng.chance(1, 40) {
            self.feat("for-bound-out-of-range");
            to_s = "40000".to_owned();
            from_s = "39998".to_owned();
        }
        // a user FUNCTION call in the lower bound, the upper bound, the step
        let from_s = self.header_operand(from_s);
        let to_s = self.header_operand(to_s);
        let step_s = if step_s.is_empty() { step_s } else { self.header_operand(step_s) };
        self.emit(out, format!("FOR {} = {} TO {}{}", v, from_s, to_s, step_s));
        self.counters_in_use.push(v.clone());
        let step_is_var = step.as_ref().map(|s| s.chars().next().map(|c| c.is_ascii_alphabetic()).unwrap_or(false)).unwrap_or(false);
        if let Some(s) = &step {
            if step_is_var {
                self.counters_in_use.push(s.clone());
            }
        }
        self.loop_depth += 1;
        let has_step = step.is_some() || zero_step;
        if has_step {
            self.step_for_depth += 1;
        }
        self.for_depth += 1;
        let b = self.block_in("for", depth - 1);
        self.for_depth -= 1;
        if has_step {
            self.step_for_depth -= 1;
        }
        self.loop_depth -= 1;
        out.extend(Self::indent(b));
        if step.is_some() && step_is_var {
            self.counters_in_use.pop();
        }
        self.counters_in_use.pop();
        if self.rng.chance(1, 3) {
            self.emit(out, format!("NEXT {}", v));
        } else {
            self.emit(out, "NEXT".into());
        }
    }

    fn select_stmt(&mut self, out: &mut Vec<String>, depth: u32) {
        self.feat("select");
        let is_str = self.opts.strings && self.rng.chance(1, 5);
        let t = if is_str { Ty::Str } else { Ty::Int };
        let e = self.expr(t, 1);
        self.emit(out, format!("SELECT CASE {}", e));
        // now and then a label in one block and a bounded jump to it from another block of the same SELECT CASE
        let sib = self.block_labels() && self.step_for_depth == 0 && self.rng.chance(1, 5);
        let mut heads: Vec<String> = vec![];
        let mut hosts: Vec<&'static str> = vec![];
        let mut blocks: Vec<Vec<Vec<String>>> = vec![];
        let n = self.rng.range(0, 3).max(if sib { 1 } else { 0 });
        for _ in 0..n {
            let m = self.rng.range(1, 2);
            let mut items = vec![];
            for _ in 0..m {
                let item = match self.rng.below(3) {
                    0 => self.lit(t),
                    1 => {
                        let rel = *self.rng.pick(&["<", "<=", "=", ">=", ">", "<>"]);
                        format!("IS {} {}", rel, self.lit(t))
                    }
                    _ => {
                        if is_str {
                            "\"a\" TO \"h\"".to_owned()
                        } else {
                            let a = self.rng.range(-5, 10);
                            format!("{} TO {}", a, a + self.rng.range(0, 6))
                        }
                    }
                };
                items.push(item);
            }
            heads.push(format!("CASE {}", items.join(", ")));
            hosts.push("case");
            self.sel_depth += 1;
            let b = self.block_parts("case", depth - 1);
            self.sel_depth -= 1;
            blocks.push(b);
        }
        if self.rng.chance(1, 2) || (sib && blocks.len() < 2) {
            heads.push("CASE ELSE".into());
            hosts.push("case-else");
            self.sel_depth += 1;
            let b = self.block_parts("case-else", depth - 1);
            self.sel_depth -= 1;
            blocks.push(b);
        }
        if sib {
            self.sibling_jump(&mut blocks, &hosts);
        }
        for (h, b) in heads.into_iter().zip(blocks.into_iter()) {
            self.emit(out, h);
            out.extend(Self::indent(b.concat()));
        }
        self.emit(out, "END SELECT".into());
    }

    fn read_stmt(&mut self, out: &mut Vec<String>) {
        self.feat("data-read");
        // one READ statement with 1..3 variables; with faults on, a DATA item may be missing or of the wrong kind
        let n = self.rng.range(1, 3);
        let mut vars = vec![];
        for _ in 0..n {
            let t = if self.opts.strings && self.rng.chance(1, 4) { Ty::Str } else { self.num_tys() };
            let v = self.var(t);
            if self.counters_in_use.contains(&v) || vars.contains(&v) {
                continue;
            }
            let mut item = self.lit(t).trim_end_matches(['!', '#']).to_owned();
            let mut push = true;
            if self.opts.faults && self.rng.chance(1, 10) {
                self.feat("read-fault");
                match self.rng.below(3) {
                    0 => push = false,                          // item missing: READ past DATA
                    1 => item = "\"oops\"".to_owned(),            // a string for a numeric variable (or fine for a string)
                    _ => item = "40000".to_owned(),             // overflows an INTEGER
                }
            }
            if push {
                self.data_items.push((t, item));
            }
            self.data_read += 1;
            vars.push(v);
        }
        if vars.is_empty() {
            return self.print_stmt(out);
        }
        self.emit(out, format!("READ {}", vars.join(", ")));
        self.emit(out, format!("PRINT {}", vars.join("; ")));
    }

    fn call_stmt(&mut self, out: &mut Vec<String>) {
        let idx = self.rng.below(self.subs.len() as u64) as usize;
        let info = self.subs[idx].clone();
        let args = self.call_args(&info);
        self.call_with(out, info, args)
    }

    fn call_args(&mut self, info: &SubInfo) -> Vec<String> {
        let mut args = vec![];
        for p in &info.params {
            let a = match self.rng.below(4) {
                0 => {
                    let v = self.var(*p);
                    if self.counters_in_use.contains(&v) { format!("({})", v) } else { v }
                }
                1 => self.lit(*p),
                2 => format!("({})", self.var(*p)),
                _ => {
                    let other = if *p == Ty::Str { Ty::Str } else { self.num_tys() };
                    let e = self.expr(other, 1);
                    // a bare variable of another type would be a by-ref type mismatch: wrap
                    format!("({})", e)
                }
            };
            args.push(a);
        }
        args
    }

    fn call_with(&mut self, out: &mut Vec<String>, info: SubInfo, args: Vec<String>) {
        if info.is_function {
            self.feat("function-call");
            let v = self.var(info.ret);
            let call = if args.is_empty() { info.name.clone() } else { format!("{}({})", info.name, args.join(", ")) };
            if self.counters_in_use.contains(&v) {
                self.emit(out, format!("PRINT {}", call));
            } else {
                self.emit(out, format!("{} = {}", v, call));
            }
        } else {
            self.feat("sub-call");
            // both spellings of a SUB call: `Name a, b` and `CALL Name(a, b)`
            let call_kw = self.rng.chance(1, 4);
            if call_kw {
                self.feat("sub-call-with-CALL");
            }
            if args.is_empty() {
                self.emit(out, if call_kw { format!("CALL {}", info.name) } else { info.name.clone() });
            } else if call_kw {
                self.emit(out, format!("CALL {}({})", info.name, args.join(", ")));
            } else {
                self.emit(out, format!("{} {}", info.name, args.join(", ")));
            }
        }
    }

    /// Generates a whole program.
    pub fn program(&mut self) -> String {
        // subprogram signatures first (so that calls can be generated anywhere)
        let n_subs = if self.opts.subs { self.rng.range(0, 3) } else { 0 };
        for k in 0..n_subs {
            let is_function = self.rng.chance(1, 2);
            let n_params = self.rng.range(0, 2);
            let mut params = vec![];
            for _ in 0..n_params {
                let t = if self.opts.strings && self.rng.chance(1, 5) { Ty::Str } else { self.num_tys() };
                params.push(t);
            }
            let ret = self.num_tys();
            self.subs.push(SubInfo {
                name: if is_function { format!("Fn{}{}", k, suffix(ret)) } else { format!("Pr{}", k) },
                is_function,
                params,
                is_static: self.rng.chance(1, 4),
                ret,
            });
        }
        let mut main = vec![];
        if self.opts.on_error && self.rng.chance(2, 3) {
            self.feat("on-error");
            let h = self.fresh_name("Hd");
            let resume = match self.rng.below(3) {
                0 => "RESUME NEXT",
                1 => "RESUME NEXT",
                _ => "RESUME NEXT",
            };
            self.handlers.push((h.clone(), vec!["PRINT \"ERR\"; ERR".to_owned(), resume.to_owned()]));
            let r = self.recase(&h);
            self.main_handler = Some(h.clone());
            main.push(format!("ON ERROR GOTO {}", r));
        }
        let n = self.rng.range(2, self.opts.top_stmts as i64);
        for _ in 0..n {
            let d = self.opts.max_depth;
            self.stmt(&mut main, d);
            self.flush_labels(&mut main);
            if self.opts.faults && self.rng.chance(1, 12) {
                self.feat("fault");
                let f = match self.rng.below(4) {
                    0 => "X! = 1 / 0".to_owned(),
                    1 => "I% = 32767 : I% = I% * 2 : I% = 0".to_owned(),
                    2 => "READ K%".to_owned(),
                    _ => "L& = 2147483647 : L& = L& + L& : L& = 0".to_owned(),
                };
                if f.starts_with("READ") {
                    self.data_read += 1;
                }
                main.push(f);
            }
        }
        main.push("END".to_owned());
        let gosubs = std::mem::take(&mut self.gosubs);
        for (name, body) in gosubs {
            main.push(format!("{}:", name));
            main.extend(body);
            main.push("RETURN".to_owned());
        }
        let handlers = std::mem::take(&mut self.handlers);
        for (name, body) in handlers {
            main.push(format!("{}:", name));
            main.extend(body);
        }
        if !self.data_items.is_empty() {
            let items: Vec<String> = self.data_items.iter().map(|(_, s)| s.clone()).collect();
            // DATA may be anywhere in the main module; put it at a random place among top-level lines is unsafe
            // (inside blocks); keep it first or last.
            if self.rng.chance(1, 2) {
                main.insert(0, format!("DATA {}", items.join(", ")));
            } else {
                main.push(format!("DATA {}", items.join(", ")));
            }
        }
        // subprogram bodies
        let subs = self.subs.clone();
        let mut decls = vec![];
        let mut bodies = vec![];
        for (k, info) in subs.iter().enumerate() {
            let params: Vec<String> = info
                .params
                .iter()
                .enumerate()
                .map(|(i, t)| format!("P{}{}", i, suffix(*t)))
                .collect();
            let plist = if params.is_empty() { String::new() } else { format!(" ({})", params.join(", ")) };
            let kw = if info.is_function { "FUNCTION" } else { "SUB" };
            decls.push(format!("DECLARE {} {}{}", kw, info.name, plist));
            bodies.push(format!("{} {}{}{}", kw, info.name, plist, if info.is_static { " STATIC" } else { "" }));
            self.in_sub = true;
            // only call subprograms with a smaller index (no unbounded recursion)
            let saved_subs = std::mem::replace(&mut self.subs, subs[..k].to_vec());
            let mut body = vec![];
            if info.is_static {
                self.feat("static");
                body.push("N% = N% + 1".to_owned());
                body.push("PRINT \"calls\"; N%".to_owned());
            }
            for (i, t) in info.params.iter().enumerate() {
                if self.rng.chance(1, 2) {
                    let e = if *t == Ty::Str { self.str_expr_linear() } else { self.expr(*t, 1) };
                    body.push(format!("P{}{} = {}", i, suffix(*t), e));
                }
            }
            let n = self.rng.range(1, 3);
            self.cur_sub_kw = kw;
            for _ in 0..n {
                self.stmt(&mut body, 1);
                self.flush_labels(&mut body);
            }
            // a GOSUB routine local to the procedure, called from inside a loop, that returns or leaves the procedure
            // directly (EXIT SUB in a GOSUB routine): the caller's loops must not notice
            let local_gosub = if self.opts.gosub && self.rng.chance(1, 3) {
                self.feat("gosub-in-sub");
                let l = self.fresh_name("Ls");
                let c = format!("{}%", self.fresh_name("G"));
                if self.rng.chance(2, 3) {
                    body.push(format!("FOR {} = 1 TO 2", c));
                    body.push(format!("  GOSUB {}", l));
                    body.push("NEXT".to_owned());
                } else {
                    body.push(format!("GOSUB {}", l));
                }
                Some(l)
            } else {
                None
            };
            if info.is_function && self.rng.chance(4, 5) {
                let e = self.num_expr(info.ret, 1);
                body.push(format!("{} = {}", info.name, e));
            }
            if let Some(l) = local_gosub {
                body.push(format!("EXIT {}", kw));
                body.push(format!("{}:", l));
                body.push("PRINT \"gs\"".to_owned());
                if self.rng.chance(1, 3) {
                    self.feat("exit-sub-in-gosub");
                    body.push(format!("EXIT {}", kw));
                } else {
                    body.push("RETURN".to_owned());
                }
            }
            self.subs = saved_subs;
            self.in_sub = false;
            bodies.extend(Self::indent(body));
            bodies.push(format!("END {}", kw));
        }
        let mut all = decls;
        all.extend(main);
        all.extend(bodies);
        self.lines = if self.opts.relayout { self.relayout(all) } else { all };
        self.lines.join("\n") + "\n"
    }

    /// Varies the layout without changing the statement structure: extra indentation (so that statements start
    /// at many different columns) and `:`-joining of consecutive simple statements.
    fn relayout(&mut self, lines: Vec<String>) -> Vec<String> {
        fn simple(l: &str) -> bool {
            let t = l.trim_start();
            let first = t.split(' ').next().unwrap_or("");
            let is_assign = t.contains(" = ") && !t.starts_with("IF ") && !t.starts_with("FOR ") && !t.starts_with("CASE") && !t.starts_with("CONST");
            (first == "PRINT" || is_assign || first == "READ" || first == "GOSUB") && !t.ends_with(':') && !t.contains(" THEN")
        }
        let mut out: Vec<String> = vec![];
        let mut i = 0;
        while i < lines.len() {
            let extra = if self.rng.chance(1, 3) { self.rng.below(14) as usize } else { 0 };
            let mut line = format!("{}{}", " ".repeat(extra), lines[i]);
            while i + 1 < lines.len() && simple(&lines[i]) && simple(&lines[i + 1]) && self.rng.chance(1, 5) {
                line = format!("{} : {}", line, lines[i + 1].trim_start());
                i += 1;
            }
            out.push(line);
            i += 1;
        }
        out
    }
}

pub fn generate(rng: &mut Rng, opts: &Opts) -> (String, Vec<&'static str>) {
    generate_ext(rng, opts, &Ext::default())
}

pub fn generate_ext(rng: &mut Rng, opts: &Opts, ext: &Ext) -> (String, Vec<&'static str>) {
    let mut g = ProgGen::new(rng, opts.clone());
    g.ext = ext.clone();
    let text = g.program();
    (text, g.features.clone())
}

/// A "position grid": many one-line constructs of the same few kinds, each starting at its own random column on
/// its own row, over enough rows (two- and three-digit row numbers) and columns (one- and two-digit) that the
/// positions of same-kind constructs differ in every way a position can differ.  Whatever the code generator derives
/// from a statement's position (its generated label names above all) must keep these apart.
/// All programs lie in the core fragment; the final value depends on every row having run exactly once.
pub fn grid(rng: &mut Rng) -> String {
    let rows = 30 + rng.below(90) as usize;
    let max_col = [12u64, 25, 45][rng.below(3) as usize];
    // one dominant kind per program makes same-kind pairs frequent
    let dominant = rng.below(4);
    let mut out = vec!["V% = 0".to_owned()];
    for r in 0..rows {
        let indent = " ".repeat(rng.below(max_col) as usize);
        let kind = if rng.chance(3, 4) { dominant } else { rng.below(4) };
        let k = rng.below(3);
        let line = match kind {
            0 => format!("IF V% MOD 3 = {} THEN V% = V% + 1 ELSE V% = V% + 2", k),
            1 => format!("WHILE V% MOD 5 = {}: V% = V% + 1: WEND", k),
            2 => format!("DO WHILE V% MOD 4 = {}: V% = V% + 1: LOOP", k),
            _ => format!("FOR I% = 1 TO {}: V% = V% + I%: NEXT", k + 1),
        };
        // now and then a second construct on the same row
        if rng.chance(1, 6) {
            out.push(format!("{}{}: IF V% > 30000 THEN V% = 0", indent, line));
        } else {
            out.push(format!("{}{}", indent, line));
        }
        if r % 8 == 7 {
            out.push(format!("{}PRINT V%", " ".repeat(rng.below(6) as usize)));
            out.push(format!("{}IF V% > 20000 THEN V% = 0", " ".repeat(rng.below(max_col) as usize)));
        }
    }
    out.push("PRINT V%".to_owned());
    out.join("\n") + "\n"
}

/// Family `arg-faults` (after a wave-9 seed: the clean-up after a handled error dropped the argument-collecting
/// states before the failed built-in's own context, so a built-in function failing INSIDE an argument list left the
/// enclosing call's argument state on the context stack for good; a procedure's return then popped the wrong state).
///
/// One run-time fault raised INSIDE an argument list: a failing built-in function (`CHR$(300)`, `MID$("abc", 0)`,
/// `SPACE$(-1)`, `STRING$(-1, 65)`, `LEFT$("abc", -1)`, `VAL` of 401 digits, `INSTR(0, ..)`, `LBOUND(A%, 9)`, a built-in
/// failing inside a built-in), a subscript out of range or a division by zero — as an argument of a user SUB (both call
/// spellings, first and second argument), of a user FUNCTION (also with an operand pending), of another built-in (one
/// and two deep), as a PRINT item, as an array subscript (both sides of an assignment), as a DIM bound, and as the
/// argument of a user FUNCTION whose result is the argument of a built-in that is the argument of a SUB;
/// at the module level, in a FOR body (the error happens in every round), one procedure deep (SUB; SUB with FOR;
/// FUNCTION called with an operand pending) and two deep — each followed by more calls, by the procedures' normal
/// returns and, after the cause has been repaired, by the same statement once more;
/// under ON ERROR RESUME NEXT, a handler ending in RESUME NEXT, a handler that repairs the cause and ends in RESUME, a
/// handler ending in RESUME label (back to the module level from any depth), and no handler at all (the run ends with
/// the BASIC error).  Whatever is left on the context / argument / value stacks is popped by the wrong party later.
/// Returns (host/fault/context/mode, program); every program is accepted and terminates.
pub fn arg_fault_programs() -> Vec<(String, String)> {
    let init = "Q% = 300 : M% = 0 : N1% = -1 : Z% = 0 : Z9% = 9 : T$ = \"1\" + STRING$(400, \"0\")";
    let repair = "Q% = 65 : M% = 1 : N1% = 1 : Z% = 1 : Z9% = 1 : T$ = \"1\"";
    // (name, failing expression): string-valued ...
    let str_faults: [(&str, &str); 5] = [
        ("chr", "CHR$(Q%)"),
        ("mid", "MID$(\"abc\", M%)"),
        ("space", "SPACE$(N1%)"),
        ("string", "STRING$(N1%, 65)"),
        ("left", "LEFT$(\"abc\", N1%)"),
    ];
    // ... and numeric (after the repair every one of them is 1 or 2)
    let num_faults: [(&str, &str); 6] = [
        ("val-overflow", "VAL(T$)"),
        ("instr", "INSTR(M%, \"abc\", \"b\")"),
        ("lbound", "LBOUND(A%, Z9%)"),
        ("len-of-chr", "LEN(CHR$(Q%))"),
        ("subscript", "A%(Z9%)"),
        ("div0", "(1 / Z%)"),
    ];
    // hosts: {E} = the failing expression, {B} = a fresh array name
    let str_hosts: [(&str, &str); 12] = [
        ("sub-arg", "Ps {E}"),
        ("sub-arg-second", "Ps2 S$, {E}"),
        ("call-sub-arg", "CALL Ps({E})"),
        ("function-arg", "V% = 100 + Gs%({E})"),
        ("function-arg-in-print", "PRINT 100 + Gs%({E}); \"t\""),
        ("builtin-arg", "V% = 100 + LEN({E})"),
        ("builtin-arg-deep", "S$ = UCASE$(LEFT$({E}, 1))"),
        ("print-item", "PRINT \"x\"; {E}; \"y\""),
        ("lhs-subscript", "A%(LEN({E})) = 1"),
        ("rhs-subscript", "V% = 100 + A%(LEN({E}))"),
        ("dim-bound", "DIM {B}%(LEN({E}))"),
        ("sub-arg-builtin-function", "Ps STR$(Gs%({E}))"),
    ];
    let num_hosts: [(&str, &str); 12] = [
        ("sub-arg", "Pn {E}"),
        ("sub-arg-second", "Pn2 V%, {E}"),
        ("call-sub-arg", "CALL Pn({E})"),
        ("function-arg", "V% = 100 + Gn%({E})"),
        ("function-arg-in-print", "PRINT 100 + Gn%({E}); \"t\""),
        ("builtin-arg-deep", "V% = 100 + LEN(STR$({E}))"),
        ("builtin-count-arg", "S$ = STRING$({E}, 65)"),
        ("print-item", "PRINT \"x\"; {E}; \"y\""),
        ("lhs-subscript", "A%({E}) = 1"),
        ("rhs-subscript", "V% = 100 + A%({E})"),
        ("dim-bound", "DIM {B}%(1 TO {E} + 1)"),
        ("sub-arg-function", "Pn Gn%({E})"),
    ];
    let contexts = ["top", "in-for", "in-sub", "in-sub-for", "in-function-operand-pending", "in-sub-in-sub"];
    let modes = ["resume-next-mode", "handler-resume-next", "handler-repair-resume", "handler-resume-label", "no-handler"];
    let mut pairs: Vec<(String, String, String)> = vec![]; // (host name, fault name, statement)
    for (hn, h) in str_hosts.iter() {
        for (fn_, f) in str_faults.iter() {
            pairs.push(((*hn).to_owned() + "$", (*fn_).to_owned(), h.replace("{E}", f)));
        }
    }
    for (hn, h) in num_hosts.iter() {
        for (fn_, f) in num_faults.iter() {
            pairs.push(((*hn).to_owned(), (*fn_).to_owned(), h.replace("{E}", f)));
        }
    }
    let ind = |v: Vec<String>| -> Vec<String> { v.into_iter().map(|l| format!("  {}", l)).collect() };
    let mut out = vec![];
    for (hn, fname, stmt) in pairs.iter() {
        for ctx in contexts.iter() {
            for mode in modes.iter() {
                let first = stmt.replace("{B}", "B1");
                let again = stmt.replace("{B}", "B2");
                let in_for = |v: Vec<String>, c: &str| -> Vec<String> {
                    let mut r = vec![format!("FOR {}% = 1 TO 2", c)];
                    r.extend(ind(v));
                    r.push(format!("  PRINT \"after, in for\"; {}%", c));
                    r.push("NEXT".to_owned());
                    r
                };
                let mut p: Vec<String> = vec![
                    "DECLARE SUB Ps (X$)".to_owned(),
                    "DECLARE SUB Ps2 (X$, Y$)".to_owned(),
                    "DECLARE SUB Pn (N%)".to_owned(),
                    "DECLARE SUB Pn2 (K%, N%)".to_owned(),
                    "DECLARE FUNCTION Gs% (X$)".to_owned(),
                    "DECLARE FUNCTION Gn% (N%)".to_owned(),
                    "DECLARE FUNCTION F% (N%)".to_owned(),
                    "DECLARE SUB Outer1 ()".to_owned(),
                    "DECLARE SUB Outer2 ()".to_owned(),
                    "DIM SHARED Q%, M%, N1%, Z%, Z9%, C%, V%, T$, S$".to_owned(),
                    "DIM SHARED A%(1 TO 3)".to_owned(),
                    "A%(1) = 1 : A%(2) = 2 : A%(3) = 3".to_owned(),
                    init.to_owned(),
                ];
                match *mode {
                    "resume-next-mode" => p.push("ON ERROR RESUME NEXT".to_owned()),
                    "no-handler" => {}
                    _ => p.push("ON ERROR GOTO Hh".to_owned()),
                }
                let mut o1: Vec<String> = vec!["PRINT \"in O1\"".to_owned()];
                let mut o2: Vec<String> = vec!["PRINT \"in O2\"".to_owned()];
                let mut fbody: Vec<String> = vec!["PRINT \"in F\"".to_owned()];
                let after_in_proc = |name: &str| -> Vec<String> {
                    vec![format!("PRINT \"after, in {}\"", name), "Pn 1".to_owned(), "V% = Gn%(2) + LEN(STR$(C%))".to_owned()]
                };
                match *ctx {
                    "top" => p.push(first.clone()),
                    "in-for" => p.extend(in_for(vec![first.clone()], "O")),
                    "in-sub" => {
                        p.push("Outer1".to_owned());
                        o1.push(first.clone());
                        o1.extend(after_in_proc("O1"));
                    }
                    "in-sub-for" => {
                        p.push("Outer1".to_owned());
                        o1.extend(in_for(vec![first.clone()], "R"));
                        o1.extend(after_in_proc("O1"));
                    }
                    "in-function-operand-pending" => {
                        p.push("PRINT 100 + F%(2)".to_owned());
                        fbody.push(first.clone());
                        fbody.extend(after_in_proc("F"));
                    }
                    _ => {
                        p.push("Outer2".to_owned());
                        o2.push("Outer1".to_owned());
                        o2.extend(after_in_proc("O2"));
                        o1.push(first.clone());
                        o1.extend(after_in_proc("O1"));
                    }
                }
                // more calls after the context, then the repaired statement once more
                p.push("PRINT \"back\"; C%".to_owned());
                p.push("Pn 2".to_owned());
                p.push("V% = Gn%(3) + LEN(STR$(V%))".to_owned());
                p.push("Outer2".to_owned());
                p.push("After:".to_owned());
                p.push(repair.to_owned());
                p.push(again);
                p.push("PRINT \"end\"; C%; V%".to_owned());
                p.push("END".to_owned());
                match *mode {
                    "handler-resume-next" => {
                        p.push("Hh:".to_owned());
                        p.push("PRINT \"h\"; ERR".to_owned());
                        p.push("RESUME NEXT".to_owned());
                    }
                    "handler-repair-resume" => {
                        p.push("Hh:".to_owned());
                        p.push(repair.to_owned());
                        p.push("RESUME".to_owned());
                    }
                    "handler-resume-label" => {
                        p.push("Hh:".to_owned());
                        p.push("PRINT \"h\"; ERR".to_owned());
                        p.push("RESUME After".to_owned());
                    }
                    _ => {}
                }
                p.push("SUB Ps (X$)".to_owned());
                p.push("  C% = C% + LEN(X$)".to_owned());
                p.push("END SUB".to_owned());
                p.push("SUB Ps2 (X$, Y$)".to_owned());
                p.push("  C% = C% + LEN(X$) + LEN(Y$)".to_owned());
                p.push("END SUB".to_owned());
                p.push("SUB Pn (N%)".to_owned());
                p.push("  C% = C% + N%".to_owned());
                p.push("END SUB".to_owned());
                p.push("SUB Pn2 (K%, N%)".to_owned());
                p.push("  C% = C% + N%".to_owned());
                p.push("END SUB".to_owned());
                p.push("FUNCTION Gs% (X$)".to_owned());
                p.push("  Gs% = LEN(X$) + 1".to_owned());
                p.push("END FUNCTION".to_owned());
                p.push("FUNCTION Gn% (N%)".to_owned());
                p.push("  Gn% = N% + 1".to_owned());
                p.push("END FUNCTION".to_owned());
                p.push("FUNCTION F% (N%)".to_owned());
                p.push("  F% = 7".to_owned());
                p.extend(ind(fbody));
                p.push("END FUNCTION".to_owned());
                p.push("SUB Outer1".to_owned());
                p.extend(ind(o1));
                p.push("END SUB".to_owned());
                p.push("SUB Outer2".to_owned());
                p.extend(ind(o2));
                p.push("END SUB".to_owned());
                out.push((format!("{}/{}/{}/{}", hn, fname, ctx, mode), p.join("\n") + "\n"));
            }
        }
    }
    out
}

/// Directed family `block-labels`: a label inside a block of every kind (THEN / ELSEIF / ELSE, CASE / CASE ELSE, WHILE,
/// DO with the test at the top / at the bottom, FOR without STEP) and a jump to it
///   * from the same block behind it (the statements in between run again; bounded by a counter), from the same block
///     before it, or from another block of the same IF / SELECT CASE statement,
///   * written directly in that block or inside a nested construct that the jump leaves (SELECT CASE, FOR, WHILE, IF,
///     FOR in SELECT CASE, SELECT CASE in FOR, SELECT CASE in SELECT CASE),
///   * by GOTO, or by a failing statement whose handler ends in RESUME label,
///   * the whole at the module level, inside a module-level FOR body, inside a module-level CASE block, inside a SUB
///     called from a FOR body, inside a FUNCTION called with an operand pending (the last two: GOTO only, a RESUME
///     label target lives in the main module).
/// Every program prints its counters, runs a FOR + SELECT CASE nest afterwards (the stacks must be sane) and
/// terminates.  Returns (name of the combination, program).  A label inside a FOR ... STEP body is left out (known
/// finding C05-a).
pub fn block_label_family() -> Vec<(String, String)> {
    let hosts = ["then", "elseif", "else", "case", "case-else", "while", "do-top", "do-bottom", "for"];
    let wraps = ["none", "select", "select-else", "for", "while", "if", "for-in-select", "select-in-for", "select-in-select"];
    let ind = |v: Vec<String>| -> Vec<String> { v.into_iter().map(|l| format!("  {}", l)).collect() };
    let sv = |v: &[&str]| -> Vec<String> { v.iter().map(|x| (*x).to_owned()).collect() };
    let mut out = vec![];
    for host in hosts {
        for layout in ["back", "forward", "sibling"] {
            let is_branch = matches!(host, "then" | "elseif" | "else" | "case" | "case-else");
            if layout == "sibling" && !is_branch {
                continue;
            }
            for wrap in wraps {
                for jump in ["goto", "resume"] {
                    for ctx in ["top", "in-for", "in-select", "in-sub", "in-function"] {
                        if jump == "resume" && (ctx == "in-sub" || ctx == "in-function") {
                            continue;
                        }
                        // ---- the jump
                        let core = if jump == "goto" { "IF T% < 3 THEN GOTO Lb".to_owned() } else { "IF T% < 3 THEN V! = 1 / Z%".to_owned() };
                        let sel = |v: Vec<String>, in_else: bool| -> Vec<String> {
                            let mut o = vec!["SELECT CASE 1".to_owned()];
                            if in_else {
                                o.extend(sv(&["CASE 2", "  PRINT \"no\"", "CASE ELSE"]));
                            } else {
                                o.push("CASE 1".to_owned());
                            }
                            o.extend(ind(v));
                            o.push("END SELECT".to_owned());
                            o
                        };
                        let fr = |v: Vec<String>| -> Vec<String> {
                            let mut o = vec!["FOR Q% = 1 TO 2".to_owned()];
                            o.extend(ind(v));
                            o.push("NEXT".to_owned());
                            o
                        };
                        let wrapped: Vec<String> = match wrap {
                            "none" => vec![core],
                            "select" => sel(vec![core], false),
                            "select-else" => sel(vec![core], true),
                            "for" => fr(vec![core]),
                            "while" => {
                                let mut o = sv(&["U% = 0", "WHILE U% < 2", "  U% = U% + 1"]);
                                o.extend(ind(vec![core]));
                                o.push("WEND".to_owned());
                                o
                            }
                            "if" => {
                                let mut o = vec!["IF T% > 0 THEN".to_owned()];
                                o.extend(ind(vec![core]));
                                o.extend(sv(&["ELSE", "  PRINT \"no\"", "END IF"]));
                                o
                            }
                            "for-in-select" => sel(fr(vec![core]), false),
                            "select-in-for" => fr(sel(vec![core], true)),
                            _ => sel(sel(vec![core], true), false),
                        };
                        let mut jump_lines = vec!["T% = T% + 1".to_owned()];
                        let mut label_lines = vec!["Lb:".to_owned()];
                        if jump == "resume" {
                            jump_lines.push("ON ERROR GOTO Hr".to_owned());
                            jump_lines.extend(wrapped);
                            jump_lines.push("ON ERROR GOTO Hm".to_owned());
                            label_lines.push("ON ERROR GOTO Hm".to_owned());
                        } else {
                            jump_lines.extend(wrapped);
                        }
                        // ---- the block(s)
                        let (main_block, other_block): (Vec<String>, Option<Vec<String>>) = match layout {
                            "back" => {
                                let mut b = sv(&["PRINT \"a\""]);
                                b.extend(label_lines);
                                b.push("PRINT \"b\"; T%".to_owned());
                                b.extend(jump_lines);
                                b.push("PRINT \"c\"".to_owned());
                                (b, None)
                            }
                            "forward" => {
                                let mut b = sv(&["PRINT \"a\""]);
                                b.extend(jump_lines);
                                b.push("PRINT \"not always\"".to_owned());
                                b.extend(label_lines);
                                b.push("PRINT \"c\"; T%".to_owned());
                                (b, None)
                            }
                            _ => {
                                let mut lb = sv(&["PRINT \"l0\""]);
                                lb.extend(label_lines);
                                lb.push("PRINT \"l1\"; T%".to_owned());
                                let mut jb = sv(&["PRINT \"j0\""]);
                                jb.extend(jump_lines);
                                jb.push("PRINT \"j1\"".to_owned());
                                (lb, Some(jb))
                            }
                        };
                        // ---- the host statement: `main_block` holds the label; with a sibling layout the block that runs is
                        // the other one
                        let sib = other_block.is_some();
                        let other = other_block.unwrap_or_else(|| sv(&["PRINT \"other\""]));
                        let mut h: Vec<String> = vec![];
                        match host {
                            "then" => {
                                h.push(if sib { "IF 1 = 0 THEN".to_owned() } else { "IF 1 = 1 THEN".to_owned() });
                                h.extend(ind(main_block));
                                h.push("ELSE".to_owned());
                                h.extend(ind(other));
                                h.push("END IF".to_owned());
                            }
                            "elseif" => {
                                h.extend(sv(&["IF 1 = 0 THEN", "  PRINT \"t\""]));
                                h.push(if sib { "ELSEIF 1 = 0 THEN".to_owned() } else { "ELSEIF 1 = 1 THEN".to_owned() });
                                h.extend(ind(main_block));
                                h.push("ELSE".to_owned());
                                h.extend(ind(other));
                                h.push("END IF".to_owned());
                            }
                            "else" => {
                                h.push(if sib { "IF 1 = 1 THEN".to_owned() } else { "IF 1 = 0 THEN".to_owned() });
                                h.extend(ind(other));
                                h.push("ELSE".to_owned());
                                h.extend(ind(main_block));
                                h.push("END IF".to_owned());
                            }
                            "case" => {
                                h.push(if sib { "SELECT CASE 7".to_owned() } else { "SELECT CASE 2".to_owned() });
                                h.extend(sv(&["CASE 1", "  PRINT \"c1\"", "CASE 2"]));
                                h.extend(ind(main_block));
                                h.push("CASE ELSE".to_owned());
                                h.extend(ind(other));
                                h.push("END SELECT".to_owned());
                            }
                            "case-else" => {
                                h.push(if sib { "SELECT CASE 1".to_owned() } else { "SELECT CASE 7".to_owned() });
                                h.push("CASE 1".to_owned());
                                h.extend(ind(other));
                                h.push("CASE ELSE".to_owned());
                                h.extend(ind(main_block));
                                h.push("END SELECT".to_owned());
                            }
                            "while" => {
                                h.extend(sv(&["W% = 0", "WHILE W% < 2", "  W% = W% + 1"]));
                                h.extend(ind(main_block));
                                h.push("WEND".to_owned());
                            }
                            "do-top" => {
                                h.extend(sv(&["W% = 0", "DO UNTIL W% >= 2", "  W% = W% + 1"]));
                                h.extend(ind(main_block));
                                h.push("LOOP".to_owned());
                            }
                            "do-bottom" => {
                                h.extend(sv(&["W% = 0", "DO", "  W% = W% + 1"]));
                                h.extend(ind(main_block));
                                h.push("LOOP WHILE W% < 2".to_owned());
                            }
                            _ => {
                                h.push("FOR F% = 1 TO 2".to_owned());
                                h.extend(ind(main_block));
                                h.push("  PRINT \"f\"; F%".to_owned());
                                h.push("NEXT".to_owned());
                            }
                        }
                        // ---- the context
                        let sane = sv(&["FOR S9% = 1 TO 2", "  SELECT CASE S9%", "  CASE 1", "    PRINT \"z1\"", "  CASE ELSE", "    PRINT \"z2\"", "  END SELECT", "NEXT"]);
                        let mut p: Vec<String> = vec![];
                        let mut procs: Vec<String> = vec![];
                        match ctx {
                            "in-sub" => p.push("DECLARE SUB S ()".to_owned()),
                            "in-function" => p.push("DECLARE FUNCTION F% (N%)".to_owned()),
                            _ => {}
                        }
                        if jump == "resume" {
                            p.push("ON ERROR GOTO Hm".to_owned());
                        }
                        match ctx {
                            "top" => p.extend(h),
                            "in-for" => {
                                p.push("FOR O% = 1 TO 2".to_owned());
                                p.extend(ind(h));
                                p.push("  PRINT \"o\"; O%".to_owned());
                                p.push("NEXT".to_owned());
                            }
                            "in-select" => {
                                p.extend(sv(&["SELECT CASE 3", "CASE 3"]));
                                p.extend(ind(h));
                                p.extend(sv(&["  PRINT \"in case\"", "CASE ELSE", "  PRINT \"e\"", "END SELECT"]));
                            }
                            "in-sub" => {
                                p.extend(sv(&["FOR O% = 1 TO 2", "  S", "  PRINT \"o\"; O%", "NEXT"]));
                                procs.push("SUB S".to_owned());
                                procs.extend(ind(h));
                                procs.push("  PRINT \"s\"; T%".to_owned());
                                procs.push("END SUB".to_owned());
                            }
                            _ => {
                                p.extend(sv(&["FOR O% = 1 TO 2", "  PRINT 100 + F%(2); O%", "NEXT"]));
                                procs.push("FUNCTION F% (N%)".to_owned());
                                procs.push("  F% = 7".to_owned());
                                procs.extend(ind(h));
                                procs.push("  PRINT \"s\"; T%".to_owned());
                                procs.push("END FUNCTION".to_owned());
                            }
                        }
                        p.push("PRINT \"end\"; T%".to_owned());
                        p.extend(sane);
                        p.push("END".to_owned());
                        if jump == "resume" {
                            p.extend(sv(&["Hr:", "PRINT \"ERR\"; ERR", "RESUME Lb", "Hm:", "PRINT \"main\"; ERR", "RESUME NEXT"]));
                        }
                        p.extend(procs);
                        out.push((format!("{}/{}/{}/{}/{}", host, layout, wrap, jump, ctx), p.join("\n") + "\n"));
                    }
                }
            }
        }
    }
    out
}
