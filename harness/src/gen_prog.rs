//! Type-directed random generator of BASIC programs (text), shared by the program-level checks.
//! Mostly well-typed and terminating programs; every random choice comes from the given Rng.

use crate::rng::Rng;

#[derive(Clone, Debug)]
pub struct Opts {
    pub max_depth: u32,
    pub max_block: u32,
    pub top_stmts: u32,
    pub subs: bool,
    pub gosub: bool,
    pub goto_fwd: bool,
    pub on_error: bool,
    pub data: bool,
    pub strings: bool,
    pub floats: bool,
    pub select: bool,
    pub division: bool,
    /// inject run-time faults (division by zero, overflow, READ past DATA, zero STEP)
    pub faults: bool,
    /// GOTO out of loops / blocks to a label after the enclosing top-level statement, EXIT SUB/FUNCTION inside loops
    pub jumps_out: bool,
    /// vary indentation and join simple statements with `:` (positions spread over many columns)
    pub relayout: bool,
}

impl Default for Opts {
    fn default() -> Self {
        Opts {
            max_depth: 3,
            max_block: 3,
            top_stmts: 8,
            subs: true,
            gosub: true,
            goto_fwd: true,
            on_error: false,
            data: true,
            strings: true,
            floats: true,
            select: true,
            division: true,
            faults: false,
            jumps_out: true,
            relayout: true,
        }
    }
}

#[derive(Clone, Copy, PartialEq, Eq, Debug)]
pub enum Ty {
    Int,
    Long,
    Sgl,
    Dbl,
    Str,
}

pub struct ProgGen<'a> {
    pub rng: &'a mut Rng,
    pub opts: Opts,
    lines: Vec<String>,
    counters_in_use: Vec<String>,
    fresh: u32,
    gosubs: Vec<(String, Vec<String>)>,
    sel_depth: u32,
    handlers: Vec<(String, Vec<String>)>,
    subs: Vec<SubInfo>,
    in_sub: bool,
    data_items: Vec<(Ty, String)>,
    data_read: usize,
    loop_depth: u32,
    pending_labels: Vec<String>,
    cur_sub_kw: &'static str,
    pub features: Vec<&'static str>,
}

#[derive(Clone)]
struct SubInfo {
    name: String,
    is_function: bool,
    params: Vec<Ty>,
    is_static: bool,
    ret: Ty,
}

fn suffix(t: Ty) -> &'static str {
    match t {
        Ty::Int => "%",
        Ty::Long => "&",
        Ty::Sgl => "!",
        Ty::Dbl => "#",
        Ty::Str => "$",
    }
}

impl<'a> ProgGen<'a> {
    pub fn new(rng: &'a mut Rng, opts: Opts) -> Self {
        ProgGen {
            rng,
            opts,
            lines: vec![],
            counters_in_use: vec![],
            fresh: 0,
            gosubs: vec![],
            sel_depth: 0,
            handlers: vec![],
            subs: vec![],
            in_sub: false,
            data_items: vec![],
            data_read: 0,
            loop_depth: 0,
            pending_labels: vec![],
            cur_sub_kw: "",
            features: vec![],
        }
    }

    fn feat(&mut self, f: &'static str) {
        if !self.features.contains(&f) {
            self.features.push(f);
        }
    }

    fn num_tys(&mut self) -> Ty {
        if self.opts.floats {
            *self.rng.pick(&[Ty::Int, Ty::Int, Ty::Long, Ty::Sgl, Ty::Dbl])
        } else {
            *self.rng.pick(&[Ty::Int, Ty::Int, Ty::Long])
        }
    }

    fn var(&mut self, t: Ty) -> String {
        let names: &[&str] = match t {
            Ty::Int => &["I%", "J%", "K%"],
            Ty::Long => &["L&", "M&"],
            Ty::Sgl => &["X!", "Y!", "A"],
            Ty::Dbl => &["D#", "E#"],
            Ty::Str => &["S$", "T$"],
        };
        (*self.rng.pick(names)).to_owned()
    }

    fn lit(&mut self, t: Ty) -> String {
        // now and then a value at the very end of its type's range: operators are most likely to go wrong there
        // (after a wave-8 seed: `a - b` computed as `a + (-b)` fails for b = -32768 although the difference fits)
        if self.rng.chance(1, 14) {
            match t {
                Ty::Int => return (*self.rng.pick(&["32767", "-32768", "-32767", "32766"])).to_owned(),
                Ty::Long => return (*self.rng.pick(&["2147483647", "-2147483648", "-2147483647", "32768", "-32769"])).to_owned(),
                _ => {}
            }
        }
        match t {
            Ty::Int => format!("{}", self.rng.range(-9, 20)),
            Ty::Long => {
                if self.rng.chance(1, 4) {
                    format!("{}", self.rng.range(40000, 70000))
                } else {
                    format!("{}", self.rng.range(-9, 20))
                }
            }
            Ty::Sgl => {
                let k = self.rng.range(-20, 40);
                if k % 4 == 0 { format!("{}", k / 4) } else { format!("{}", (k as f64) / 4.0) }
            }
            Ty::Dbl => {
                let k = self.rng.range(-20, 40);
                if k % 8 == 0 { format!("{}", k / 8) } else { format!("{}#", (k as f64) / 8.0) }
            }
            Ty::Str => {
                let words = ["", "a", "Hi", "abc", "x y", "QB"];
                format!("\"{}\"", self.rng.pick(&words))
            }
        }
    }

    /// numeric expression whose static type is "around" t (mixed operands allowed)
    pub fn num_expr(&mut self, t: Ty, depth: u32) -> String {
        if depth == 0 || self.rng.chance(2, 5) {
            return if self.rng.chance(1, 2) { self.var(t) } else { self.lit(t) };
        }
        match self.rng.below(10) {
            0..=2 => format!("{} + {}", self.num_expr(t, depth - 1), self.num_expr(t, depth - 1)),
            3..=4 => format!("{} - {}", self.num_expr(t, depth - 1), self.num_expr(t, depth - 1)),
            5 => format!("{} * {}", self.num_atom(t), self.lit(Ty::Int)),
            6 => format!("({})", self.num_expr(t, depth - 1)),
            7 => format!("-{}", self.num_atom(t)),
            8 => {
                if self.opts.division {
                    self.feat("division");
                    format!("{} / {}", self.num_expr(t, depth - 1), self.rng.pick(&["2", "4", "8"]))
                } else {
                    format!("{} MOD {}", self.num_atom(Ty::Int), self.rng.pick(&["2", "3", "7"]))
                }
            }
            _ => {
                // mix in another numeric type
                let other = self.num_tys();
                format!("{} + {}", self.num_expr(t, depth - 1), self.num_atom(other))
            }
        }
    }

    fn num_atom(&mut self, t: Ty) -> String {
        if self.rng.chance(1, 2) {
            self.var(t)
        } else {
            let l = self.lit(t);
            if l.starts_with('-') { format!("({})", l) } else { l }
        }
    }

    pub fn str_expr(&mut self, depth: u32) -> String {
        if depth == 0 || self.rng.chance(1, 2) {
            return if self.rng.chance(1, 2) { self.var(Ty::Str) } else { self.lit(Ty::Str) };
        }
        format!("{} + {}", self.str_expr(depth - 1), self.str_expr(depth - 1))
    }

    /// a string expression mentioning at most one variable (so repeated execution grows a
    /// string linearly, never exponentially)
    pub fn str_expr_linear(&mut self) -> String {
        let mut parts = vec![];
        let n = self.rng.range(1, 3);
        let var_at = self.rng.range(0, 3);
        for k in 0..n {
            if k == var_at {
                parts.push(self.var(Ty::Str));
            } else {
                parts.push(self.lit(Ty::Str));
            }
        }
        parts.join(" + ")
    }

    pub fn expr(&mut self, t: Ty, depth: u32) -> String {
        if t == Ty::Str { self.str_expr(depth) } else { self.num_expr(t, depth) }
    }

    /// a condition (integer-valued)
    pub fn cond(&mut self, depth: u32) -> String {
        let rel = *self.rng.pick(&["<", "<=", "=", ">=", ">", "<>"]);
        let base = if self.opts.strings && self.rng.chance(1, 6) {
            format!("{} {} {}", self.str_expr(1), rel, self.str_expr(1))
        } else {
            let t = self.num_tys();
            format!("{} {} {}", self.num_expr(t, 1), rel, self.num_expr(t, 1))
        };
        if depth > 0 && self.rng.chance(1, 4) {
            let op = *self.rng.pick(&["AND", "OR"]);
            let other = self.cond(depth - 1);
            if self.rng.chance(1, 3) {
                format!("NOT ({}) {} {}", base, op, other)
            } else {
                format!("{} {} {}", base, op, other)
            }
        } else {
            base
        }
    }

    /// a reference to a label (or any identifier) in a random letter case: names are case-insensitive
    fn recase(&mut self, name: &str) -> String {
        match self.rng.below(4) {
            0 => name.to_ascii_uppercase(),
            1 => name.to_ascii_lowercase(),
            _ => name.to_owned(),
        }
    }

    fn fresh_name(&mut self, prefix: &str) -> String {
        self.fresh += 1;
        format!("{}{}", prefix, self.fresh)
    }

    fn emit(&mut self, out: &mut Vec<String>, s: String) {
        out.push(s);
    }

    fn print_stmt(&mut self, out: &mut Vec<String>) {
        let n = self.rng.range(0, 3);
        let mut s = String::from("PRINT");
        for k in 0..n {
            let t = if self.opts.strings && self.rng.chance(1, 3) { Ty::Str } else { self.num_tys() };
            let e = self.expr(t, 1);
            s.push(' ');
            s.push_str(&e);
            if k + 1 < n || self.rng.chance(1, 5) {
                s.push_str(if self.rng.chance(1, 2) { ";" } else { "," });
            }
        }
        self.emit(out, s);
    }

    fn assign_stmt(&mut self, out: &mut Vec<String>) {
        let t = if self.opts.strings && self.rng.chance(1, 5) { Ty::Str } else { self.num_tys() };
        let mut v = self.var(t);
        let mut guard = 0;
        while self.counters_in_use.contains(&v) && guard < 5 {
            v = self.var(t);
            guard += 1;
        }
        if self.counters_in_use.contains(&v) {
            return self.print_stmt(out);
        }
        let src_t = if t == Ty::Str { Ty::Str } else { self.num_tys() };
        let e = if t == Ty::Str { self.str_expr_linear() } else { self.expr(src_t, 2) };
        self.emit(out, format!("{} = {}", v, e));
    }

    fn block(&mut self, depth: u32) -> Vec<String> {
        let mut out = vec![];
        let n = self.rng.range(1, self.opts.max_block as i64);
        for _ in 0..n {
            self.stmt(&mut out, depth);
        }
        out
    }

    fn indent(lines: Vec<String>) -> Vec<String> {
        lines.into_iter().map(|l| format!("  {}", l)).collect()
    }

    fn flush_labels(&mut self, out: &mut Vec<String>) {
        for l in std::mem::take(&mut self.pending_labels) {
            out.push(format!("{}:", l));
        }
    }

    pub fn stmt(&mut self, out: &mut Vec<String>, depth: u32) {
        if self.opts.jumps_out && depth < self.opts.max_depth && self.rng.chance(1, 14) {
            // leave the enclosing block(s) / loop(s) by a jump
            let c = self.cond(0);
            if self.in_sub && (self.loop_depth > 0 || self.sel_depth > 0) && self.rng.chance(1, 2) {
                self.feat(if self.sel_depth > 0 { "exit-sub-in-select" } else { "exit-sub-in-loop" });
                out.push(format!("IF {} THEN EXIT {}", c, self.cur_sub_kw));
            } else if !self.in_sub || depth < 1 {
                self.feat(if self.loop_depth > 0 { "goto-out-of-loop" } else { "goto-out-of-block" });
                let l = self.fresh_name("Jo");
                let r = self.recase(&l);
                out.push(format!("IF {} THEN GOTO {}", c, r));
                self.pending_labels.push(l);
            }
            return;
        }
        let choice = self.rng.below(if depth > 0 { 20 } else { 8 });
        match choice {
            0..=2 => self.print_stmt(out),
            3..=5 => self.assign_stmt(out),
            6 => {
                if self.opts.data && !self.in_sub && self.loop_depth == 0 {
                    self.read_stmt(out)
                } else {
                    self.print_stmt(out)
                }
            }
            7 => {
                if self.opts.gosub && !self.in_sub && self.gosubs.len() < 3 {
                    self.feat("gosub");
                    let name = self.fresh_name("Gs");
                    let saved = std::mem::take(&mut self.counters_in_use);
                    // the subroutine body must not touch counters of loops that may be active: use prints only
                    let mut body = vec![];
                    self.print_stmt(&mut body);
                    self.counters_in_use = saved;
                    self.gosubs.push((name.clone(), body));
                    let r = self.recase(&name);
                    self.emit(out, format!("GOSUB {}", r));
                } else if !self.subs.is_empty() {
                    self.call_stmt(out)
                } else {
                    self.print_stmt(out)
                }
            }
            8..=10 => {
                self.feat("if");
                let c = self.cond(1);
                self.emit(out, format!("IF {} THEN", c));
                let b = self.block(depth - 1);
                out.extend(Self::indent(b));
                let n_elseif = self.rng.range(0, 2);
                for _ in 0..n_elseif {
                    let c = self.cond(0);
                    self.emit(out, format!("ELSEIF {} THEN", c));
                    let b = self.block(depth - 1);
                    out.extend(Self::indent(b));
                }
                if self.rng.chance(1, 2) {
                    self.emit(out, "ELSE".into());
                    let b = self.block(depth - 1);
                    out.extend(Self::indent(b));
                }
                self.emit(out, "END IF".into());
            }
            11..=13 => self.for_stmt(out, depth),
            14 => {
                self.feat("while");
                let c = self.fresh_name("W");
                let c = format!("{}%", c);
                let n = self.rng.range(0, 3);
                self.emit(out, format!("{} = 0", c));
                self.emit(out, format!("WHILE {} < {}", c, n));
                self.emit(out, format!("  {} = {} + 1", c, c));
                self.loop_depth += 1;
                let b = self.block(depth - 1);
                self.loop_depth -= 1;
                out.extend(Self::indent(b));
                self.emit(out, "WEND".into());
            }
            15..=16 => {
                self.feat("do");
                let c = self.fresh_name("Q");
                let top = self.rng.chance(1, 2);
                let until = self.rng.chance(1, 2);
                // a quarter of the UNTIL loops test a plain number (true = not zero), not a comparison
                let value_cond = until && self.rng.chance(1, 4);
                // ... and a third of those a floating point number that leaves zero by a tiny amount (2^-19):
                // truth is "not exactly zero", for UNTIL as for WHILE and IF
                let tiny = value_cond && self.opts.floats && self.rng.chance(1, 3);
                let c = if tiny { format!("{}{}", c, self.rng.pick(&["!", "#"])) } else { format!("{}%", c) };
                let n = self.rng.range(0, 3);
                self.emit(out, format!("{} = 0", c));
                let cond = if value_cond {
                    self.feat("until-value");
                    format!("UNTIL {}", c)
                } else if until {
                    format!("UNTIL {} >= {}", c, n)
                } else {
                    format!("WHILE {} < {}", c, n)
                };
                if top {
                    self.emit(out, format!("DO {}", cond));
                } else {
                    self.emit(out, "DO".into());
                }
                if tiny {
                    self.feat("until-tiny-float");
                    self.emit(out, format!("  {} = {} + .0000019073486328125#", c, c));
                } else {
                    let inc = if value_cond { *self.rng.pick(&[1, 2, 5]) } else { 1 };
                    self.emit(out, format!("  {} = {} + {}", c, c, inc));
                }
                self.loop_depth += 1;
                let b = self.block(depth - 1);
                self.loop_depth -= 1;
                out.extend(Self::indent(b));
                if top {
                    self.emit(out, "LOOP".into());
                } else {
                    self.emit(out, format!("LOOP {}", cond));
                }
            }
            17 => {
                if self.opts.select {
                    self.select_stmt(out, depth)
                } else {
                    self.print_stmt(out)
                }
            }
            18 => {
                if !self.subs.is_empty() {
                    self.call_stmt(out)
                } else {
                    self.assign_stmt(out)
                }
            }
            _ => {
                if self.opts.goto_fwd && depth == self.opts.max_depth && self.counters_in_use.is_empty() {
                    self.feat("goto");
                    let l = self.fresh_name("Lb");
                    let r = self.recase(&l);
                    self.emit(out, format!("GOTO {}", r));
                    self.print_stmt(out);
                    self.emit(out, format!("{}:", l));
                } else {
                    self.print_stmt(out)
                }
            }
        }
    }

    fn for_stmt(&mut self, out: &mut Vec<String>, depth: u32) {
        self.feat("for");
        let t = if self.opts.floats && self.rng.chance(1, 4) { *self.rng.pick(&[Ty::Sgl, Ty::Long]) } else { Ty::Int };
        let mut v = self.var(t);
        let mut guard = 0;
        while self.counters_in_use.contains(&v) && guard < 6 {
            v = self.var(t);
            guard += 1;
        }
        if self.counters_in_use.contains(&v) {
            let f = self.fresh_name("C");
            v = format!("{}{}", f, suffix(t));
        }
        let lo = self.rng.range(-2, 3);
        let len = self.rng.range(-1, 3);
        let (from, to, step) = match self.rng.below(6) {
            0 | 1 => (lo, lo + len, None),
            2 => (lo, lo + len, Some("1".to_owned())),
            3 => (lo + len, lo, Some("-1".to_owned())),
            4 => (lo, lo + 2 * len, Some("2".to_owned())),
            _ => {
                // run-time computed step, of any numeric type
                let st = if self.rng.chance(1, 2) { Ty::Int } else { self.num_tys() };
                let sv = self.var(st);
                if self.counters_in_use.contains(&sv) || sv == v {
                    (lo, lo + len, Some("1".to_owned()))
                } else {
                    let neg = self.rng.chance(1, 2);
                    self.emit(out, format!("{} = {}", sv, if neg { -1 } else { 1 }));
                    self.feat("for-computed-step");
                    if neg { (lo + len, lo, Some(sv)) } else { (lo, lo + len, Some(sv)) }
                }
            }
        };
        let zero_step = self.opts.faults && self.rng.chance(1, 30);
        let step_s = if zero_step {
            " STEP 0".to_owned()
        } else {
            match &step {
                Some(s) => {
                    self.feat("for-step");
                    format!(" STEP {}", s)
                }
                None => String::new(),
            }
        };
        // the bounds are converted to the counter's type: now and then a bound of a wider type whose conversion
        // matters (a fraction that rounds, up or down or at the tie) or, with faults on, fails (out of the counter's range)
        let mut from_s = from.to_string();
        let mut to_s = to.to_string();
        if self.opts.floats && t != Ty::Sgl && self.rng.chance(1, 4) {
            self.feat("for-fractional-bound");
            let frac = *self.rng.pick(&["4", "5", "6", "25", "75"]);
            if self.rng.chance(2, 3) {
                to_s = format!("{}.{}", to, frac);
            } else {
                from_s = format!("{}.{}", from, frac);
            }
        } else if self.opts.faults && t == Ty::Int && self.rng.chance(1, 40) {
            self.feat("for-bound-out-of-range");
            to_s = "40000".to_owned();
            from_s = "39998".to_owned();
        }
        self.emit(out, format!("FOR {} = {} TO {}{}", v, from_s, to_s, step_s));
        self.counters_in_use.push(v.clone());
        let step_is_var = step.as_ref().map(|s| s.chars().next().map(|c| c.is_ascii_alphabetic()).unwrap_or(false)).unwrap_or(false);
        if let Some(s) = &step {
            if step_is_var {
                self.counters_in_use.push(s.clone());
            }
        }
        self.loop_depth += 1;
        let b = self.block(depth - 1);
        self.loop_depth -= 1;
        out.extend(Self::indent(b));
        if step.is_some() && step_is_var {
            self.counters_in_use.pop();
        }
        self.counters_in_use.pop();
        if self.rng.chance(1, 3) {
            self.emit(out, format!("NEXT {}", v));
        } else {
            self.emit(out, "NEXT".into());
        }
    }

    fn select_stmt(&mut self, out: &mut Vec<String>, depth: u32) {
        self.feat("select");
        let is_str = self.opts.strings && self.rng.chance(1, 5);
        let t = if is_str { Ty::Str } else { Ty::Int };
        let e = self.expr(t, 1);
        self.emit(out, format!("SELECT CASE {}", e));
        let n = self.rng.range(0, 3);
        for _ in 0..n {
            let m = self.rng.range(1, 2);
            let mut items = vec![];
            for _ in 0..m {
                let item = match self.rng.below(3) {
                    0 => self.lit(t),
                    1 => {
                        let rel = *self.rng.pick(&["<", "<=", "=", ">=", ">", "<>"]);
                        format!("IS {} {}", rel, self.lit(t))
                    }
                    _ => {
                        if is_str {
                            "\"a\" TO \"h\"".to_owned()
                        } else {
                            let a = self.rng.range(-5, 10);
                            format!("{} TO {}", a, a + self.rng.range(0, 6))
                        }
                    }
                };
                items.push(item);
            }
            self.emit(out, format!("CASE {}", items.join(", ")));
            self.sel_depth += 1;
            let b = self.block(depth - 1);
            self.sel_depth -= 1;
            out.extend(Self::indent(b));
        }
        if self.rng.chance(1, 2) {
            self.emit(out, "CASE ELSE".into());
            self.sel_depth += 1;
            let b = self.block(depth - 1);
            self.sel_depth -= 1;
            out.extend(Self::indent(b));
        }
        self.emit(out, "END SELECT".into());
    }

    fn read_stmt(&mut self, out: &mut Vec<String>) {
        self.feat("data-read");
        // one READ statement with 1..3 variables; with faults on, a DATA item may be missing or of the wrong kind
        let n = self.rng.range(1, 3);
        let mut vars = vec![];
        for _ in 0..n {
            let t = if self.opts.strings && self.rng.chance(1, 4) { Ty::Str } else { self.num_tys() };
            let v = self.var(t);
            if self.counters_in_use.contains(&v) || vars.contains(&v) {
                continue;
            }
            let mut item = self.lit(t).trim_end_matches(['!', '#']).to_owned();
            let mut push = true;
            if self.opts.faults && self.rng.chance(1, 10) {
                self.feat("read-fault");
                match self.rng.below(3) {
                    0 => push = false,                          // item missing: READ past DATA
                    1 => item = "\"oops\"".to_owned(),            // a string for a numeric variable (or fine for a string)
                    _ => item = "40000".to_owned(),             // overflows an INTEGER
                }
            }
            if push {
                self.data_items.push((t, item));
            }
            self.data_read += 1;
            vars.push(v);
        }
        if vars.is_empty() {
            return self.print_stmt(out);
        }
        self.emit(out, format!("READ {}", vars.join(", ")));
        self.emit(out, format!("PRINT {}", vars.join("; ")));
    }

    fn call_stmt(&mut self, out: &mut Vec<String>) {
        let idx = self.rng.below(self.subs.len() as u64) as usize;
        let info = self.subs[idx].clone();
        let mut args = vec![];
        for p in &info.params {
            let a = match self.rng.below(4) {
                0 => {
                    let v = self.var(*p);
                    if self.counters_in_use.contains(&v) { format!("({})", v) } else { v }
                }
                1 => self.lit(*p),
                2 => format!("({})", self.var(*p)),
                _ => {
                    let other = if *p == Ty::Str { Ty::Str } else { self.num_tys() };
                    let e = self.expr(other, 1);
                    // a bare variable of another type would be a by-ref type mismatch: wrap
                    format!("({})", e)
                }
            };
            args.push(a);
        }
        if info.is_function {
            self.feat("function-call");
            let v = self.var(info.ret);
            let call = if args.is_empty() { info.name.clone() } else { format!("{}({})", info.name, args.join(", ")) };
            if self.counters_in_use.contains(&v) {
                self.emit(out, format!("PRINT {}", call));
            } else {
                self.emit(out, format!("{} = {}", v, call));
            }
        } else {
            self.feat("sub-call");
            // both spellings of a SUB call: `Name a, b` and `CALL Name(a, b)`
            let call_kw = self.rng.chance(1, 4);
            if call_kw {
                self.feat("sub-call-with-CALL");
            }
            if args.is_empty() {
                self.emit(out, if call_kw { format!("CALL {}", info.name) } else { info.name.clone() });
            } else if call_kw {
                self.emit(out, format!("CALL {}({})", info.name, args.join(", ")));
            } else {
                self.emit(out, format!("{} {}", info.name, args.join(", ")));
            }
        }
    }

    /// Generates a whole program.
    pub fn program(&mut self) -> String {
        // subprogram signatures first (so that calls can be generated anywhere)
        let n_subs = if self.opts.subs { self.rng.range(0, 3) } else { 0 };
        for k in 0..n_subs {
            let is_function = self.rng.chance(1, 2);
            let n_params = self.rng.range(0, 2);
            let mut params = vec![];
            for _ in 0..n_params {
                let t = if self.opts.strings && self.rng.chance(1, 5) { Ty::Str } else { self.num_tys() };
                params.push(t);
            }
            let ret = self.num_tys();
            self.subs.push(SubInfo {
                name: if is_function { format!("Fn{}{}", k, suffix(ret)) } else { format!("Pr{}", k) },
                is_function,
                params,
                is_static: self.rng.chance(1, 4),
                ret,
            });
        }
        let mut main = vec![];
        if self.opts.on_error && self.rng.chance(2, 3) {
            self.feat("on-error");
            let h = self.fresh_name("Hd");
            let resume = match self.rng.below(3) {
                0 => "RESUME NEXT",
                1 => "RESUME NEXT",
                _ => "RESUME NEXT",
            };
            self.handlers.push((h.clone(), vec!["PRINT \"ERR\"; ERR".to_owned(), resume.to_owned()]));
            let r = self.recase(&h);
            main.push(format!("ON ERROR GOTO {}", r));
        }
        let n = self.rng.range(2, self.opts.top_stmts as i64);
        for _ in 0..n {
            let d = self.opts.max_depth;
            self.stmt(&mut main, d);
            self.flush_labels(&mut main);
            if self.opts.faults && self.rng.chance(1, 12) {
                self.feat("fault");
                let f = match self.rng.below(4) {
                    0 => "X! = 1 / 0".to_owned(),
                    1 => "I% = 32767 : I% = I% * 2 : I% = 0".to_owned(),
                    2 => "READ K%".to_owned(),
                    _ => "L& = 2147483647 : L& = L& + L& : L& = 0".to_owned(),
                };
                if f.starts_with("READ") {
                    self.data_read += 1;
                }
                main.push(f);
            }
        }
        main.push("END".to_owned());
        let gosubs = std::mem::take(&mut self.gosubs);
        for (name, body) in gosubs {
            main.push(format!("{}:", name));
            main.extend(body);
            main.push("RETURN".to_owned());
        }
        let handlers = std::mem::take(&mut self.handlers);
        for (name, body) in handlers {
            main.push(format!("{}:", name));
            main.extend(body);
        }
        if !self.data_items.is_empty() {
            let items: Vec<String> = self.data_items.iter().map(|(_, s)| s.clone()).collect();
            // DATA may be anywhere in the main module; put it at a random place among top-level lines is unsafe
            // (inside blocks); keep it first or last.
            if self.rng.chance(1, 2) {
                main.insert(0, format!("DATA {}", items.join(", ")));
            } else {
                main.push(format!("DATA {}", items.join(", ")));
            }
        }
        // subprogram bodies
        let subs = self.subs.clone();
        let mut decls = vec![];
        let mut bodies = vec![];
        for (k, info) in subs.iter().enumerate() {
            let params: Vec<String> = info
                .params
                .iter()
                .enumerate()
                .map(|(i, t)| format!("P{}{}", i, suffix(*t)))
                .collect();
            let plist = if params.is_empty() { String::new() } else { format!(" ({})", params.join(", ")) };
            let kw = if info.is_function { "FUNCTION" } else { "SUB" };
            decls.push(format!("DECLARE {} {}{}", kw, info.name, plist));
            bodies.push(format!("{} {}{}{}", kw, info.name, plist, if info.is_static { " STATIC" } else { "" }));
            self.in_sub = true;
            // only call subprograms with a smaller index (no unbounded recursion)
            let saved_subs = std::mem::replace(&mut self.subs, subs[..k].to_vec());
            let mut body = vec![];
            if info.is_static {
                self.feat("static");
                body.push("N% = N% + 1".to_owned());
                body.push("PRINT \"calls\"; N%".to_owned());
            }
            for (i, t) in info.params.iter().enumerate() {
                if self.rng.chance(1, 2) {
                    let e = if *t == Ty::Str { self.str_expr_linear() } else { self.expr(*t, 1) };
                    body.push(format!("P{}{} = {}", i, suffix(*t), e));
                }
            }
            let n = self.rng.range(1, 3);
            self.cur_sub_kw = kw;
            for _ in 0..n {
                self.stmt(&mut body, 1);
                self.flush_labels(&mut body);
            }
            // a GOSUB routine local to the procedure, called from inside a loop, that returns or leaves the procedure
            // directly (EXIT SUB in a GOSUB routine): the caller's loops must not notice
            let local_gosub = if self.opts.gosub && self.rng.chance(1, 3) {
                self.feat("gosub-in-sub");
                let l = self.fresh_name("Ls");
                let c = format!("{}%", self.fresh_name("G"));
                if self.rng.chance(2, 3) {
                    body.push(format!("FOR {} = 1 TO 2", c));
                    body.push(format!("  GOSUB {}", l));
                    body.push("NEXT".to_owned());
                } else {
                    body.push(format!("GOSUB {}", l));
                }
                Some(l)
            } else {
                None
            };
            if info.is_function && self.rng.chance(4, 5) {
                let e = self.num_expr(info.ret, 1);
                body.push(format!("{} = {}", info.name, e));
            }
            if let Some(l) = local_gosub {
                body.push(format!("EXIT {}", kw));
                body.push(format!("{}:", l));
                body.push("PRINT \"gs\"".to_owned());
                if self.rng.chance(1, 3) {
                    self.feat("exit-sub-in-gosub");
                    body.push(format!("EXIT {}", kw));
                } else {
                    body.push("RETURN".to_owned());
                }
            }
            self.subs = saved_subs;
            self.in_sub = false;
            bodies.extend(Self::indent(body));
            bodies.push(format!("END {}", kw));
        }
        let mut all = decls;
        all.extend(main);
        all.extend(bodies);
        self.lines = if self.opts.relayout { self.relayout(all) } else { all };
        self.lines.join("\n") + "\n"
    }

    /// Varies the layout without changing the statement structure: extra indentation (so that statements start
    /// at many different columns) and `:`-joining of consecutive simple statements.
    fn relayout(&mut self, lines: Vec<String>) -> Vec<String> {
        fn simple(l: &str) -> bool {
            let t = l.trim_start();
            let first = t.split(' ').next().unwrap_or("");
            let is_assign = t.contains(" = ") && !t.starts_with("IF ") && !t.starts_with("FOR ") && !t.starts_with("CASE") && !t.starts_with("CONST");
            (first == "PRINT" || is_assign || first == "READ" || first == "GOSUB") && !t.ends_with(':') && !t.contains(" THEN")
        }
        let mut out: Vec<String> = vec![];
        let mut i = 0;
        while i < lines.len() {
            let extra = if self.rng.chance(1, 3) { self.rng.below(14) as usize } else { 0 };
            let mut line = format!("{}{}", " ".repeat(extra), lines[i]);
            while i + 1 < lines.len() && simple(&lines[i]) && simple(&lines[i + 1]) && self.rng.chance(1, 5) {
                line = format!("{} : {}", line, lines[i + 1].trim_start());
                i += 1;
            }
            out.push(line);
            i += 1;
        }
        out
    }
}

pub fn generate(rng: &mut Rng, opts: &Opts) -> (String, Vec<&'static str>) {
    let mut g = ProgGen::new(rng, opts.clone());
    let text = g.program();
    (text, g.features.clone())
}

/// A "position grid": many one-line constructs of the same few kinds, each starting at its own random column on
/// its own row, over enough rows (two- and three-digit row numbers) and columns (one- and two-digit) that the
/// positions of same-kind constructs differ in every way a position can differ.  Whatever the code generator derives
/// from a statement's position (its generated label names above all) must keep these apart.
/// All programs lie in the core fragment; the final value depends on every row having run exactly once.
pub fn grid(rng: &mut Rng) -> String {
    let rows = 30 + rng.below(90) as usize;
    let max_col = [12u64, 25, 45][rng.below(3) as usize];
    // one dominant kind per program makes same-kind pairs frequent
    let dominant = rng.below(4);
    let mut out = vec!["V% = 0".to_owned()];
    for r in 0..rows {
        let indent = " ".repeat(rng.below(max_col) as usize);
        let kind = if rng.chance(3, 4) { dominant } else { rng.below(4) };
        let k = rng.below(3);
        let line = match kind {
            0 => format!("IF V% MOD 3 = {} THEN V% = V% + 1 ELSE V% = V% + 2", k),
            1 => format!("WHILE V% MOD 5 = {}: V% = V% + 1: WEND", k),
            2 => format!("DO WHILE V% MOD 4 = {}: V% = V% + 1: LOOP", k),
            _ => format!("FOR I% = 1 TO {}: V% = V% + I%: NEXT", k + 1),
        };
        // now and then a second construct on the same row
        if rng.chance(1, 6) {
            out.push(format!("{}{}: IF V% > 30000 THEN V% = 0", indent, line));
        } else {
            out.push(format!("{}{}", indent, line));
        }
        if r % 8 == 7 {
            out.push(format!("{}PRINT V%", " ".repeat(rng.below(6) as usize)));
            out.push(format!("{}IF V% > 20000 THEN V% = 0", " ".repeat(rng.below(max_col) as usize)));
        }
    }
    out.push("PRINT V%".to_owned());
    out.join("\n") + "\n"
}
