//! Debug aid: prints the real instruction list of a program file, and the Lean checker's verdict.
use rb_harness::driver::ask;
use rb_harness::instr_sx;
use rusty_basic::interpreter::verif::compile;
fn main() {
    let path = std::env::args().nth(1).expect("file");
    let text = std::fs::read_to_string(path).unwrap();
    let (res, _) = compile(&text).expect("front end");
    for (i, ip) in res.instructions.iter().enumerate() {
        println!("{:4} {:?} @{}:{}", i, ip.element, ip.pos.row(), ip.pos.col());
    }
    println!("addrs {:?}", res.statement_addresses);
    let (code, addrs) = instr_sx::program(&res);
    let a = ask(&[format!("(wf.check {} {})", code, addrs), format!("(wfm.check {} {})", code, addrs)]);
    println!("{}", a[0]);
    println!("{}", a[1]);
}
