//! C12 — the static checker is sound for types and its verdicts are stable.
//!
//! (a) verdict correspondence (accept / LintError variant + row) between the Lean model `RbModel.Ty.lint`
//!     and the real `rusty_linter::core::lint` on generated programs of the modelled fragment and on all
//!     their single-edit mutants;
//! (b) every accepted program (own generator, shared generator, corpus) is run through the in-memory hook:
//!     no run-time Type mismatch, no panic about an operand of the wrong kind;
//! (c) each fault family injected at EVERY eligible syntactic position: the real checker must reject with
//!     the family's error at the edited statement's row;
//! (d) consistent renaming of the user identifiers does not change the verdict (real checker and model).
use std::collections::BTreeMap;
use std::panic::{catch_unwind, AssertUnwindSafe};

use rb_harness::driver::ask;
use rb_harness::json::J;
use rb_harness::report::{Failure, Kind, Report};
use rb_harness::rng::Rng;

#[derive(Clone, Copy, PartialEq, Eq, Debug)]
enum T {
    Int,
    Long,
    Sgl,
    Dbl,
    Str,
}
const TYS: [T; 5] = [T::Int, T::Long, T::Sgl, T::Dbl, T::Str];
fn tname(t: T) -> &'static str {
    match t {
        T::Int => "int",
        T::Long => "long",
        T::Sgl => "sgl",
        T::Dbl => "dbl",
        T::Str => "str",
    }
}
fn sfx(t: T) -> &'static str {
    match t {
        T::Int => "%",
        T::Long => "&",
        T::Sgl => "!",
        T::Dbl => "#",
        T::Str => "$",
    }
}

/// A user identifier: bare name (upper-case letters/digits) and optional suffix.
#[derive(Clone, PartialEq, Eq, Debug)]
struct Id {
    bare: String,
    sfx: Option<T>,
}
impl Id {
    fn new(bare: &str, s: Option<T>) -> Id {
        Id { bare: bare.to_owned(), sfx: s }
    }
    fn text(&self, ren: bool) -> String {
        format!("{}{}{}", self.bare, if ren { "ZQ" } else { "" }, self.sfx.map(sfx).unwrap_or(""))
    }
    fn sx(&self, ren: bool) -> String {
        let b = self.bare.as_bytes();
        // the rest of the name as a number (base 37 over the characters), renamed: another number
        let mut rest: u64 = 0;
        for c in &b[1..] {
            rest = rest * 37 + (*c as u64 % 37) + 1;
        }
        if ren {
            rest = rest * 1000 + 777;
        }
        format!("({} {} {})", b[0] - b'A', rest, self.sfx.map(tname).unwrap_or("none"))
    }
}

const BUILTINS: [(&str, &str); 14] = [
    ("chr", "CHR$"), ("lcase", "LCASE$"), ("ucase", "UCASE$"), ("ltrim", "LTRIM$"), ("rtrim", "RTRIM$"), ("space", "SPACE$"),
    ("str", "STR$"), ("val", "VAL"), ("left", "LEFT$"), ("right", "RIGHT$"), ("mid", "MID$"), ("instr", "INSTR"),
    ("string", "STRING$"), ("len", "LEN"),
];

#[derive(Clone, Debug)]
enum E {
    Lit(T, String),
    Var(Id),
    Paren(Box<E>),
    Neg(Box<E>),
    Not(Box<E>),
    Bin(&'static str, &'static str, Box<E>, Box<E>),
    Call(Id, Vec<E>),
    Bi(usize, Vec<E>),
    /// outside the modelled fragment: text with `{z}` where the renaming suffix goes (a record field, an
    /// element of an array of records, UBOUND(..) — scalar-valued — or, in the edit family, a NON-scalar
    /// operand: whole array, record variable); the flag: string-valued
    Ext(String, bool),
}

#[derive(Clone, Debug)]
enum S {
    Assign(E, E),
    Print(Vec<E>),
    CallSub(Id, Vec<E>),
    Goto(Id),
    Label(Id),
    If(E, Vec<S>, Option<Vec<S>>),
    While(E, Vec<S>),
    For(Id, Vec<E>, Vec<S>, Option<Id>),
    Select(E, Vec<(Vec<E>, Vec<S>)>),
    Dim(Id, Vec<E>),
    /// outside the modelled fragment: one line of text with `{z}` placeholders and no expression positions
    /// (declarations of records, record assignment, array / record arguments)
    Raw(String),
}

#[derive(Clone)]
struct Prog {
    defint: bool,
    /// uses records, arrays of records, array and record parameters (outside the Lean model)
    ext: bool,
    body: Vec<S>,
}

fn e_text(e: &E, ren: bool) -> String {
    match e {
        E::Lit(_, s) => s.clone(),
        E::Var(x) => x.text(ren),
        E::Paren(a) => format!("({})", e_text(a, ren)),
        E::Neg(a) => format!("-{}", e_text(a, ren)),
        E::Not(a) => format!("NOT {}", e_text(a, ren)),
        E::Bin(_, sym, l, r) => format!("{} {} {}", e_text(l, ren), sym, e_text(r, ren)),
        E::Call(f, a) => format!("{}({})", f.text(ren), a.iter().map(|x| e_text(x, ren)).collect::<Vec<_>>().join(", ")),
        E::Bi(b, a) => format!("{}({})", BUILTINS[*b].1, a.iter().map(|x| e_text(x, ren)).collect::<Vec<_>>().join(", ")),
        E::Ext(t, _) => t.replace("{z}", if ren { "ZQ" } else { "" }),
    }
}
fn e_sx(e: &E, ren: bool) -> String {
    match e {
        E::Lit(t, _) => format!("(l {})", tname(*t)),
        E::Var(x) => format!("(v {})", x.sx(ren)),
        E::Paren(a) => format!("(p {})", e_sx(a, ren)),
        E::Neg(a) => format!("(neg {})", e_sx(a, ren)),
        E::Not(a) => format!("(not {})", e_sx(a, ren)),
        E::Bin(op, _, l, r) => format!("(b {} {} {})", op, e_sx(l, ren), e_sx(r, ren)),
        E::Call(f, a) => format!("(c {} {})", f.sx(ren), es_sx(a, ren)),
        E::Bi(b, a) => format!("(f {} {})", BUILTINS[*b].0, es_sx(a, ren)),
        E::Ext(..) => "(ext)".to_owned(),
    }
}
fn es_sx(a: &[E], ren: bool) -> String {
    format!("({})", a.iter().map(|x| e_sx(x, ren)).collect::<Vec<_>>().join(" "))
}

/// Prints the program; returns text, model lines of the main unit, and the row of every (statement id, sub-line).
struct Printed {
    text: String,
    lines: Vec<String>,
    rows: BTreeMap<(usize, usize), usize>,
    next_rows: BTreeMap<usize, usize>,
}
struct Printer {
    ren: bool,
    out: Vec<String>,
    lines: Vec<String>,
    rows: BTreeMap<(usize, usize), usize>,
    next_rows: BTreeMap<usize, usize>,
    sid: usize,
}
impl Printer {
    fn row(&self) -> usize {
        self.out.len() + 1
    }
    fn stmts(&mut self, ss: &[S], ind: usize) {
        for s in ss {
            self.stmt(s, ind);
        }
    }
    fn emit(&mut self, ind: usize, t: String) {
        self.out.push(format!("{}{}", " ".repeat(ind), t));
    }
    fn stmt(&mut self, s: &S, ind: usize) {
        let id = self.sid;
        self.sid += 1;
        let row = self.row();
        self.rows.insert((id, 0), row);
        let r = self.ren;
        match s {
            S::Assign(l, v) => {
                self.emit(ind, format!("{} = {}", e_text(l, r), e_text(v, r)));
                self.lines.push(format!("(assign {} {} {})", row, e_sx(l, r), e_sx(v, r)));
            }
            S::Print(items) => {
                self.emit(ind, format!("PRINT {}", items.iter().map(|x| e_text(x, r)).collect::<Vec<_>>().join("; ")));
                self.lines.push(format!("(print {} {})", row, es_sx(items, r)));
            }
            S::CallSub(f, a) => {
                self.emit(ind, format!("{} {}", f.text(r), a.iter().map(|x| e_text(x, r)).collect::<Vec<_>>().join(", ")));
                self.lines.push(format!("(call {} {} {})", row, f.sx(r), es_sx(a, r)));
            }
            S::Goto(l) => {
                self.emit(ind, format!("GOTO {}", l.text(r)));
                self.lines.push(format!("(jump {} {})", row, l.sx(r)));
            }
            S::Label(l) => {
                self.emit(0, format!("{}:", l.text(r)));
                self.lines.push(format!("(label {} {})", row, l.sx(r)));
            }
            S::If(c, t, e) => {
                self.emit(ind, format!("IF {} THEN", e_text(c, r)));
                self.lines.push(format!("(cond {} {})", row, e_sx(c, r)));
                self.stmts(t, ind + 2);
                self.lines.push(format!("(condEnd {} {})", row, e_sx(c, r)));
                if let Some(e) = e {
                    self.emit(ind, "ELSE".into());
                    self.stmts(e, ind + 2);
                }
                self.emit(ind, "END IF".into());
            }
            S::While(c, b) => {
                self.emit(ind, format!("WHILE {}", e_text(c, r)));
                self.lines.push(format!("(cond {} {})", row, e_sx(c, r)));
                self.stmts(b, ind + 2);
                self.lines.push(format!("(condEnd {} {})", row, e_sx(c, r)));
                self.emit(ind, "WEND".into());
            }
            S::For(v, b, body, next) => {
                let step = if b.len() == 3 { format!(" STEP {}", e_text(&b[2], r)) } else { String::new() };
                self.emit(ind, format!("FOR {} = {} TO {}{}", v.text(r), e_text(&b[0], r), e_text(&b[1], r), step));
                let at = self.lines.len();
                self.lines.push(String::new());
                self.stmts(body, ind + 2);
                let nrow = self.row();
                self.next_rows.insert(id, nrow);
                self.emit(ind, match next {
                    Some(n) => format!("NEXT {}", n.text(r)),
                    None => "NEXT".into(),
                });
                self.lines[at] = format!("(for {} {} {} {} {})", row, v.sx(r), es_sx(b, r), nrow, next.as_ref().map(|n| n.sx(r)).unwrap_or("none".into()));
            }
            S::Select(e, cases) => {
                self.emit(ind, format!("SELECT CASE {}", e_text(e, r)));
                self.lines.push(format!("(select {} {})", row, e_sx(e, r)));
                for (k, (items, body)) in cases.iter().enumerate() {
                    let crow = self.row();
                    self.rows.insert((id, 1 + k), crow);
                    self.emit(ind, format!("CASE {}", items.iter().map(|x| e_text(x, r)).collect::<Vec<_>>().join(", ")));
                    self.lines.push(format!("(case {} {} {})", crow, e_sx(e, r), es_sx(items, r)));
                    self.stmts(body, ind + 2);
                }
                self.emit(ind, "END SELECT".into());
            }
            S::Raw(t) => {
                self.emit(ind, t.replace("{z}", if r { "ZQ" } else { "" }));
                self.lines.push("(ext)".to_owned());
            }
            S::Dim(a, b) => {
                self.emit(ind, format!("DIM {}({})", a.text(r), b.iter().map(|x| e_text(x, r)).collect::<Vec<_>>().join(", ")));
                self.lines.push(format!("(dim {} {} {})", row, a.sx(r), es_sx(b, r)));
            }
        }
    }
}

fn fa() -> Id { Id::new("FA", Some(T::Int)) }
fn fb() -> Id { Id::new("FB", Some(T::Str)) }
fn sa() -> Id { Id::new("SA", None) }
fn sb() -> Id { Id::new("SB", None) }
fn ar() -> Id { Id::new("AR", Some(T::Int)) }
fn at() -> Id { Id::new("AT", Some(T::Str)) }

fn print_prog(p: &Prog, ren: bool) -> Printed {
    let mut pr = Printer { ren, out: vec![], lines: vec![], rows: BTreeMap::new(), next_rows: BTreeMap::new(), sid: 0 };
    if p.defint {
        pr.out.push("DEFINT I-K".into());
        pr.out.push("DEFSTR S".into());
    }
    let z = if ren { "ZQ" } else { "" };
    if p.ext {
        pr.out.push(format!("TYPE CARD{z}"));
        pr.out.push("  VALUE AS INTEGER".into());
        pr.out.push("  SUIT AS STRING * 5".into());
        pr.out.push("END TYPE".into());
    }
    pr.stmts(&p.body, 0);
    pr.out.push("END".into());
    pr.out.push(format!("FUNCTION FA{z}% (PA{z}%)\n  FA{z}% = PA{z}% + 1\nEND FUNCTION"));
    pr.out.push(format!("FUNCTION FB{z}$ (PA{z}$, PB{z}!)\n  FB{z}$ = PA{z}$ + \"!\"\nEND FUNCTION"));
    pr.out.push(format!("SUB SA{z} (PA{z}%)\n  PA{z}% = PA{z}% + 1\nEND SUB"));
    pr.out.push(format!("SUB SB{z} (PA{z}$, PB{z}#)\n  PA{z}$ = \"s\"\nEND SUB"));
    if p.ext {
        pr.out.push(format!("SUB SC{z} (PA{z}%(), PB{z}%)\n  PA{z}%(PB{z}%) = 7\nEND SUB"));
        pr.out.push(format!("SUB SD{z} (PA{z} AS CARD{z})\n  PA{z}.VALUE = PA{z}.VALUE + 1\nEND SUB"));
    }
    Printed { text: pr.out.join("\n") + "\n", lines: pr.lines, rows: pr.rows, next_rows: pr.next_rows }
}

fn deft_sx(defint: bool) -> String {
    let v: Vec<&str> = (0..26u8)
        .map(|i| {
            let c = b'A' + i;
            if defint && (b'I'..=b'K').contains(&c) { "int" } else if defint && c == b'S' { "str" } else { "sgl" }
        })
        .collect();
    format!("({})", v.join(" "))
}

fn model_request(p: &Prog, pr: &Printed, ren: bool) -> Option<String> {
    if p.ext || pr.lines.iter().any(|l| l.contains("(ext)")) {
        return None;
    }
    Some(model_request_in(p, pr, ren))
}

fn model_request_in(p: &Prog, pr: &Printed, ren: bool) -> String {
    let prm = |b: &str, s: T| Id::new(b, Some(s)).sx(ren);
    format!(
        "(ty.lint {} ({} {}) (({} ({})) ({} ({} {}))) (({} ({})) ({} ({} {}))) (({})))",
        deft_sx(p.defint), ar().sx(ren), at().sx(ren),
        fa().sx(ren), prm("PA", T::Int), fb().sx(ren), prm("PA", T::Str), prm("PB", T::Sgl),
        sa().sx(ren), prm("PA", T::Int), sb().sx(ren), prm("PA", T::Str), prm("PB", T::Dbl),
        pr.lines.join(" ")
    )
}

// ---- generator ---------------------------------------------------------------------------------

struct Gen<'a> {
    rng: &'a mut Rng,
    defint: bool,
    ext: bool,
    labels: u32,
}
impl<'a> Gen<'a> {
    fn var(&mut self, t: T) -> Id {
        // suffixed names, and bare names typed by DEFtype
        let bare_ok: &[&str] = match t {
            T::Sgl => if self.defint { &["X", "Y"] } else { &["X", "Y", "IB", "SB2"] },
            T::Int => if self.defint { &["IB", "JC"] } else { &[] },
            T::Str => if self.defint { &["SB2"] } else { &[] },
            _ => &[],
        };
        if !bare_ok.is_empty() && self.rng.chance(1, 3) {
            let b: &str = bare_ok[self.rng.below(bare_ok.len() as u64) as usize];
            return Id::new(b, None);
        }
        let n = *self.rng.pick(&["QA", "QB", "IQ"]);
        Id::new(&format!("{}{}", n, tname(t).to_uppercase()), Some(t))
    }
    fn num_t(&mut self) -> T {
        *self.rng.pick(&[T::Int, T::Int, T::Long, T::Sgl, T::Dbl])
    }
    fn lit(&mut self, t: T) -> E {
        let s = match t {
            T::Int => format!("{}", self.rng.range(0, 9)),
            T::Long => format!("{}", self.rng.range(40000, 40009)),
            T::Sgl => format!("{}.5", self.rng.range(0, 9)),
            T::Dbl => format!("{}.25#", self.rng.range(0, 9)),
            T::Str => format!("\"{}\"", self.rng.pick(&["", "a", "Hi", "x y"])),
        };
        E::Lit(t, s)
    }
    fn num(&mut self, d: u32) -> E {
        if self.ext && self.rng.chance(1, 6) {
            let t = *self.rng.pick(&["RC{z}.VALUE", "RA{z}(2).VALUE", "RA{z}(AR{z}%(1) + 1).VALUE", "UBOUND(AR{z}%)", "LBOUND(AT{z}$)", "LEN(RC{z})", "LEN(RA{z}(1))"]);
            return E::Ext(t.to_owned(), false);
        }
        let t = self.num_t();
        if d == 0 || self.rng.chance(1, 3) {
            return if self.rng.chance(1, 2) { E::Var(self.var(t)) } else { self.lit(t) };
        }
        match self.rng.below(12) {
            0 | 1 => {
                let (o, s) = *self.rng.pick(&[("plus", "+"), ("minus", "-"), ("multiply", "*")]);
                E::Bin(o, s, Box::new(self.atom(d - 1)), Box::new(self.atom(d - 1)))
            }
            2 => E::Paren(Box::new(self.num(d - 1))),
            3 => E::Neg(Box::new(self.atom(d - 1))),
            4 => {
                let (o, s) = *self.rng.pick(&[("less", "<"), ("equal", "="), ("notEqual", "<>"), ("greaterOrEqual", ">=")]);
                if self.rng.chance(1, 2) {
                    E::Paren(Box::new(E::Bin(o, s, Box::new(self.atom(d - 1)), Box::new(self.atom(d - 1)))))
                } else {
                    E::Paren(Box::new(E::Bin(o, s, Box::new(self.satom(d - 1)), Box::new(self.satom(d - 1)))))
                }
            }
            5 => E::Call(ar(), vec![self.num(d - 1)]),
            6 => {
                // by reference: an INTEGER variable; by value: any numeric expression that is not a variable
                let a = if self.rng.chance(1, 2) { E::Var(self.var(T::Int)) } else { E::Paren(Box::new(self.num(d - 1))) };
                E::Call(fa(), vec![a])
            }
            7 => E::Bi(13, vec![self.str(d - 1)]),
            8 => if self.rng.chance(1, 2) { E::Bi(11, vec![self.str(d - 1), self.str(d - 1)]) } else { E::Bi(11, vec![self.num(d - 1), self.str(d - 1), self.str(d - 1)]) },
            9 => E::Bi(7, vec![self.str(d - 1)]),
            10 => E::Paren(Box::new(E::Bin(*self.rng.pick(&["and", "or"]), "AND", Box::new(self.atom(d - 1)), Box::new(self.atom(d - 1))))),
            _ => E::Call(Id::new("UG", None), vec![self.num(d - 1)]),
        }
    }
    /// a numeric operand that needs no parentheses
    fn atom(&mut self, d: u32) -> E {
        let e = self.num(d);
        match e {
            E::Bin(..) | E::Neg(_) | E::Not(_) => E::Paren(Box::new(e)),
            _ => e,
        }
    }
    fn satom(&mut self, d: u32) -> E {
        let e = self.str(d);
        match e {
            E::Bin(..) => E::Paren(Box::new(e)),
            _ => e,
        }
    }
    fn str(&mut self, d: u32) -> E {
        if self.ext && self.rng.chance(1, 6) {
            let t = *self.rng.pick(&["RC{z}.SUIT", "RA{z}(1).SUIT"]);
            return E::Ext(t.to_owned(), true);
        }
        if d == 0 || self.rng.chance(1, 3) {
            return if self.rng.chance(1, 2) { E::Var(self.var(T::Str)) } else { self.lit(T::Str) };
        }
        match self.rng.below(12) {
            0 | 1 => E::Bin("plus", "+", Box::new(self.satom(d - 1)), Box::new(self.satom(d - 1))),
            2 => E::Paren(Box::new(self.str(d - 1))),
            3 => E::Call(at(), vec![self.num(d - 1)]),
            4 => {
                let a = if self.rng.chance(1, 2) { E::Var(self.var(T::Str)) } else { self.satom(d - 1) };
                let b = if self.rng.chance(1, 2) { E::Var(self.var(T::Sgl)) } else { E::Paren(Box::new(self.num(d - 1))) };
                E::Call(fb(), vec![a, b])
            }
            5 => E::Bi(*self.rng.pick(&[1usize, 2, 3, 4]), vec![self.str(d - 1)]),
            6 => E::Bi(*self.rng.pick(&[8usize, 9]), vec![self.str(d - 1), self.num(d - 1)]),
            7 => if self.rng.chance(1, 2) { E::Bi(10, vec![self.str(d - 1), self.num(d - 1)]) } else { E::Bi(10, vec![self.str(d - 1), self.num(d - 1), self.num(d - 1)]) },
            8 => E::Bi(6, vec![self.num(d - 1)]),
            9 => E::Bi(*self.rng.pick(&[0usize, 5]), vec![self.num(d - 1)]),
            10 => E::Bi(12, vec![self.num(d - 1), if self.rng.chance(1, 2) { self.num(d - 1) } else { self.str(d - 1) }]),
            _ => E::Call(Id::new("UH", Some(T::Str)), vec![self.num(d - 1)]),
        }
    }
    fn stmt(&mut self, d: u32, out: &mut Vec<S>) {
        if self.ext && self.rng.chance(1, 5) {
            match self.rng.below(4) {
                0 => out.push(S::Assign(E::Ext("RC{z}.VALUE".into(), false), self.num(2))),
                1 => out.push(S::Assign(E::Ext("RA{z}(2).SUIT".into(), true), self.str(2))),
                2 => out.push(S::Assign(E::Ext("RA{z}(1).VALUE".into(), false), self.num(2))),
                _ => {
                    let t = *self.rng.pick(&["RD{z} = RC{z}", "RA{z}(2) = RC{z}", "RC{z} = RA{z}(3)", "SC{z} AR{z}%(), 2", "SD{z} RC{z}", "SD{z} RA{z}(1)"]);
                    out.push(S::Raw(t.to_owned()));
                }
            }
            return;
        }
        let k = if d == 0 { self.rng.below(4) } else { self.rng.below(9) };
        match k {
            0 => {
                if self.rng.chance(1, 2) {
                    let t = self.num_t();
                    let lhs = if self.rng.chance(1, 4) { E::Call(ar(), vec![self.num(1)]) } else { E::Var(self.var(t)) };
                    out.push(S::Assign(lhs, self.num(2)));
                } else {
                    let lhs = if self.rng.chance(1, 4) { E::Call(at(), vec![self.num(1)]) } else { E::Var(self.var(T::Str)) };
                    out.push(S::Assign(lhs, self.str(2)));
                }
            }
            1 => {
                let n = 1 + self.rng.below(3);
                let items = (0..n).map(|_| if self.rng.chance(1, 2) { self.num(2) } else { self.str(2) }).collect();
                out.push(S::Print(items));
            }
            2 => {
                if self.rng.chance(1, 2) {
                    let a = if self.rng.chance(1, 2) { E::Var(self.var(T::Int)) } else { E::Paren(Box::new(self.num(1))) };
                    out.push(S::CallSub(sa(), vec![a]));
                } else {
                    let a = if self.rng.chance(1, 2) { E::Var(self.var(T::Str)) } else { self.satom(1) };
                    let b = if self.rng.chance(1, 2) { E::Var(self.var(T::Dbl)) } else { E::Paren(Box::new(self.num(1))) };
                    out.push(S::CallSub(sb(), vec![a, b]));
                }
            }
            3 => {
                // forward GOTO over one statement
                self.labels += 1;
                let l = Id::new(&format!("LB{}", self.labels), None);
                out.push(S::Goto(l.clone()));
                self.stmt(0, out);
                out.push(S::Label(l));
            }
            4 => {
                let c = self.num(2);
                let mut t = vec![];
                self.block(d - 1, &mut t);
                let e = if self.rng.chance(1, 2) {
                    let mut e = vec![];
                    self.block(d - 1, &mut e);
                    Some(e)
                } else {
                    None
                };
                out.push(S::If(c, t, e));
            }
            5 => {
                let c = E::Bin("less", "<", Box::new(self.atom(1)), Box::new(E::Lit(T::Int, "0".into())));
                let mut b = vec![];
                self.block(d - 1, &mut b);
                out.push(S::While(c, b));
            }
            6 => {
                let vt = *self.rng.pick(&[T::Int, T::Int, T::Sgl]);
                let v = self.var(vt);
                let mut bounds = vec![self.num(1), E::Paren(Box::new(E::Bin("plus", "+", Box::new(E::Lit(T::Int, "1".into())), Box::new(E::Lit(T::Int, format!("{}", self.rng.below(3)))))))];
                if self.rng.chance(1, 3) {
                    bounds.push(E::Lit(T::Int, "1".into()));
                }
                let mut b = vec![];
                self.block(d - 1, &mut b);
                let next = if self.rng.chance(1, 2) { Some(v.clone()) } else { None };
                out.push(S::For(v, bounds, b, next));
            }
            7 => {
                let is_num = self.rng.chance(1, 2);
                let sel = if is_num { self.num(2) } else { self.str(2) };
                let n = 1 + self.rng.below(2);
                let mut cases = vec![];
                for _ in 0..n {
                    let m = 1 + self.rng.below(2);
                    let items = (0..m).map(|_| if is_num { self.num(1) } else { self.str(1) }).collect();
                    let mut b = vec![];
                    self.block(d - 1, &mut b);
                    cases.push((items, b));
                }
                out.push(S::Select(sel, cases));
            }
            _ => self.stmt(0, out),
        }
    }
    fn block(&mut self, d: u32, out: &mut Vec<S>) {
        let n = 1 + self.rng.below(2);
        for _ in 0..n {
            self.stmt(d, out);
        }
    }
}

fn generate(rng: &mut Rng, ext: bool) -> Prog {
    let defint = rng.chance(1, 2);
    let mut g = Gen { rng, defint, ext: false, labels: 0 };
    let mut body = vec![S::Dim(ar(), vec![E::Lit(T::Int, "10".into())]), S::Dim(at(), vec![g.num(1)])];
    g.ext = ext;
    if ext {
        for t in ["DIM RC{z} AS CARD{z}", "DIM RD{z} AS CARD{z}", "DIM RA{z}(1 TO 3) AS CARD{z}"] {
            body.push(S::Raw(t.to_owned()));
        }
        // a DIM after the declarations, so that its bounds can name them
        let b = g.num(1);
        body.push(S::Dim(Id::new("AU", Some(T::Sgl)), vec![b]));
    }
    let n = 3 + g.rng.below(4);
    for _ in 0..n {
        g.stmt(2, &mut body);
    }
    Prog { defint, ext, body }
}

// ---- mutation: rewrite the k-th sub-expression / insert at the k-th statement position ------------

struct Hit {
    stmt: usize,
    sub: usize,
    kind: String,
}

fn map_e(e: &E, k: &mut i64, f: &dyn Fn(&E) -> E, ctx: &str, hit: &mut Option<String>) -> E {
    if *k == 0 {
        *k = -1;
        *hit = Some(ctx.to_owned());
        return f(e);
    }
    if *k > 0 {
        *k -= 1;
    }
    let sub = |x: &E, k: &mut i64, c: &str, hit: &mut Option<String>| Box::new(map_e(x, k, f, &format!("{}/{}", ctx, c), hit));
    match e {
        E::Lit(..) | E::Var(_) | E::Ext(..) => e.clone(),
        E::Paren(a) => E::Paren(sub(a, k, "paren", hit)),
        E::Neg(a) => E::Neg(sub(a, k, "operand", hit)),
        E::Not(a) => E::Not(sub(a, k, "operand", hit)),
        E::Bin(o, s, l, r) => {
            let l2 = sub(l, k, "operand", hit);
            let r2 = sub(r, k, "operand", hit);
            E::Bin(o, s, l2, r2)
        }
        E::Call(fid, a) => {
            let c = if *fid == ar() || *fid == at() { "subscript" } else { "fn-arg" };
            E::Call(fid.clone(), a.iter().map(|x| *sub(x, k, c, hit)).collect())
        }
        E::Bi(b, a) => E::Bi(*b, a.iter().enumerate().map(|(i, x)| {
            let c = if BUILTINS[*b].0 == "len" { "len-arg" } else if BUILTINS[*b].0 == "string" && i == 1 { "string2-arg" } else { "builtin-arg" };
            *sub(x, k, c, hit)
        }).collect()),
    }
}

/// Rewrites the k-th sub-expression of the program (pre-order over statements).
fn map_prog(p: &Prog, k: i64, f: &dyn Fn(&E) -> E) -> Option<(Prog, Hit)> {
    let mut k = k;
    let mut sid = 0usize;
    let mut found: Option<Hit> = None;
    fn go(ss: &[S], k: &mut i64, sid: &mut usize, f: &dyn Fn(&E) -> E, found: &mut Option<Hit>) -> Vec<S> {
        let mut out = vec![];
        for s in ss {
            let id = *sid;
            *sid += 1;
            let mut one = |e: &E, ctx: &str, subline: usize, k: &mut i64, found: &mut Option<Hit>| -> E {
                let mut h = None;
                let r = map_e(e, k, f, &format!("{}/top", ctx), &mut h);
                if let Some(kind) = h {
                    *found = Some(Hit { stmt: id, sub: subline, kind });
                }
                r
            };
            out.push(match s {
                S::Assign(l, v) => {
                    // the left side itself is not an expression position; its indices are
                    let l2 = match l {
                        E::Call(a, idx) => E::Call(a.clone(), idx.iter().map(|x| one(x, "assign-lhs-subscript", 0, k, found)).collect()),
                        _ => l.clone(),
                    };
                    S::Assign(l2, one(v, "assign-rhs", 0, k, found))
                }
                S::Print(items) => S::Print(items.iter().map(|x| one(x, "print-item", 0, k, found)).collect()),
                S::CallSub(n, a) => S::CallSub(n.clone(), a.iter().map(|x| one(x, "sub-arg", 0, k, found)).collect()),
                S::Goto(_) | S::Label(_) | S::Raw(_) => s.clone(),
                S::If(c, t, e) => {
                    let c2 = one(c, "if-cond", 0, k, found);
                    let t2 = go(t, k, sid, f, found);
                    let e2 = e.as_ref().map(|e| go(e, k, sid, f, found));
                    S::If(c2, t2, e2)
                }
                S::While(c, b) => {
                    let c2 = one(c, "while-cond", 0, k, found);
                    S::While(c2, go(b, k, sid, f, found))
                }
                S::For(v, b, body, n) => {
                    let b2 = b.iter().map(|x| one(x, "for-bound", 0, k, found)).collect();
                    S::For(v.clone(), b2, go(body, k, sid, f, found), n.clone())
                }
                S::Select(e, cases) => {
                    let e2 = one(e, "select-expr", 0, k, found);
                    let mut c2 = vec![];
                    for (ci, (items, body)) in cases.iter().enumerate() {
                        let i2 = items.iter().map(|x| one(x, "case-item", 1 + ci, k, found)).collect();
                        c2.push((i2, go(body, k, sid, f, found)));
                    }
                    S::Select(e2, c2)
                }
                S::Dim(a, b) => S::Dim(a.clone(), b.iter().map(|x| one(x, "dim-bound", 0, k, found)).collect()),
            });
        }
        out
    }
    let body = go(&p.body, &mut k, &mut sid, f, &mut found);
    found.map(|h| (Prog { defint: p.defint, ext: p.ext, body }, h))
}

/// Inserts a statement before the k-th statement (pre-order, nested blocks included).
fn insert_stmt(p: &Prog, k: usize, new: &S) -> Option<(Prog, usize, String)> {
    fn go(ss: &[S], k: usize, sid: &mut usize, new: &S, done: &mut Option<(usize, String)>, where_: &str) -> Vec<S> {
        let mut out = vec![];
        for s in ss {
            if done.is_none() && *sid == k {
                *done = Some((*sid, where_.to_owned()));
                out.push(new.clone());
                *sid += 1;
            }
            *sid += 1;
            out.push(match s {
                S::If(c, t, e) => {
                    let t2 = go(t, k, sid, new, done, "if-block");
                    let e2 = e.as_ref().map(|e| go(e, k, sid, new, done, "else-block"));
                    S::If(c.clone(), t2, e2)
                }
                S::While(c, b) => S::While(c.clone(), go(b, k, sid, new, done, "while-block")),
                S::For(v, b, body, n) => S::For(v.clone(), b.clone(), go(body, k, sid, new, done, "for-block"), n.clone()),
                S::Select(e, cases) => S::Select(e.clone(), cases.iter().map(|(i, b)| (i.clone(), go(b, k, sid, new, done, "case-block"))).collect()),
                _ => s.clone(),
            });
        }
        out
    }
    let mut sid = 0;
    let mut done = None;
    let body = go(&p.body, k, &mut sid, new, &mut done, "top-level");
    done.map(|(id, w)| (Prog { defint: p.defint, ext: p.ext, body }, id, w))
}

fn is_str(e: &E, defint: bool) -> bool {
    match e {
        E::Lit(t, _) => *t == T::Str,
        E::Var(x) | E::Call(x, _) => x.sfx == Some(T::Str) || (x.sfx.is_none() && defint && x.bare.starts_with('S')),
        E::Paren(a) => is_str(a, defint),
        E::Neg(_) | E::Not(_) => false,
        E::Bin(op, _, l, _) => *op == "plus" && is_str(l, defint),
        E::Bi(b, _) => !matches!(BUILTINS[*b].0, "val" | "instr" | "len"),
        E::Ext(_, s) => *s,
    }
}

// ---- the real checker ---------------------------------------------------------------------------

fn real_lint(text: &str) -> String {
    let t = text.to_owned();
    match catch_unwind(AssertUnwindSafe(move || match rusty_parser::parse_main_str(t) {
        Err(e) => format!("(parse-error {:?})", e),
        Ok(p) => match rusty_linter::core::lint(p) {
            Ok(_) => "ok".to_owned(),
            Err(e) => format!("(err {:?} {})", e.element, e.pos.row()),
        },
    })) {
        Ok(s) => s,
        Err(_) => "(panic)".to_owned(),
    }
}

/// Runs an accepted program; Some(description) if it ends with a wrong-kind failure.
fn run_wrong_kind(text: &str) -> Option<String> {
    let t = text.to_owned();
    let r = catch_unwind(AssertUnwindSafe(move || rusty_basic::interpreter::verif::run_in_memory(&t, b"1\n2\n3\n", 20_000, None, false)));
    match r {
        Ok(Ok(rr)) => match rr.result {
            Err(e) => {
                let s = format!("{:?}", e);
                if s.contains("TypeMismatch") { Some(s) } else { None }
            }
            Ok(()) => None,
        },
        Ok(Err(_)) => None,
        Err(p) => {
            let msg = p.downcast_ref::<String>().cloned().or(p.downcast_ref::<&str>().map(|s| s.to_string())).unwrap_or_default();
            let m = msg.to_lowercase();
            if m.contains("variant was not") || m.contains("not a string") || m.contains("not found") || m.contains("mismatch") || m.contains("cast") {
                Some(format!("panic: {}", msg))
            } else {
                None
            }
        }
    }
}

fn variant_of(v: &str) -> String {
    v.trim_start_matches("(err ").split(' ').next().unwrap_or("").to_owned()
}

fn main() {
    std::panic::set_hook(Box::new(|_| {}));
    let mut rng = Rng::from_env();
    let mut rep = Report::new(
        "C12",
        "verdict (accept | LintError variant + row) of the Lean model = verdict of rusty_linter::core::lint on generated programs, all their single-edit mutants and renamed copies; accepted programs never end in a wrong-kind failure at run time; every fault at every position is rejected with the family's error at the edited row; distinct = (fault family, syntactic position kind, verdict)",
    );
    let thorough = rep.is_thorough();
    let n_progs = if thorough { 100 } else { 12 };
    let str_x = || E::Lit(T::Str, "\"x\"".into());

    #[derive(Clone)]
    enum Expect {
        Accept,
        Exact(&'static str, usize),
        AnyOf(&'static [&'static str], Vec<usize>),
    }
    struct Case {
        text: String,
        /// None: the program is outside the Lean model's fragment (records, whole arrays, array parameters)
        model_req: Option<String>,
        family: String,
        pos: String,
        expect: Expect,
        renamed_text: Option<String>,
        renamed_req: Option<String>,
    }
    /// statement kind + innermost container of a position (the full chain is kept for the eligibility rules)
    fn short(kind: &str) -> String {
        let v: Vec<&str> = kind.split('/').collect();
        format!("{}/{}", v[0], v[v.len() - 1])
    }
    /// the containers of a position with the trailing parentheses removed; "" if the position is the value
    /// of the statement's expression itself (possibly in parentheses)
    fn owner(kind: &str) -> String {
        let v: Vec<&str> = kind.split('/').collect();
        let mut rest: Vec<&str> = v[1..].iter().cloned().filter(|s| *s != "top").collect();
        while rest.last() == Some(&"paren") {
            rest.pop();
        }
        rest.last().map(|s| s.to_string()).unwrap_or_default()
    }
    let mut cases: Vec<Case> = vec![];
    for pi in 0..n_progs {
        // every other program uses records, arrays of records and array / record parameters
        let p = generate(&mut rng, pi % 2 == 1);
        let pr = print_prog(&p, false);
        let prr = print_prog(&p, true);
        cases.push(Case { text: pr.text.clone(), model_req: model_request(&p, &pr, false), family: if p.ext { "original-with-records".into() } else { "original".into() }, pos: "-".into(), expect: Expect::Accept,
            renamed_text: Some(prr.text.clone()), renamed_req: model_request(&p, &prr, true) });
        // expression-level fault families at every expression position
        type Mk = Box<dyn Fn(&E) -> E>;
        let defint = p.defint;
        // `e` becomes `(e) + <faulty call of the kind of e>`
        fn wrap(e: &E, bad_num: E, bad_str: E, defint: bool) -> E {
            let bad = if is_str(e, defint) { bad_str } else { bad_num };
            E::Paren(Box::new(E::Bin("plus", "+", Box::new(E::Paren(Box::new(e.clone()))), Box::new(bad))))
        }
        let i = |n: &str| E::Lit(T::Int, n.to_owned());
        let st = |n: &str| E::Lit(T::Str, format!("\"{}\"", n));
        let fams: Vec<(&'static str, &'static str, Mk)> = vec![
            ("string-operand-for-arithmetic", "TypeMismatch", Box::new(move |e: &E| E::Paren(Box::new(E::Bin("multiply", "*", Box::new(E::Paren(Box::new(e.clone()))), Box::new(E::Lit(T::Str, "\"x\"".into()))))))),
            ("wrong-argument-count", "ArgumentCountMismatch", Box::new(move |e: &E| wrap(e, E::Call(fa(), vec![i("1"), i("2")]), E::Call(fb(), vec![st("a")]), defint))),
            ("wrong-builtin-argument-count", "ArgumentCountMismatch", Box::new(move |e: &E| wrap(e, E::Bi(13, vec![st("a"), st("b")]), E::Bi(8, vec![st("a")]), defint))),
            ("wrong-by-reference-type", "ArgumentTypeMismatch", Box::new(move |e: &E| wrap(e, E::Call(fa(), vec![E::Var(Id::new("QALONG", Some(T::Long)))]), E::Call(fb(), vec![E::Var(Id::new("QAINT", Some(T::Int))), i("1")]), defint))),
            ("wrong-builtin-argument-type", "ArgumentTypeMismatch", Box::new(move |e: &E| wrap(e, E::Bi(7, vec![i("5")]), E::Bi(2, vec![i("5")]), defint))),
        ];
        let _ = str_x;
        // the numeric-valued wrappers only fit numeric positions: they are applied where the model types the
        // original sub-expression as numeric; at string positions the string variants are used
        let mut k = 0i64;
        loop {
            // find out whether position k exists and whether it is numeric (ask by a probe rewrite)
            let probe = map_prog(&p, k, &|e: &E| e.clone());
            if probe.is_none() {
                break;
            }
            for (fam, variant, mk) in fams.iter() {
                // only every third program gets all families at all positions in the quick tier
                if !thorough && (*fam != "string-operand-for-arithmetic" || p.ext) && (pi + k as usize) % 3 != 0 {
                    continue;
                }
                if let Some((q, hit)) = map_prog(&p, k, mk.as_ref()) {
                    let qp = print_prog(&q, false);
                    let row = *qp.rows.get(&(hit.stmt, hit.sub)).unwrap();
                    cases.push(Case { text: qp.text.clone(), model_req: model_request(&q, &qp, false), family: fam.to_string(), pos: short(&hit.kind), expect: Expect::Exact(variant, row), renamed_text: None, renamed_req: None });
                }
            }
            // ---- an operand of the wrong kind / a non-scalar operand IN PLACE of the expression at position k
            let orig_is_str = std::cell::Cell::new(false);
            let _ = map_prog(&p, k, &|e: &E| { orig_is_str.set(is_str(e, defint)); e.clone() });
            let was_str = orig_is_str.get();
            let edited_row = |qp: &Printed, hit: &Hit| -> Vec<usize> {
                // the type of a SELECT CASE expression is tested against each CASE item: the error may be located
                // at the first CASE line of the edited SELECT CASE statement instead of its first line
                let mut rows = vec![*qp.rows.get(&(hit.stmt, hit.sub)).unwrap()];
                if hit.kind.starts_with("select-expr") && owner(&hit.kind).is_empty() {
                    rows.push(*qp.rows.get(&(hit.stmt, 1)).unwrap());
                }
                rows
            };
            {
                let fam = if was_str { "wrong-kind-operand(number-for-string)" } else { "wrong-kind-operand(string-for-number)" };
                let mk = move |_: &E| if was_str { E::Lit(T::Int, "5".into()) } else { E::Lit(T::Str, "\"a\"".into()) };
                if let Some((q, hit)) = map_prog(&p, k, &mk) {
                    let own = owner(&hit.kind);
                    // positions that take either kind: a PRINT item, the second argument of STRING$, LEN of a string
                    let legit = (hit.kind.starts_with("print-item") && own.is_empty()) || own == "string2-arg" || (own == "len-arg" && !was_str);
                    if !legit {
                        let qp = print_prog(&q, false);
                        let row = edited_row(&qp, &hit);
                        cases.push(Case { text: qp.text.clone(), model_req: model_request(&q, &qp, false), family: fam.into(), pos: short(&hit.kind), expect: Expect::AnyOf(&["TypeMismatch", "ArgumentTypeMismatch", "VariableRequired"], row), renamed_text: None, renamed_req: None });
                    }
                }
            }
            // ---- a unary operator over a string-valued expression at position k (after a wave-12 seed: the unary check
            // took "the operand is a binary expression with a built-in result type" for "numeric", so `NOT A$ + B$` -
            // NOT binds weaker than + - was accepted and failed at run time)
            if was_str {
                let sx = |n: &str| E::Lit(T::Str, format!("\"{}\"", n));
                let cat = |e: &E| E::Bin("plus", "+", Box::new(e.clone()), Box::new(sx("x")));
                // the whole mutant in parentheses: NOT binds weaker than the relational operators, `NOT a$ < b$` is legal
                let par = |e: E| E::Paren(Box::new(e));
                let unary: Vec<(&'static str, Box<dyn Fn(&E) -> E>)> = vec![
                    ("unary-on-string(not-concat)", Box::new(move |e: &E| par(E::Not(Box::new(cat(e)))))),
                    ("unary-on-string(neg-paren-concat)", Box::new(move |e: &E| par(E::Neg(Box::new(E::Paren(Box::new(cat(e)))))))),
                    ("unary-on-string(not-paren-concat)", Box::new(move |e: &E| par(E::Not(Box::new(E::Paren(Box::new(cat(e)))))))),
                    ("unary-on-string(not)", Box::new(move |e: &E| par(E::Not(Box::new(E::Paren(Box::new(e.clone()))))))),
                    ("unary-on-string(neg)", Box::new(move |e: &E| par(E::Neg(Box::new(E::Paren(Box::new(e.clone()))))))),
                ];
                for (ui, (fam, mk)) in unary.iter().enumerate() {
                    // thinned in both tiers (the thorough tier is sized to its time limit): the first mutant at every
                    // string position, the others at every third; thorough: on every third program only
                    if (ui > 0 && (pi + k as usize + ui) % 3 != 0) || (thorough && pi % 3 != 0) {
                        continue;
                    }
                    if let Some((q, hit)) = map_prog(&p, k, mk.as_ref()) {
                        let qp = print_prog(&q, false);
                        let row = edited_row(&qp, &hit);
                        cases.push(Case { text: qp.text.clone(), model_req: None, family: fam.to_string(), pos: short(&hit.kind), expect: Expect::AnyOf(&["TypeMismatch", "ArgumentTypeMismatch", "VariableRequired"], row), renamed_text: None, renamed_req: None });
                    }
                }
            }
            if p.ext {
                let classes: [(&str, &str); 5] = [("whole-array", "AR{z}%()"), ("record", "RC{z}"), ("whole-array", "AT{z}$()"), ("record-element", "RA{z}(1)"), ("whole-array-of-records", "RA{z}()")];
                for (ci, (class, text)) in classes.iter().enumerate() {
                    if !thorough && (pi + k as usize + ci) % 5 > 1 {
                        continue;
                    }
                    let t = text.to_string();
                    let mk = move |_: &E| E::Ext(t.clone(), false);
                    if let Some((q, hit)) = map_prog(&p, k, &mk) {
                        // LEN takes a record variable
                        if owner(&hit.kind) == "len-arg" && class.starts_with("record") {
                            continue;
                        }
                        // the first two DIM statements precede the declarations of the operands
                        if hit.stmt < 2 {
                            continue;
                        }
                        let qp = print_prog(&q, false);
                        let row = edited_row(&qp, &hit);
                        cases.push(Case { text: qp.text.clone(), model_req: None, family: format!("non-scalar-operand({})", class), pos: short(&hit.kind), expect: Expect::AnyOf(&["TypeMismatch", "ArgumentTypeMismatch", "VariableRequired"], row), renamed_text: None, renamed_req: None });
                    }
                }
            }
            k += 1;
        }
        // statement-level families at every statement position
        let nstmts = print_prog(&p, false).rows.keys().map(|(s, _)| *s).max().unwrap_or(0) + 1;
        for s in 0..nstmts {
            let inserts: Vec<(&'static str, &'static str, S)> = vec![
                ("missing-label", "LabelNotDefined", S::Goto(Id::new("NOLABEL", None))),
                ("duplicate-definition", "DuplicateDefinition", S::Dim(ar(), vec![E::Lit(T::Int, "5".into())])),
                // the dimensions are converted before the name is looked up (array_to_dim_type): a second DIM
                // with a string bound is a TypeMismatch, not a DuplicateDefinition (convUnit of the model)
                ("duplicate-definition(string bound)", "TypeMismatch", S::Dim(ar(), vec![E::Lit(T::Str, "\"x\"".into())])),
                ("wrong-sub-argument-count", "ArgumentCountMismatch", S::CallSub(sa(), vec![E::Lit(T::Int, "1".into()), E::Lit(T::Int, "2".into())])),
                ("wrong-sub-by-reference-type", "ArgumentTypeMismatch", S::CallSub(sa(), vec![E::Var(Id::new("QASTR", Some(T::Str)))])),
            ];
            for (fam, variant, st) in inserts {
                if !thorough && (pi + s) % 2 != 0 {
                    continue;
                }
                if fam.starts_with("duplicate-definition") && s < 2 {
                    // before the program's own DIM the inserted DIM is the first definition
                    continue;
                }
                if let Some((q, id, w)) = insert_stmt(&p, s, &st) {
                    let qp = print_prog(&q, false);
                    let row = *qp.rows.get(&(id, 0)).unwrap();
                    cases.push(Case { text: qp.text.clone(), model_req: model_request(&q, &qp, false), family: fam.to_string(), pos: w, expect: Expect::Exact(variant, row), renamed_text: None, renamed_req: None });
                }
            }
        }
        // NEXT for the wrong counter: every FOR
        fn for_ids(ss: &[S], sid: &mut usize, out: &mut Vec<usize>) {
            for s in ss {
                let id = *sid;
                *sid += 1;
                match s {
                    S::For(_, _, b, _) => { out.push(id); for_ids(b, sid, out); }
                    S::If(_, t, e) => { for_ids(t, sid, out); if let Some(e) = e { for_ids(e, sid, out); } }
                    S::While(_, b) => for_ids(b, sid, out),
                    S::Select(_, cs) => { for (_, b) in cs { for_ids(b, sid, out); } }
                    _ => {}
                }
            }
        }
        let mut fids = vec![];
        for_ids(&p.body, &mut 0, &mut fids);
        for fid in fids {
            fn set_next(ss: &[S], sid: &mut usize, target: usize) -> Vec<S> {
                ss.iter().map(|s| {
                    let id = *sid;
                    *sid += 1;
                    match s {
                        S::For(v, b, body, n) => {
                            let body2 = set_next(body, sid, target);
                            let n2 = if id == target { Some(Id::new("WRONGCOUNTER", Some(T::Int))) } else { n.clone() };
                            S::For(v.clone(), b.clone(), body2, n2)
                        }
                        S::If(c, t, e) => { let t2 = set_next(t, sid, target); let e2 = e.as_ref().map(|e| set_next(e, sid, target)); S::If(c.clone(), t2, e2) }
                        S::While(c, b) => S::While(c.clone(), set_next(b, sid, target)),
                        S::Select(e, cs) => S::Select(e.clone(), cs.iter().map(|(i, b)| (i.clone(), set_next(b, sid, target))).collect()),
                        _ => s.clone(),
                    }
                }).collect()
            }
            let q = Prog { defint: p.defint, ext: p.ext, body: set_next(&p.body, &mut 0, fid) };
            let qp = print_prog(&q, false);
            let row = *qp.next_rows.get(&fid).unwrap();
            cases.push(Case { text: qp.text.clone(), model_req: model_request(&q, &qp, false), family: "next-for-the-wrong-counter".into(), pos: "for".into(), expect: Expect::Exact("NextWithoutFor", row), renamed_text: None, renamed_req: None });
        }
    }

    // family deep-position (after a wave-8 seed: a walker that no longer looked into the owner of a two-level
    // property chain): a fault at EVERY nested expression position the grammar offers — subscripts under
    // property chains of depth 1..3, subscripts inside subscripts, arguments inside subscripts, on either
    // side of an assignment, in conditions, selectors, FOR bounds, built-in arguments. The control (the hole
    // filled with a plain INTEGER variable) must be accepted, every fault rejected at the statement's row.
    {
        let prelude = "TYPE Inner\n  X AS INTEGER\n  S AS STRING * 4\nEND TYPE\nTYPE Mid\n  O AS Inner\n  N AS LONG\nEND TYPE\nTYPE Outer\n  M AS Mid\n  K AS INTEGER\nEND TYPE\nDECLARE FUNCTION Pick% (N%)\nDIM Shapes(1 TO 3) AS Outer\nDIM Plain%(1 TO 3)\nDIM Q AS Outer\nK$ = \"a\"\nI% = 1\n";
        let epilogue = "END\nFUNCTION Pick% (N%)\n  Pick% = 1\nEND FUNCTION\n";
        let row = prelude.matches('\n').count() + 1;
        let holes: [(&str, &str); 15] = [
            ("chain1", "PRINT Shapes(@).K"),
            ("chain2", "PRINT Shapes(@).M.N"),
            ("chain3", "PRINT Shapes(@).M.O.X"),
            ("chain3-target", "Shapes(@).M.O.X = 1"),
            ("chain2-target", "Shapes(@).M.N = 1"),
            ("chain3-both", "Shapes(1).M.O.X = Shapes(@).M.O.X + 1"),
            ("subscript-in-subscript", "I% = Plain%(Plain%(@))"),
            ("argument-in-subscript", "PRINT Plain%(Pick%(@))"),
            ("chain-in-subscript-of-chain", "Q.M.O.X = Shapes(Shapes(@).K).M.O.X"),
            ("if-condition", "IF Shapes(@).M.N > 0 THEN PRINT 1"),
            ("while-condition", "WHILE Shapes(@).M.O.X > 5 : WEND"),
            ("for-bound", "FOR J% = 1 TO Shapes(@).M.N : NEXT"),
            ("builtin-argument", "PRINT LEN(Shapes(@).M.O.S)"),
            ("parenthesised", "PRINT (Shapes((@)).M.O.X)"),
            ("call-argument", "PRINT Pick%(Shapes(@).M.O.X)"),
        ];
        let faults: [(&str, &str); 6] = [
            ("string-to-integer-parameter", "Pick%(K$)"),
            ("argument-count", "Pick%(1, 2)"),
            ("len-of-number", "LEN(2)"),
            ("string-literal", "\"x\""),
            ("string-function", "CHR$(65)"),
            ("whole-array", "Plain%()"),
        ];
        const ANY: &[&str] = &[
            "TypeMismatch", "ArgumentTypeMismatch", "ArgumentCountMismatch", "VariableRequired", "ArrayNotDefined",
            "FunctionNeedsArguments", "InvalidConstant", "ElementNotDefined",
        ];
        for (hname, h) in holes.iter() {
            let control = format!("{}{}\n{}", prelude, h.replace('@', "I%"), epilogue);
            cases.push(Case { text: control, model_req: None, family: "deep-position(control)".into(), pos: hname.to_string(), expect: Expect::Exact("ok", 0), renamed_text: None, renamed_req: None });
            for (fname, f) in faults.iter() {
                let text = format!("{}{}\n{}", prelude, h.replace('@', f), epilogue);
                cases.push(Case { text, model_req: None, family: format!("deep-position({})", fname), pos: hname.to_string(), expect: Expect::AnyOf(ANY, vec![row]), renamed_text: None, renamed_req: None });
            }
        }
    }

    // model answers in one batch
    // requests: one per case inside the fragment, then the renamed copies
    let mut reqs: Vec<String> = vec![];
    let mut req_of: Vec<Option<usize>> = vec![];
    for c in &cases {
        req_of.push(c.model_req.as_ref().map(|r| { reqs.push(r.clone()); reqs.len() - 1 }));
    }
    let ren_idx: Vec<usize> = cases.iter().enumerate().filter(|(_, c)| c.renamed_text.is_some()).map(|(i, _)| i).collect();
    let mut ren_req_of: Vec<Option<usize>> = vec![];
    for i in &ren_idx {
        ren_req_of.push(cases[*i].renamed_req.as_ref().map(|r| { reqs.push(r.clone()); reqs.len() - 1 }));
    }
    let answers = ask(&reqs);
    let mut accepted_originals = 0u64;
    for (i, c) in cases.iter().enumerate() {
        let real = real_lint(&c.text);
        let model: Option<String> = req_of[i].map(|j| answers[j].clone());
        let class = format!("{}|{}|{}", c.family, c.pos, variant_of(&real));
        rep.case(Some(class));
        rep.bump(&format!("family:{}", c.family));
        if !c.family.starts_with("original") {
            rep.bump(&format!("position:{}", c.pos));
        }
        if i % 97 == 0 {
            rep.sample(J::obj([("program", J::s(c.text.clone())), ("family", J::s(c.family.clone())), ("position", J::s(c.pos.clone())), ("real", J::s(real.clone())), ("model", J::s(model.clone().unwrap_or("(outside the modelled fragment)".into())))]));
        }
        match &model {
            Some(model) => {
                rep.bump("compared-with-model");
                if real != *model {
                    rep.fail(Failure { kind: Kind::ModelVsImpl, signature: format!("verdict:{}:{}", c.family, c.pos.split('/').next().unwrap_or("")), input: c.text.clone(), implementation: real.clone(), expected: model.clone(), note: "real linter verdict vs Lean model (RbModel.Ty.lint)".into() });
                }
            }
            None => rep.bump("outside-model(records/whole arrays): implementation vs property only"),
        }
        // what an unexpectedly accepted mutant does at run time (the consequence named in the failure)
        let consequence = |text: &str| -> String {
            match run_wrong_kind(text) {
                Some(why) => format!("accepted, then at run time: {}", why),
                None => "accepted (no wrong-kind failure within the budget)".to_owned(),
            }
        };
        match c.expect.clone() {
            Expect::Accept => {
                // an unedited generated program: must be accepted, must run without a wrong-kind failure
                if real == "ok" {
                    accepted_originals += 1;
                    if let Some(why) = run_wrong_kind(&c.text) {
                        rep.fail(Failure { kind: Kind::ImplVsProperty, signature: "run:wrong-kind:generated".into(), input: c.text.clone(), implementation: why, expected: "no Type mismatch / wrong-kind panic at run time for an accepted program".into(), note: String::new() });
                    }
                } else {
                    rep.bump("generated-program-rejected");
                }
            }
            Expect::Exact("ok", _) => {
                if real != "ok" {
                    rep.fail(Failure { kind: Kind::ModelVsImpl, signature: format!("harness:control-rejected:{}", c.pos), input: c.text.clone(), implementation: real.clone(), expected: "ok".into(), note: "the fault-free control of a deep-position template must be accepted (otherwise the family proves nothing)".into() });
                }
            }
            Expect::Exact(variant, row) => {
                let want = format!("(err {} {})", variant, row);
                if real != want {
                    let got = if real == "ok" { consequence(&c.text) } else { real.clone() };
                    rep.fail(Failure { kind: Kind::ImplVsProperty, signature: format!("edit:{}:{}", c.family, c.pos), input: c.text.clone(), implementation: got, expected: want, note: "a single ill-forming edit must be rejected with the family's error at the edited statement's row".into() });
                }
            }
            Expect::AnyOf(variants, rows) => {
                // signature: family, coarse operand class (whole-array | record | the kind swapped), position kind
                let sig_family = c.family.replace("whole-array-of-records", "whole-array").replace("record-element", "record");
                let ok = variants.iter().any(|v| rows.iter().any(|row| real == format!("(err {} {})", v, row)));
                if !ok {
                    let got = if real == "ok" { consequence(&c.text) } else { real.clone() };
                    rep.fail(Failure { kind: Kind::ImplVsProperty, signature: format!("edit:{}:{}", sig_family, c.pos), input: c.text.clone(), implementation: got, expected: format!("(err {} {})", variants.join("|"), rows.iter().map(|r| r.to_string()).collect::<Vec<_>>().join("|")), note: "an operand of the wrong kind, or a non-scalar operand (whole array, record), in a scalar position must be rejected at the edited statement's row".into() });
                }
            }
        }
    }
    // (d) renaming
    for (j, i) in ren_idx.iter().enumerate() {
        let c = &cases[*i];
        let real = real_lint(&c.text);
        let real_r = real_lint(c.renamed_text.as_ref().unwrap());
        let model_pair: Option<(String, String)> = match (ren_req_of[j], req_of[*i]) {
            (Some(a), Some(b)) => Some((answers[a].clone(), answers[b].clone())),
            _ => None,
        };
        rep.case(Some(format!("rename|{}", variant_of(&real))));
        rep.bump("renamed-copies");
        if real != real_r {
            rep.fail(Failure { kind: Kind::ImplVsProperty, signature: "rename:verdict-changed".into(), input: c.renamed_text.clone().unwrap(), implementation: real_r.clone(), expected: real.clone(), note: "consistent renaming of user identifiers (same first letter, same suffix) changed the verdict".into() });
        }
        if let Some((model_r, model_o)) = model_pair {
            if model_r != model_o {
                rep.fail(Failure { kind: Kind::ModelVsImpl, signature: "rename:model-verdict-changed".into(), input: c.renamed_text.clone().unwrap(), implementation: model_o, expected: model_r, note: "the model's verdict changed under renaming".into() });
            }
        }
    }
    rep.bump_by("accepted-generated-programs", accepted_originals);

    // (b) on the shared generator and the corpus; mutants of (c) with renaming on the text level are out of scope there
    let skip = |t: &str| { let u = t.to_uppercase(); u.contains("INPUT") || u.contains("READ") || u.contains("USING") };
    let n_shared = if thorough { 1500 } else { 100 };
    let opts = rb_harness::gen_prog::Opts::default();
    for _ in 0..n_shared {
        let (text, _) = rb_harness::gen_prog::generate(&mut rng, &opts);
        if skip(&text) || real_lint(&text) != "ok" {
            rep.bump("shared-generator:skipped");
            continue;
        }
        rep.case(Some("run|shared-generator".into()));
        rep.bump("run:shared-generator");
        if let Some(why) = run_wrong_kind(&text) {
            rep.fail(Failure { kind: Kind::ImplVsProperty, signature: "run:wrong-kind:shared-generator".into(), input: text, implementation: why, expected: "no wrong-kind failure".into(), note: String::new() });
        }
    }
    let corpus = rb_harness::corpus::candidate_texts();
    let mut ran = 0;
    for text in corpus.iter() {
        if ran >= (if thorough { 3000 } else { 250 }) {
            break;
        }
        if skip(text) || text.len() > 4000 || real_lint(text) != "ok" {
            continue;
        }
        ran += 1;
        rep.case(Some("run|corpus".into()));
        rep.bump("run:corpus");
        if let Some(why) = run_wrong_kind(text) {
            rep.fail(Failure { kind: Kind::ImplVsProperty, signature: "run:wrong-kind:corpus".into(), input: text.clone(), implementation: why, expected: "no wrong-kind failure".into(), note: String::new() });
        }
    }
    // (e) the premise of the Lean theorem `wf_no_type_mismatch` (Thm/C12Core.lean): on the linted tree of every
    // accepted program of the core language (assignments, PRINT, DATA/READ, IF, SELECT CASE, FOR, WHILE, DO) the
    // typing discipline `RbModel.TyCore.tyTopB` must hold — the real checker has to establish it
    {
        let core_src = |text: &str| -> Option<String> {
            let t = text.to_owned();
            catch_unwind(AssertUnwindSafe(move || {
                let p = rusty_parser::parse_main_str(t).ok()?;
                let (linted, _ctx) = rusty_linter::core::lint(p).ok()?;
                rb_harness::ast_sx::program_src(&linted).map(|(src, _)| src)
            }))
            .ok()
            .flatten()
        };
        let mut texts: Vec<(String, &'static str)> = vec![];
        let n_core = if thorough { 1500 } else { 100 };
        for k in 0..n_core {
            let o = rb_harness::gen_prog::Opts { subs: false, gosub: false, goto_fwd: false, on_error: false, jumps_out: false, faults: k % 3 == 0, ..rb_harness::gen_prog::Opts::default() };
            let text = rb_harness::gen_prog::generate(&mut rng, &o).0;
            // kind-swapped copies: one numeric literal replaced by a string literal (most are rejected; one that
            // the checker accepts must still satisfy the discipline, or the checker has a hole at that position)
            let b: Vec<char> = text.chars().collect();
            let mut spots = vec![];
            let mut in_str = false;
            let mut i = 0;
            while i < b.len() {
                if b[i] == '"' {
                    in_str = !in_str;
                } else if b[i] == '\n' {
                    in_str = false;
                } else if !in_str && b[i].is_ascii_digit() && (i == 0 || !(b[i - 1].is_alphanumeric() || b[i - 1] == '.' || b[i - 1] == '_')) {
                    let mut j = i;
                    while j < b.len() && b[j].is_ascii_digit() {
                        j += 1;
                    }
                    if j >= b.len() || !(b[j].is_alphanumeric() || b[j] == '.' || b[j] == ':') {
                        spots.push((i, j));
                    }
                    i = j;
                    continue;
                }
                i += 1;
            }
            for _ in 0..2 {
                if !spots.is_empty() {
                    let (i, j) = spots[rng.below(spots.len() as u64) as usize];
                    let m: String = b[..i].iter().collect::<String>() + "\"a\"" + &b[j..].iter().collect::<String>();
                    texts.push((m, "kind-swapped"));
                }
            }
            texts.push((text, "generated"));
        }
        for _ in 0..(if thorough { 200 } else { 15 }) {
            texts.push((rb_harness::gen_prog::grid(&mut rng), "grid"));
        }
        for t in corpus.iter().take(if thorough { 100000 } else { 1200 }) {
            if t.len() <= 4000 {
                texts.push((t.clone(), "corpus"));
            }
        }
        let mut reqs = vec![];
        let mut idx = vec![];
        for (i, (t, _)) in texts.iter().enumerate() {
            if let Some(src) = core_src(t) {
                reqs.push(format!("(ty.core {})", src));
                idx.push(i);
            }
        }
        let answers = ask(&reqs);
        for (j, a) in answers.iter().enumerate() {
            let (text, origin) = &texts[idx[j]];
            rep.case(Some(format!("core-typing|{}|{}", origin, a)));
            rep.bump(&format!("core-typing:{}:{}", origin, a));
            if a != "(ty true)" {
                let consequence = match run_wrong_kind(text) {
                    Some(why) if !text.to_uppercase().contains("READ") => format!("accepted; at run time: {}", why),
                    _ => "accepted".to_owned(),
                };
                rep.fail(Failure { kind: if consequence == "accepted" { Kind::ModelVsImpl } else { Kind::ImplVsProperty }, signature: "core:accepted-but-typing-discipline-violated".into(), input: text.clone(), implementation: format!("{}; ty.core = {}", consequence, a), expected: "(ty true): every operator node typed by the table, assignment sides of one kind, numeric conditions, CASE items of the selector's kind, numeric FOR counter / bounds / step".into(), note: "premise of wf_no_type_mismatch (Thm/C12Core.lean) on the linted tree of an accepted core program".into() });
            } else if !text.to_uppercase().contains("READ") {
                // the theorem's conclusion on the real interpreter
                if let Some(why) = run_wrong_kind(text) {
                    rep.fail(Failure { kind: Kind::ImplVsProperty, signature: "run:wrong-kind:core".into(), input: text.clone(), implementation: why, expected: "no Type mismatch (wf_no_type_mismatch)".into(), note: String::new() });
                }
            }
        }
    }
    // the known finding C12-a and the repaired witnesses, as fixed cases
    let fixed: [(&str, &str, &str); 5] = [
        ("D# = 3.5\nD# = D# * 1000000 * 100000\nPRINT 1 MOD D#\n", "run:typemismatch:mod-huge-operand", "run"),
        ("PRINT (UCASE$(5))\n", "edit:F10:paren", "(err ArgumentTypeMismatch 1)"),
        ("DIM A(5)\nA(VAL(3)) = 1\n", "edit:F10:assign-lhs-subscript", "(err ArgumentTypeMismatch 2)"),
        ("DIM A(5)\nPRINT A(\"x\")\n", "edit:string-subscript", "(err TypeMismatch 2)"),
        ("X$ = G$(1)\nPRINT UCASE$(G$(1))\n", "run:undefined-string-function", "run"),
    ];
    for (text, sig, want) in fixed {
        rep.case(Some(format!("fixed|{}", sig)));
        if want == "run" {
            if real_lint(text) == "ok" {
                if let Some(why) = run_wrong_kind(text) {
                    rep.fail(Failure { kind: Kind::ImplVsProperty, signature: sig.into(), input: text.into(), implementation: why, expected: "no wrong-kind failure at run time".into(), note: String::new() });
                }
            }
        } else {
            let real = real_lint(text);
            if real != want {
                rep.fail(Failure { kind: Kind::ImplVsProperty, signature: sig.into(), input: text.into(), implementation: real, expected: want.into(), note: String::new() });
            }
        }
    }
    rep.exhaustive_parts.push("every expression position (pre-order) of every generated program receives the string-operand fault; every statement position the statement-level faults (thinned by 1/2 resp. 1/3 in the quick tier for the other families)".into());
    rep.finish();
}
