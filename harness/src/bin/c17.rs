//! C17 — string built-ins vs their defining equations, and vs the Lean model `RbModel.Str`.
//!
//! Every call is executed by the real interpreter (parser → linter → instruction generator → VM) through
//! `run_in_memory`; arguments are supplied as literals, as variables, or as nested calls.  String results are
//! printed as `PRINT "[" + <call> + "]"`, numeric ones as `PRINT <call>`.  Calls are batched (120 per program,
//! compiling a program costs ~4 ms whatever its size); a batch runs under `ON ERROR GOTO` with a handler that
//! prints `E <ERR>` in place of the failed call's line and resumes with the next statement, and every 8th call
//! that is expected to fail runs alone, without a handler, and is observed through the run result's error code.
//! (Every variable a call uses is assigned immediately before it: when this harness was written a trapped error
//! in a built-in call made the interpreter lose sight of the module-level variables, repaired since by 56099c3.)
//! Each observed result is compared with
//!   * the property itself, evaluated by small reference functions in this file (`Kind::ImplVsProperty`), and
//!   * the Lean model, asked through the driver (`Kind::ModelVsImpl`).

use rb_harness::driver::ask;
use rb_harness::json::J;
use rb_harness::report::{Failure, Kind, Report};
use rb_harness::rng::Rng;
use rb_harness::sx;
use rusty_basic::interpreter::verif::{Snapshot, run_in_memory};
use rusty_variant::Variant;
use std::cell::RefCell;
use std::rc::Rc;

type S = Vec<u32>;

#[derive(Clone, Debug, PartialEq, Eq)]
enum Out {
    Str(S),
    Num(i64),
    Err(i32),
    Panic,
    Other(String),
}

impl Out {
    fn show(&self) -> String {
        match self {
            Out::Str(s) => format!("string {}", sx::ints(s.iter())),
            Out::Num(n) => format!("number {}", n),
            Out::Err(c) => format!("error {}", c),
            Out::Panic => "panic".to_owned(),
            Out::Other(t) => format!("other {}", t),
        }
    }
}

#[derive(Clone, Debug)]
enum Op {
    Left(S, i32),
    Right(S, i32),
    Mid2(S, i32),
    Mid3(S, i32, i32),
    LeftMid(S, i32),
    Instr2(S, S),
    Instr3(i32, S, S),
    Len(S),
    LenConcat(S, S),
    Ucase(S),
    Lcase(S),
    Ltrim(S),
    Rtrim(S),
    Space(i32),
    StringCode(i32, i32),
    StringStr(i32, S),
    SpaceStr(i32),
    Chr(i32),
    /// RIGHT$(s, n) + "|" + MID$(s, LEN(s) - n + 1), generated for 0 <= n <= LEN(s) only (theorem right_eq_mid)
    RightMid(S, i32),
    /// LTRIM$(RTRIM$(s)) + "|" + RTRIM$(LTRIM$(s)) (theorem ltrim_rtrim_comm)
    TrimBoth(S),
    /// UCASE$(LCASE$(s)) (theorem ucase_lcase)
    UcaseLcase(S),
}

// ---------------------------------------------------------------------------------------------
// BASIC text
// ---------------------------------------------------------------------------------------------

/// A BASIC expression whose value is the string `s`: quoted runs of printable ASCII, `CHR$(n)` for the rest.
fn lit(s: &[u32]) -> String {
    if s.is_empty() {
        return "\"\"".to_owned();
    }
    let mut parts: Vec<String> = vec![];
    let mut run = String::new();
    for &c in s {
        if (32..=126).contains(&c) && c != 34 {
            run.push(char::from_u32(c).unwrap());
        } else {
            if !run.is_empty() {
                parts.push(format!("\"{}\"", run));
                run.clear();
            }
            parts.push(format!("CHR$({})", c));
        }
    }
    if !run.is_empty() {
        parts.push(format!("\"{}\"", run));
    }
    parts.join(" + ")
}

fn hash(s: &[u32]) -> u32 {
    s.iter().fold(s.len() as u32, |h, &c| h.wrapping_mul(31).wrapping_add(c))
}

/// String argument in the given style: 0 literal, 1 variable (assignment appended to `setup`), 2 nested call.
fn sarg(s: &[u32], style: u8, var: &str, setup: &mut Vec<String>) -> String {
    match style {
        0 => format!("({})", lit(s)),
        1 => {
            setup.push(format!("{} = {}", var, lit(s)));
            var.to_owned()
        }
        _ => match hash(s) % 3 {
            0 => {
                let mut t = vec![35u32];
                t.extend_from_slice(s);
                format!("MID$({}, 2)", lit(&t))
            }
            1 => {
                let mut t = s.to_vec();
                t.extend_from_slice(&[122, 122]);
                format!("LEFT$({}, LEN({}))", lit(&t), lit(s))
            }
            _ => {
                let k = s.len() / 2;
                format!("({} + RIGHT$({}, {}))", lit(&s[..k]), lit(s), s.len() - k)
            }
        },
    }
}

fn iarg(n: i32, style: u8, var: &str, setup: &mut Vec<String>) -> String {
    match style {
        0 => format!("{}", n),
        1 => {
            setup.push(format!("{} = {}", var, n));
            var.to_owned()
        }
        _ => {
            if (0..=60).contains(&n) {
                format!("LEN(SPACE$({}))", n)
            } else if n >= 0 {
                format!("({} + LEN(\"\"))", n)
            } else {
                format!("(LEN(\"\") - {})", -(n as i64))
            }
        }
    }
}

impl Op {
    fn name(&self) -> &'static str {
        match self {
            Op::Left(..) => "left",
            Op::Right(..) => "right",
            Op::Mid2(..) => "mid2",
            Op::Mid3(..) => "mid3",
            Op::LeftMid(..) => "leftmid",
            Op::Instr2(..) => "instr2",
            Op::Instr3(..) => "instr3",
            Op::Len(..) => "len",
            Op::LenConcat(..) => "lenconcat",
            Op::Ucase(..) => "ucase",
            Op::Lcase(..) => "lcase",
            Op::Ltrim(..) => "ltrim",
            Op::Rtrim(..) => "rtrim",
            Op::Space(..) => "space",
            Op::StringCode(..) => "stringcode",
            Op::StringStr(..) => "stringstr",
            Op::SpaceStr(..) => "spacestr",
            Op::Chr(..) => "chr",
            Op::RightMid(..) => "rightmid",
            Op::TrimBoth(..) => "trimboth",
            Op::UcaseLcase(..) => "ucaselcase",
        }
    }

    fn strings(&self) -> Vec<&S> {
        match self {
            Op::Left(s, _) | Op::Right(s, _) | Op::Mid2(s, _) | Op::Mid3(s, _, _) | Op::LeftMid(s, _) | Op::RightMid(s, _) => vec![s],
            Op::TrimBoth(s) | Op::UcaseLcase(s) => vec![s],
            Op::Instr2(s, t) | Op::Instr3(_, s, t) | Op::LenConcat(s, t) => vec![s, t],
            Op::Len(s) | Op::Ucase(s) | Op::Lcase(s) | Op::Ltrim(s) | Op::Rtrim(s) | Op::StringStr(_, s) => vec![s],
            Op::Space(_) | Op::StringCode(..) | Op::SpaceStr(_) | Op::Chr(_) => vec![],
        }
    }

    fn numeric(&self) -> bool {
        matches!(self, Op::Instr2(..) | Op::Instr3(..) | Op::Len(..) | Op::LenConcat(..))
    }

    /// (setup statements, PRINT statement)
    fn basic(&self, style: u8) -> (Vec<String>, String) {
        let mut setup = vec![];
        let e = match self {
            Op::Left(s, n) => {
                format!("LEFT$({}, {})", sarg(s, style, "A$", &mut setup), iarg(*n, style, "N%", &mut setup))
            }
            Op::Right(s, n) => {
                format!("RIGHT$({}, {})", sarg(s, style, "A$", &mut setup), iarg(*n, style, "N%", &mut setup))
            }
            Op::Mid2(s, n) => {
                format!("MID$({}, {})", sarg(s, style, "A$", &mut setup), iarg(*n, style, "N%", &mut setup))
            }
            Op::Mid3(s, n, m) => format!(
                "MID$({}, {}, {})",
                sarg(s, style, "A$", &mut setup),
                iarg(*n, style, "N%", &mut setup),
                iarg(*m, style, "M%", &mut setup)
            ),
            Op::LeftMid(s, n) => {
                let a = sarg(s, style, "A$", &mut setup);
                let i = iarg(*n, style, "N%", &mut setup);
                format!("LEFT$({}, {}) + MID$({}, {} + 1)", a, i, a, i)
            }
            Op::Instr2(s, t) => {
                format!("INSTR({}, {})", sarg(s, style, "A$", &mut setup), sarg(t, style, "B$", &mut setup))
            }
            Op::Instr3(n, s, t) => format!(
                "INSTR({}, {}, {})",
                iarg(*n, style, "N%", &mut setup),
                sarg(s, style, "A$", &mut setup),
                sarg(t, style, "B$", &mut setup)
            ),
            Op::Len(s) => format!("LEN({})", sarg(s, style, "A$", &mut setup)),
            Op::LenConcat(s, t) => {
                format!("LEN({} + {})", sarg(s, style, "A$", &mut setup), sarg(t, style, "B$", &mut setup))
            }
            Op::Ucase(s) => format!("UCASE$({})", sarg(s, style, "A$", &mut setup)),
            Op::Lcase(s) => format!("LCASE$({})", sarg(s, style, "A$", &mut setup)),
            Op::Ltrim(s) => format!("LTRIM$({})", sarg(s, style, "A$", &mut setup)),
            Op::Rtrim(s) => format!("RTRIM$({})", sarg(s, style, "A$", &mut setup)),
            Op::Space(n) => format!("SPACE$({})", iarg(*n, style, "N%", &mut setup)),
            Op::StringCode(n, c) => {
                format!("STRING$({}, {})", iarg(*n, style, "N%", &mut setup), iarg(*c, style, "M%", &mut setup))
            }
            Op::StringStr(n, s) => {
                format!("STRING$({}, {})", iarg(*n, style, "N%", &mut setup), sarg(s, style, "A$", &mut setup))
            }
            Op::SpaceStr(n) => {
                let i = iarg(*n, style, "N%", &mut setup);
                format!("SPACE$({}) + \"|\" + STRING$({}, 32)", i, i)
            }
            Op::Chr(i) => format!("CHR$({})", iarg(*i, style, "N%", &mut setup)),
            Op::RightMid(s, n) => {
                let a = sarg(s, style, "A$", &mut setup);
                let i = iarg(*n, style, "N%", &mut setup);
                format!("RIGHT$({}, {}) + \"|\" + MID$({}, LEN({}) - {} + 1)", a, i, a, a, i)
            }
            Op::TrimBoth(s) => {
                let a = sarg(s, style, "A$", &mut setup);
                format!("LTRIM$(RTRIM$({})) + \"|\" + RTRIM$(LTRIM$({}))", a, a)
            }
            Op::UcaseLcase(s) => format!("UCASE$(LCASE$({}))", sarg(s, style, "A$", &mut setup)),
        };
        let stmt = if self.numeric() { format!("PRINT {}", e) } else { format!("PRINT \"[\" + {} + \"]\"", e) };
        (setup, stmt)
    }

    fn request(&self) -> String {
        let l = |s: &S| sx::ints(s.iter());
        match self {
            Op::Left(s, n) => format!("(str.left {} {})", l(s), n),
            Op::Right(s, n) => format!("(str.right {} {})", l(s), n),
            Op::Mid2(s, n) => format!("(str.mid {} {})", l(s), n),
            Op::Mid3(s, n, m) => format!("(str.mid {} {} {})", l(s), n, m),
            Op::LeftMid(s, n) => format!("(str.leftmid {} {})", l(s), n),
            Op::Instr2(s, t) => format!("(str.instr {} {})", l(s), l(t)),
            Op::Instr3(n, s, t) => format!("(str.instr {} {} {})", n, l(s), l(t)),
            Op::Len(s) => format!("(str.len {})", l(s)),
            Op::LenConcat(s, t) => format!("(str.lenconcat {} {})", l(s), l(t)),
            Op::Ucase(s) => format!("(str.ucase {})", l(s)),
            Op::Lcase(s) => format!("(str.lcase {})", l(s)),
            Op::Ltrim(s) => format!("(str.ltrim {})", l(s)),
            Op::Rtrim(s) => format!("(str.rtrim {})", l(s)),
            Op::Space(n) => format!("(str.space {})", n),
            Op::StringCode(n, c) => format!("(str.stringCode {} {})", n, c),
            Op::StringStr(n, s) => format!("(str.stringStr {} {})", n, l(s)),
            Op::SpaceStr(n) => format!("(str.spacestr {})", n),
            Op::Chr(i) => format!("(str.chr {})", i),
            Op::RightMid(s, n) => format!("(str.rightmid {} {})", l(s), n),
            Op::TrimBoth(s) => format!("(str.trimboth {})", l(s)),
            Op::UcaseLcase(s) => format!("(str.ucaselcase {})", l(s)),
        }
    }

    /// The property, evaluated directly (reference semantics written from the statement of C17, not from
    /// the code): `None` where the property says nothing (INSTR with an empty needle).
    fn oracle(&self) -> Option<Out> {
        let clamp = |n: i32, len: usize| -> usize { (n as usize).min(len) };
        Some(match self {
            Op::Left(s, n) => {
                if *n < 0 {
                    Out::Err(5)
                } else {
                    Out::Str(s[..clamp(*n, s.len())].to_vec())
                }
            }
            Op::Right(s, n) => {
                if *n < 0 {
                    Out::Err(5)
                } else {
                    Out::Str(s[s.len() - clamp(*n, s.len())..].to_vec())
                }
            }
            Op::Mid2(s, n) => {
                if *n <= 0 {
                    Out::Err(5)
                } else {
                    Out::Str(s[clamp(*n - 1, s.len())..].to_vec())
                }
            }
            Op::Mid3(s, n, m) => {
                if *n <= 0 || *m < 0 {
                    Out::Err(5)
                } else {
                    let from = clamp(*n - 1, s.len());
                    let to = (from + *m as usize).min(s.len());
                    Out::Str(s[from..to].to_vec())
                }
            }
            Op::LeftMid(s, n) => {
                if *n < 0 {
                    Out::Err(5)
                } else {
                    Out::Str(s.clone())
                }
            }
            Op::Instr2(s, t) => return Op::Instr3(1, s.clone(), t.clone()).oracle(),
            Op::Instr3(n, s, t) => {
                if *n <= 0 {
                    Out::Err(5)
                } else if t.is_empty() {
                    return None;
                } else {
                    let mut found = 0i64;
                    // least p >= n (1-based) with s[p-1 .. p-1+|t|] = t
                    for p in (*n as usize)..=s.len() {
                        if p - 1 + t.len() <= s.len() && s[p - 1..p - 1 + t.len()] == t[..] {
                            found = p as i64;
                            break;
                        }
                    }
                    Out::Num(found)
                }
            }
            Op::Len(s) => Out::Num(s.len() as i64),
            Op::LenConcat(s, t) => Out::Num((s.len() + t.len()) as i64),
            Op::Ucase(s) => Out::Str(s.iter().map(|&c| if (97..=122).contains(&c) { c - 32 } else { c }).collect()),
            Op::Lcase(s) => Out::Str(s.iter().map(|&c| if (65..=90).contains(&c) { c + 32 } else { c }).collect()),
            Op::Ltrim(s) => {
                let k = s.iter().take_while(|&&c| c == 32).count();
                Out::Str(s[k..].to_vec())
            }
            Op::Rtrim(s) => {
                let k = s.iter().rev().take_while(|&&c| c == 32).count();
                Out::Str(s[..s.len() - k].to_vec())
            }
            Op::Space(n) => {
                if *n < 0 {
                    Out::Err(5)
                } else {
                    Out::Str(vec![32; *n as usize])
                }
            }
            Op::StringCode(n, c) => {
                if *n < 0 || !(0..=255).contains(c) {
                    Out::Err(5)
                } else {
                    Out::Str(vec![*c as u32; *n as usize])
                }
            }
            Op::StringStr(n, s) => {
                if *n < 0 || s.is_empty() {
                    Out::Err(5)
                } else {
                    Out::Str(vec![s[0]; *n as usize])
                }
            }
            Op::SpaceStr(n) => {
                if *n < 0 {
                    Out::Err(5)
                } else {
                    let mut v = vec![32; *n as usize];
                    v.push(124);
                    v.extend(vec![32; *n as usize]);
                    Out::Str(v)
                }
            }
            Op::Chr(i) => {
                if (0..=255).contains(i) {
                    Out::Str(vec![*i as u32])
                } else {
                    Out::Err(5)
                }
            }
            Op::RightMid(s, n) => {
                // both sides are the last n characters
                let suffix = s[s.len() - clamp(*n, s.len())..].to_vec();
                let mut v = suffix.clone();
                v.push(124);
                v.extend(suffix);
                Out::Str(v)
            }
            Op::TrimBoth(s) => {
                let a = s.iter().take_while(|&&c| c == 32).count();
                let b = s[a..].iter().rev().take_while(|&&c| c == 32).count();
                let core = s[a..s.len() - b].to_vec();
                let mut v = core.clone();
                v.push(124);
                v.extend(core);
                Out::Str(v)
            }
            Op::UcaseLcase(s) => Out::Str(
                s.iter()
                    .map(|&c| if (97..=122).contains(&c) { c - 32 } else { c })
                    .collect(),
            ),
        })
    }

    /// Class of the call for failure signatures / known findings.
    fn class(&self) -> &'static str {
        let non_ascii = self.strings().iter().any(|s| s.iter().any(|&c| c >= 128));
        let ws = self.strings().iter().any(|s| s.iter().any(|&c| matches!(c, 9 | 11 | 12 | 133 | 160)));
        match self {
            Op::Space(n) | Op::SpaceStr(n) if *n < 0 => "negative-count",
            Op::Chr(i) if !(0..=255).contains(i) => "out-of-range",
            Op::Ltrim(_) | Op::Rtrim(_) if ws => "non-blank-whitespace",
            _ if non_ascii => "non-ascii",
            _ => "ascii",
        }
    }
}

fn parse_model(ans: &str, numeric: bool) -> Out {
    let a = ans.trim();
    if let Some(rest) = a.strip_prefix("(err ") {
        return rest.trim_end_matches(')').parse::<i32>().map(Out::Err).unwrap_or(Out::Other(a.to_owned()));
    }
    let body = if let Some(rest) = a.strip_prefix("(ok ") { &rest[..rest.len() - 1] } else { a };
    if numeric {
        return body.parse::<i64>().map(Out::Num).unwrap_or(Out::Other(a.to_owned()));
    }
    if body.starts_with('(') && body.ends_with(')') {
        let inner = &body[1..body.len() - 1];
        let mut v = vec![];
        for tok in inner.split_whitespace() {
            match tok.parse::<u32>() {
                Ok(c) => v.push(c),
                Err(_) => return Out::Other(a.to_owned()),
            }
        }
        return Out::Str(v);
    }
    Out::Other(a.to_owned())
}

// ---------------------------------------------------------------------------------------------
// running programs
// ---------------------------------------------------------------------------------------------

enum Ran {
    Done { lines: Vec<Vec<u8>>, err: Option<i32> },
    FrontEnd(String),
    Panic,
}

fn split_lines(out: &[u8]) -> Vec<Vec<u8>> {
    let mut lines = vec![];
    let mut cur = vec![];
    let mut i = 0;
    while i < out.len() {
        if out[i] == 13 && i + 1 < out.len() && out[i + 1] == 10 {
            lines.push(std::mem::take(&mut cur));
            i += 2;
        } else {
            cur.push(out[i]);
            i += 1;
        }
    }
    if !cur.is_empty() {
        lines.push(cur);
    }
    lines
}

fn run_program(text: &str, budget: u64) -> Ran {
    match std::panic::catch_unwind(|| run_in_memory(text, b"", budget, None, false)) {
        Ok(Ok(r)) => {
            let err = match &r.result {
                Ok(()) => None,
                Err(e) => Some(e.err().get_code()),
            };
            if r.budget_exhausted {
                return Ran::FrontEnd("instruction budget exhausted".into());
            }
            Ran::Done { lines: split_lines(&r.stdout), err }
        }
        Ok(Err(e)) => Ran::FrontEnd(format!("{:?}", e)),
        Err(_) => Ran::Panic,
    }
}

fn decode(line: &[u8], numeric: bool) -> Out {
    let text = match std::str::from_utf8(line) {
        Ok(t) => t,
        Err(_) => return Out::Other(format!("not UTF-8: {:?}", line)),
    };
    if let Some(code) = text.strip_prefix("E ") {
        // printed by the error handler of a batched program
        return code.trim().parse::<i32>().map(Out::Err).unwrap_or(Out::Other(text.to_owned()));
    }
    if numeric {
        return text.trim().parse::<i64>().map(Out::Num).unwrap_or(Out::Other(text.to_owned()));
    }
    let cs: Vec<u32> = text.chars().map(|c| c as u32).collect();
    if cs.len() >= 2 && cs[0] == 91 && cs[cs.len() - 1] == 93 {
        Out::Str(cs[1..cs.len() - 1].to_vec())
    } else {
        Out::Other(text.to_owned())
    }
}

struct Call {
    op: Op,
    style: u8,
}

fn program_of(calls: &[Call], with_handler: bool) -> String {
    let mut text = String::new();
    if with_handler {
        text.push_str("ON ERROR GOTO Handler\n");
    }
    for c in calls {
        let (setup, stmt) = c.op.basic(c.style);
        for s in setup {
            text.push_str(&s);
            text.push('\n');
        }
        text.push_str(&stmt);
        text.push('\n');
    }
    if with_handler {
        // a trapped error prints `E <code>` in place of the call's line and goes on with the next statement
        text.push_str("END\nHandler:\nPRINT \"E\"; ERR\nRESUME NEXT\n");
    }
    text
}

/// Runs the calls (one PRINT per call) and returns what each call was observed to produce.
fn observe(calls: &[Call], with_handler: bool, programs: &mut u64) -> Vec<Out> {
    let mut res: Vec<Out> = Vec::with_capacity(calls.len());
    let mut from = 0;
    while from < calls.len() {
        let rest = &calls[from..];
        *programs += 1;
        match run_program(&program_of(rest, with_handler), 2_000_000) {
            Ran::Done { lines, err } => {
                let n = lines.len().min(rest.len());
                for k in 0..n {
                    res.push(decode(&lines[k], rest[k].op.numeric()));
                }
                from += n;
                if n < rest.len() {
                    match err {
                        Some(code) => res.push(Out::Err(code)),
                        None => res.push(Out::Other("no output line for this call".into())),
                    }
                    from += 1;
                } else if let Some(code) = err {
                    // an error after all lines were printed: attribute it to the last call
                    let last = res.len() - 1;
                    res[last] = Out::Other(format!("printed and then error {}", code));
                }
            }
            Ran::FrontEnd(e) => {
                if rest.len() == 1 {
                    res.push(Out::Other(format!("front end: {}", e)));
                    from += 1;
                } else {
                    for c in rest {
                        res.extend(observe(std::slice::from_ref(c), with_handler, programs));
                    }
                    from = calls.len();
                }
            }
            Ran::Panic => {
                if rest.len() == 1 {
                    res.push(Out::Panic);
                    from += 1;
                } else {
                    // find the culprit: run every call of the batch on its own
                    for c in rest {
                        res.extend(observe(std::slice::from_ref(c), with_handler, programs));
                    }
                    from = calls.len();
                }
            }
        }
    }
    res
}

struct Ctx {
    rep: Report,
    pending: Vec<Call>,
    programs: u64,
    sampled: std::collections::BTreeSet<&'static str>,
}

impl Ctx {
    fn add(&mut self, op: Op, style: u8) {
        self.pending.push(Call { op, style });
        if self.pending.len() >= 6000 {
            self.flush();
        }
    }

    /// Splits the pending calls into programs (a call expected to raise an error ends its program),
    /// runs them, asks the model, compares.
    fn flush(&mut self) {
        let calls = std::mem::take(&mut self.pending);
        if calls.is_empty() {
            return;
        }
        let reqs: Vec<String> = calls.iter().map(|c| c.op.request()).collect();
        let answers = ask(&reqs);
        // Batches of 120 calls run under `ON ERROR GOTO` (a trapped error prints `E <code>` for its call).
        // Every 8th call that is expected to raise an error runs alone in a program without a handler and is
        // observed through the run result's error code.
        let mut slots: Vec<Option<Out>> = vec![None; calls.len()];
        let mut batch: Vec<usize> = vec![];
        let mut n_err = 0usize;
        for k in 0..calls.len() {
            let expects_error = matches!(calls[k].op.oracle(), Some(Out::Err(_)))
                || matches!(parse_model(&answers[k], calls[k].op.numeric()), Out::Err(_));
            if expects_error {
                n_err += 1;
            }
            if expects_error && n_err % 8 == 0 {
                let got = observe(&calls[k..=k], false, &mut self.programs);
                slots[k] = Some(got.into_iter().next().unwrap());
                self.rep.bump("error-observed-by.run-result");
            } else {
                if expects_error {
                    self.rep.bump("error-observed-by.handler-ERR");
                }
                batch.push(k);
            }
            if batch.len() >= 120 || (k + 1 == calls.len() && !batch.is_empty()) {
                let group: Vec<Call> = batch.iter().map(|&i| Call { op: calls[i].op.clone(), style: calls[i].style }).collect();
                let got = observe(&group, true, &mut self.programs);
                for (i, o) in batch.drain(..).zip(got) {
                    slots[i] = Some(o);
                }
            }
        }
        let observed: Vec<Out> = slots.into_iter().map(|o| o.expect("every call observed")).collect();
        assert_eq!(observed.len(), calls.len());
        for (k, c) in calls.iter().enumerate() {
            let name = c.op.name();
            let class = c.op.class();
            let trivial = c.op.strings().iter().all(|s| s.is_empty()) && !c.op.strings().is_empty();
            self.rep.case(if trivial { None } else { Some(format!("{}/{}", reqs[k], c.style)) });
            self.rep.bump(&format!("{}.{}", name, ["literal", "variable", "nested"][c.style as usize]));
            let got = &observed[k];
            match got {
                Out::Err(_) => self.rep.bump("outcome.error"),
                Out::Panic => self.rep.bump("outcome.panic"),
                Out::Other(_) => self.rep.bump("outcome.other"),
                _ => self.rep.bump("outcome.value"),
            }
            if class != "ascii" {
                self.rep.bump(&format!("class.{}", class));
            }
            let text = program_of(std::slice::from_ref(c), false);
            if let Some(want) = c.op.oracle() {
                if *got != want {
                    self.rep.fail(Failure {
                        kind: Kind::ImplVsProperty,
                        signature: format!("{}:{}", name, class),
                        input: text.clone(),
                        implementation: got.show(),
                        expected: want.show(),
                        note: "defining equation of the built-in (reference evaluation in the harness)".into(),
                    });
                }
            }
            let model = parse_model(&answers[k], c.op.numeric());
            if *got != model {
                self.rep.fail(Failure {
                    kind: Kind::ModelVsImpl,
                    signature: format!("model:{}", name),
                    input: format!("{}  ==  {}", text.trim_end().replace('\n', " : "), reqs[k]),
                    implementation: got.show(),
                    expected: model.show(),
                    note: "RbModel.Str".into(),
                });
            }
            if self.sampled.insert(name) {
                self.rep.sample(J::s(format!("{} -> {} ; model {}", text.trim_end().replace('\n', " : "), got.show(), answers[k])));
            }
        }
    }
}

/// All strings over `alphabet` of length `0..=max_len`.
fn all_strings(alphabet: &[u32], max_len: usize) -> Vec<S> {
    let mut res: Vec<S> = vec![vec![]];
    let mut layer: Vec<S> = vec![vec![]];
    for _ in 0..max_len {
        let mut next = vec![];
        for s in &layer {
            for &a in alphabet {
                let mut t = s.clone();
                t.push(a);
                next.push(t);
            }
        }
        res.extend(next.iter().cloned());
        layer = next;
    }
    res
}

fn random_string(rng: &mut Rng, class: u64, max_len: i64) -> S {
    let len = rng.range(0, max_len) as usize;
    (0..len)
        .map(|_| match class {
            // printable ASCII
            0 => rng.range(32, 126) as u32,
            // Latin-1: printable ASCII and CHR$(128..255)
            1 => {
                if rng.chance(1, 2) {
                    rng.range(128, 255) as u32
                } else {
                    rng.range(32, 126) as u32
                }
            }
            // blank-heavy, letters of both cases
            2 => *rng.pick(&[32u32, 32, 32, 97, 122, 65, 90, 64, 91, 96, 123, 200]),
            // tiny alphabet (many repeated occurrences for INSTR)
            _ => *rng.pick(&[97u32, 98, 32, 233]),
        })
        .collect()
}

// ---------------------------------------------------------------------------------------------
// Family `immutability`: a string built-in never changes its arguments.
//
// A built-in call hands its arguments over as positional variables of a fresh context and the call protocol writes
// every by-reference argument (a variable, an array element, a TYPE member) back to the caller afterwards: whatever
// the built-in does to its copy of an argument ends up in the caller's variable.  So every function is called with
// each argument held in a plain variable, an array element, a TYPE member, a `STRING * n` variable and a
// by-reference parameter inside a SUB (numeric arguments in variables of the same kind), over the boundary values
// of the other arguments, and after the call EVERY argument variable is printed again: it must hold what it held
// before (`arg-mutated:<fn>`); the call is then evaluated a second time on the same variables (`second-call:<fn>`),
// the variables are printed again, and result and argument are used in one expression (`combined:<fn>`).  The laws
// of the property (LEFT$ + MID$ = s, ...) go through the same treatment as expressions that must print -1 twice.
// Oracle: the reference functions of this file (`Op::oracle`); for ENVIRON$ (no reference) only that both
// evaluations agree and the arguments survive.
// ---------------------------------------------------------------------------------------------

#[derive(Clone, Copy, PartialEq, Eq, Debug, PartialOrd, Ord)]
enum Holder {
    Plain,
    Elem,
    Member,
    Fixed,
    Param,
}

impl Holder {
    fn name(self) -> &'static str {
        match self {
            Holder::Plain => "variable",
            Holder::Elem => "array-element",
            Holder::Member => "type-member",
            Holder::Fixed => "fixed-length-string",
            Holder::Param => "byref-parameter",
        }
    }
}

#[derive(Clone, Debug)]
struct ImmCase {
    fname: &'static str,
    /// the expression, with {s} {t} {n} {m} {d} for the argument variables
    template: &'static str,
    s: Option<S>,
    t: Option<S>,
    n: Option<i32>,
    m: Option<i32>,
    /// 0: 2.5, 1: the double whose eight bytes are "ABCDEFG@"
    d: Option<u8>,
    numeric: bool,
    /// the line `PRINT <expression>` must produce (None: no reference, both evaluations must agree)
    want: Option<String>,
}

#[derive(Clone, Copy, PartialEq, Debug)]
enum LineKind {
    Marker,
    Result1,
    Arg,
    Result2,
    Combined,
}

struct ImmBlock {
    fname: &'static str,
    holder: Holder,
    main: Vec<String>,
    subs: Vec<String>,
    /// fixed-length lengths needed as TYPE members / DIMs: (member, F-variable, G-variable)
    member_lens: Vec<usize>,
    dims: Vec<String>,
    expected: Vec<(LineKind, Option<String>)>,
}

fn text_of(s: &[u32]) -> String {
    s.iter().map(|&c| char::from_u32(c).unwrap_or('?')).collect()
}

fn num_line(n: i64) -> String {
    if n < 0 { format!("{}", n) } else { format!(" {}", n) }
}

fn line_of(o: &Out) -> Option<String> {
    match o {
        Out::Str(s) => Some(format!("[{}]", text_of(s))),
        Out::Num(n) => Some(num_line(*n)),
        _ => None,
    }
}

fn imm_block(c: &ImmCase, holder: Holder, k: usize) -> Option<ImmBlock> {
    let ls = c.s.as_ref().map(|s| s.len());
    let lt = c.t.as_ref().map(|s| s.len());
    if matches!(holder, Holder::Member | Holder::Fixed) {
        // a STRING * n holds exactly n characters: n = LEN(s), so there is no STRING * 0
        if ls == Some(0) || ls.unwrap_or(1) > 9 || lt == Some(0) || lt.unwrap_or(1) > 9 {
            return None;
        }
        // without a string argument the numeric arguments are TYPE members; `Fixed` would be `Plain` again
        if holder == Holder::Fixed && ls.is_none() {
            return None;
        }
    }
    let mut member_lens = vec![];
    let mut dims = vec![];
    // (name used by the call, name of the caller's variable)
    let names = |role: char| -> String {
        match (holder, role) {
            (Holder::Plain, 's') => "S$".into(),
            (Holder::Plain, 't') => "T$".into(),
            (Holder::Plain | Holder::Fixed, 'n') => "N%".into(),
            (Holder::Plain | Holder::Fixed, 'm') => "M%".into(),
            (Holder::Plain | Holder::Fixed, 'd') => "D#".into(),
            (Holder::Elem, 's') => "SA$(2)".into(),
            (Holder::Elem, 't') => "TA$(3)".into(),
            (Holder::Elem, 'n') => "NA%(1)".into(),
            (Holder::Elem, 'm') => "NA%(3)".into(),
            (Holder::Elem, 'd') => "DA#(2)".into(),
            (Holder::Member, 's') => format!("R.S{}", ls.unwrap()),
            (Holder::Member, 't') => format!("R2.S{}", lt.unwrap()),
            (Holder::Member, 'n') => "R.N".into(),
            (Holder::Member, 'm') => "R.M".into(),
            (Holder::Member, 'd') => "R.D".into(),
            (Holder::Fixed, 's') => format!("F{}", ls.unwrap()),
            (Holder::Fixed, 't') => format!("G{}", lt.unwrap()),
            (Holder::Param, 's') => "PS$".into(),
            (Holder::Param, 't') => "PT$".into(),
            (Holder::Param, 'n') => "PN%".into(),
            (Holder::Param, 'm') => "PM%".into(),
            (Holder::Param, 'd') => "PD#".into(),
            _ => unreachable!(),
        }
    };
    let actual = |role: char| -> String {
        match role {
            's' => "S$".into(),
            't' => "T$".into(),
            'n' => "N%".into(),
            'm' => "M%".into(),
            _ => "D#".to_owned(),
        }
    };
    match holder {
        Holder::Elem => {
            dims.push("DIM SA$(1 TO 3)".to_owned());
            dims.push("DIM TA$(1 TO 3)".to_owned());
            dims.push("DIM NA%(1 TO 3)".to_owned());
            dims.push("DIM DA#(1 TO 2)".to_owned());
        }
        Holder::Member => {
            member_lens.extend(ls);
            member_lens.extend(lt);
        }
        Holder::Fixed => {
            dims.push(format!("DIM F{} AS STRING * {}", ls.unwrap(), ls.unwrap()));
            if let Some(l) = lt {
                dims.push(format!("DIM G{} AS STRING * {}", l, l));
            }
        }
        _ => {}
    }
    let roles: Vec<char> = [('s', c.s.is_some()), ('t', c.t.is_some()), ('n', c.n.is_some()), ('m', c.m.is_some()), ('d', c.d.is_some())]
        .iter()
        .filter(|(_, p)| *p)
        .map(|(r, _)| *r)
        .collect();
    let fill = |template: &str, f: &dyn Fn(char) -> String| -> String {
        let mut e = template.to_owned();
        for r in ['s', 't', 'n', 'm', 'd'] {
            if e.contains(&format!("{{{}}}", r)) {
                e = e.replace(&format!("{{{}}}", r), &f(r));
            }
        }
        e
    };
    let assign = |name: &str, role: char| -> String {
        match role {
            's' => format!("{} = {}", name, lit(c.s.as_ref().unwrap())),
            't' => format!("{} = {}", name, lit(c.t.as_ref().unwrap())),
            'n' => format!("{} = {}", name, c.n.unwrap()),
            'm' => format!("{} = {}", name, c.m.unwrap()),
            _ => {
                if c.d == Some(0) {
                    format!("{} = 2.5", name)
                } else {
                    format!("{} = CVD(\"ABCDEFG@\")", name)
                }
            }
        }
    };
    // PRINT statement that shows an argument variable, and the line it must produce
    let show = |name: &str, role: char| -> (String, String) {
        match role {
            's' => (format!("PRINT \"[\" + {} + \"]\"", name), format!("[{}]", text_of(c.s.as_ref().unwrap()))),
            't' => (format!("PRINT \"[\" + {} + \"]\"", name), format!("[{}]", text_of(c.t.as_ref().unwrap()))),
            'n' => (format!("PRINT {}", name), num_line(c.n.unwrap() as i64)),
            'm' => (format!("PRINT {}", name), num_line(c.m.unwrap() as i64)),
            _ => {
                if c.d == Some(0) {
                    (format!("PRINT {}", name), " 2.5".to_owned())
                } else {
                    (format!("PRINT ({} = CVD(\"ABCDEFG@\"))", name), "-1".to_owned())
                }
            }
        }
    };
    let mut main: Vec<String> = vec![format!("PRINT \"#{}\"", k)];
    let mut subs: Vec<String> = vec![];
    let mut expected: Vec<(LineKind, Option<String>)> = vec![(LineKind::Marker, Some(format!("#{}", k)))];
    // the statements that call and look, written with the names of `names`
    let mut body: Vec<String> = vec![];
    let mut body_expected: Vec<(LineKind, Option<String>)> = vec![];
    let expr = fill(c.template, &names);
    let print_result = if c.numeric { format!("PRINT ({})", expr) } else { format!("PRINT \"[\" + {} + \"]\"", expr) };
    for (round, kind) in [LineKind::Result1, LineKind::Result2].iter().enumerate() {
        body.push(print_result.clone());
        body_expected.push((*kind, c.want.clone()));
        for &r in &roles {
            let (stmt, want) = show(&names(r), r);
            body.push(stmt);
            body_expected.push((LineKind::Arg, Some(want)));
        }
        let _ = round;
    }
    // result and argument in ONE expression
    if let Some(w) = &c.want {
        if c.s.is_some() {
            let st = text_of(c.s.as_ref().unwrap());
            if c.numeric {
                body.push(format!("PRINT ({}); \"[\" + {} + \"]\"", expr, names('s')));
                body_expected.push((LineKind::Combined, Some(format!("{} [{}]", w, st))));
            } else {
                body.push(format!("PRINT \"[\" + {} + \"|\" + {} + \"]\"", expr, names('s')));
                body_expected.push((LineKind::Combined, Some(format!("{}|{}]", &w[..w.len() - 1], st))));
            }
        } else if c.n.is_some() {
            if c.numeric {
                body.push(format!("PRINT ({}); {}", expr, names('n')));
                body_expected.push((LineKind::Combined, Some(format!("{} {}", w, num_line(c.n.unwrap() as i64)))));
            } else {
                body.push(format!("PRINT \"[\" + {} + \"]\"; {}", expr, names('n')));
                body_expected.push((LineKind::Combined, Some(format!("{}{}", w, num_line(c.n.unwrap() as i64)))));
            }
        }
    }
    if holder == Holder::Param {
        for &r in &roles {
            main.push(assign(&actual(r), r));
        }
        main.push(format!("T{} {}", k, roles.iter().map(|&r| actual(r)).collect::<Vec<_>>().join(", ")));
        subs.push(format!("SUB T{} ({})", k, roles.iter().map(|&r| names(r)).collect::<Vec<_>>().join(", ")));
        subs.extend(body.iter().map(|l| format!("  {}", l)));
        subs.push("END SUB".to_owned());
        expected.extend(body_expected);
        // the caller's variables after the call
        for &r in &roles {
            let (stmt, want) = show(&actual(r), r);
            main.push(stmt);
            expected.push((LineKind::Arg, Some(want)));
        }
    } else {
        for &r in &roles {
            main.push(assign(&names(r), r));
        }
        main.extend(body);
        expected.extend(body_expected);
    }
    Some(ImmBlock { fname: c.fname, holder, main, subs, member_lens, dims, expected })
}

fn imm_program(blocks: &[&ImmBlock]) -> String {
    let mut text = String::new();
    let mut lens: Vec<usize> = blocks.iter().flat_map(|b| b.member_lens.iter().copied()).collect();
    lens.sort();
    lens.dedup();
    if blocks.iter().any(|b| b.holder == Holder::Member) {
        text.push_str("TYPE Rec\n");
        for l in &lens {
            text.push_str(&format!("  S{} AS STRING * {}\n", l, l));
        }
        text.push_str("  N AS INTEGER\n  M AS INTEGER\n  D AS DOUBLE\nEND TYPE\nDIM R AS Rec\nDIM R2 AS Rec\n");
    }
    let mut seen: std::collections::BTreeSet<&str> = Default::default();
    for b in blocks {
        for d in &b.dims {
            if seen.insert(d.as_str()) {
                text.push_str(d);
                text.push('\n');
            }
        }
    }
    text.push_str("ON ERROR GOTO Handler\n");
    for b in blocks {
        for l in &b.main {
            text.push_str(l);
            text.push('\n');
        }
    }
    text.push_str("END\nHandler:\nPRINT \"E\"; ERR\nRESUME NEXT\n");
    for b in blocks {
        for l in &b.subs {
            text.push_str(l);
            text.push('\n');
        }
    }
    text
}

/// The output lines of every block (its marker line included), `None` for a block whose marker never appeared.
fn imm_run(blocks: &[&ImmBlock], programs: &mut u64) -> Vec<Option<Vec<String>>> {
    *programs += 1;
    let text = imm_program(blocks);
    match run_program(&text, 20_000_000) {
        Ran::Done { lines, err } => {
            let lines: Vec<String> = lines.iter().map(|l| String::from_utf8_lossy(l).to_string()).collect();
            let mut res: Vec<Option<Vec<String>>> = vec![None; blocks.len()];
            let mut at: Option<usize> = None;
            for l in lines {
                let marker = blocks.iter().position(|b| b.expected[0].1.as_deref() == Some(l.as_str()));
                if let Some(i) = marker {
                    at = Some(i);
                    res[i] = Some(vec![]);
                }
                if let Some(i) = at {
                    res[i].as_mut().unwrap().push(l);
                }
            }
            if let (Some(code), Some(i)) = (err, at) {
                res[i].as_mut().unwrap().push(format!("run ended with error {}", code));
            }
            res
        }
        Ran::FrontEnd(e) if blocks.len() == 1 => vec![Some(vec![format!("front end: {}", e)])],
        Ran::Panic if blocks.len() == 1 => vec![Some(vec!["panic".to_owned()])],
        _ => {
            // find the culprit: halves
            let mid = blocks.len() / 2;
            let mut res = imm_run(&blocks[..mid], programs);
            res.extend(imm_run(&blocks[mid..], programs));
            res
        }
    }
}

/// First line of the block that is not what it must be: (index, kind, wanted).
fn imm_verdict(b: &ImmBlock, got: &Option<Vec<String>>) -> Option<(usize, LineKind, String)> {
    let got = match got {
        Some(g) => g,
        None => return Some((0, LineKind::Marker, b.expected[0].1.clone().unwrap_or_default())),
    };
    let mut first_result: Option<String> = None;
    for (i, (kind, want)) in b.expected.iter().enumerate() {
        let g = match got.get(i) {
            Some(g) => g,
            None => return Some((i, *kind, want.clone().unwrap_or_else(|| "a line".into()))),
        };
        let want: String = match (kind, want) {
            (_, Some(w)) => w.clone(),
            (LineKind::Result1, None) => {
                first_result = Some(g.clone());
                continue;
            }
            (_, None) => first_result.clone().unwrap_or_default(),
        };
        let same = if want.ends_with(']') { *g == want } else { g.trim_end() == want.trim_end() };
        if !same {
            return Some((i, *kind, want));
        }
    }
    if got.len() > b.expected.len() {
        return Some((b.expected.len(), LineKind::Combined, "no further line".into()));
    }
    None
}

fn immutability_family(rep: &mut Report, programs: &mut u64) {
    let st = |t: &str| -> S { t.chars().map(|c| c as u32).collect() };
    let strings: Vec<S> = vec![st(""), st("a"), st("ab"), st("a b"), st(" ab "), st("Hello"), st("abcabc"), st("  xY  "), st("h\u{e9} llo")];
    let counts = |len: usize, large: &[i32]| -> Vec<i32> {
        let l = len as i32;
        let mut v: Vec<i32> = vec![0, 1, l - 1, l, l + 1];
        v.extend_from_slice(large);
        v.retain(|x| *x >= 0);
        v.sort();
        v.dedup();
        v
    };
    let starts = |len: usize| -> Vec<i32> {
        let l = len as i32;
        let mut v: Vec<i32> = vec![1, l, l + 1];
        v.retain(|x| *x >= 1);
        v.sort();
        v.dedup();
        v
    };
    let mut cases: Vec<ImmCase> = vec![];
    let mut add = |fname: &'static str, template: &'static str, s: Option<&S>, t: Option<&S>, n: Option<i32>, m: Option<i32>, d: Option<u8>, numeric: bool, want: Option<String>| {
        cases.push(ImmCase { fname, template, s: s.cloned(), t: t.cloned(), n, m, d, numeric, want });
    };
    let law = Some("-1".to_owned());
    for s in &strings {
        let len = s.len();
        for n in counts(len, &[300, 32767]) {
            add("left", "LEFT$({s}, {n})", Some(s), None, Some(n), None, None, false, Op::Left(s.clone(), n).oracle().as_ref().and_then(line_of));
            add("right", "RIGHT$({s}, {n})", Some(s), None, Some(n), None, None, false, Op::Right(s.clone(), n).oracle().as_ref().and_then(line_of));
            if n < 32767 {
                add("leftmid", "LEFT$({s}, {n}) + MID$({s}, {n} + 1) = {s}", Some(s), None, Some(n), None, None, true, law.clone());
                add("lensplit", "LEN(LEFT$({s}, {n})) + LEN(MID$({s}, {n} + 1)) = LEN({s})", Some(s), None, Some(n), None, None, true, law.clone());
            }
            if n as usize <= len {
                add("rightmid", "RIGHT$({s}, {n}) = MID$({s}, LEN({s}) - {n} + 1)", Some(s), None, Some(n), None, None, true, law.clone());
            }
            if n >= 1 && len >= 1 {
                add("instrprefix", "INSTR({s}, LEFT$({s}, {n})) = 1", Some(s), None, Some(n), None, None, true, law.clone());
            }
            for m in counts(len, &[]) {
                if m <= n && n <= 300 {
                    add("leftleft", "LEFT$(LEFT$({s}, {n}), {m}) = LEFT$({s}, {m})", Some(s), None, Some(n), Some(m), None, true, law.clone());
                }
            }
        }
        for n in starts(len).into_iter().chain([2]) {
            add("mid2", "MID$({s}, {n})", Some(s), None, Some(n), None, None, false, Op::Mid2(s.clone(), n).oracle().as_ref().and_then(line_of));
        }
        for n in starts(len) {
            for m in counts(len, &[300]) {
                add("mid3", "MID$({s}, {n}, {m})", Some(s), None, Some(n), Some(m), None, false, Op::Mid3(s.clone(), n, m).oracle().as_ref().and_then(line_of));
            }
        }
        // needles: the first character, the last two, the whole string, something that does not occur
        let mut needles: Vec<S> = vec![st("zz")];
        if len >= 1 {
            needles.push(s[..1].to_vec());
            needles.push(s[len.saturating_sub(2)..].to_vec());
            needles.push(s.clone());
        }
        needles.sort();
        needles.dedup();
        for t in &needles {
            add("instr2", "INSTR({s}, {t})", Some(s), Some(t), None, None, None, true, Op::Instr2(s.clone(), t.clone()).oracle().as_ref().and_then(line_of));
            for n in starts(len) {
                add("instr3", "INSTR({n}, {s}, {t})", Some(s), Some(t), Some(n), None, None, true, Op::Instr3(n, s.clone(), t.clone()).oracle().as_ref().and_then(line_of));
            }
            add("lenconcat", "LEN({s} + {t}) = LEN({s}) + LEN({t})", Some(s), Some(t), None, None, None, true, law.clone());
        }
        add("len", "LEN({s})", Some(s), None, None, None, None, true, Op::Len(s.clone()).oracle().as_ref().and_then(line_of));
        add("ucase", "UCASE$({s})", Some(s), None, None, None, None, false, Op::Ucase(s.clone()).oracle().as_ref().and_then(line_of));
        add("lcase", "LCASE$({s})", Some(s), None, None, None, None, false, Op::Lcase(s.clone()).oracle().as_ref().and_then(line_of));
        add("ltrim", "LTRIM$({s})", Some(s), None, None, None, None, false, Op::Ltrim(s.clone()).oracle().as_ref().and_then(line_of));
        add("rtrim", "RTRIM$({s})", Some(s), None, None, None, None, false, Op::Rtrim(s.clone()).oracle().as_ref().and_then(line_of));
        add("trimboth", "LTRIM$(RTRIM$({s})) = RTRIM$(LTRIM$({s}))", Some(s), None, None, None, None, true, law.clone());
        add("ucaselcase", "UCASE$(LCASE$({s})) = UCASE$({s})", Some(s), None, None, None, None, true, law.clone());
        if len >= 1 {
            for n in [0, 1, 2, 300] {
                add("stringstr", "STRING$({n}, {s})", Some(s), None, Some(n), None, None, false, Op::StringStr(n, s.clone()).oracle().as_ref().and_then(line_of));
            }
        }
    }
    for n in [0, 1, 2, 300] {
        add("space", "SPACE$({n})", None, None, Some(n), None, None, false, Op::Space(n).oracle().as_ref().and_then(line_of));
        add("spacestring", "SPACE$({n}) = STRING$({n}, 32)", None, None, Some(n), None, None, true, law.clone());
        for m in [32, 65, 233] {
            add("stringcode", "STRING$({n}, {m})", None, None, Some(n), Some(m), None, false, Op::StringCode(n, m).oracle().as_ref().and_then(line_of));
        }
    }
    for n in [32, 65, 126, 200, 255] {
        add("chr", "CHR$({n})", None, None, Some(n), None, None, false, Op::Chr(n).oracle().as_ref().and_then(line_of));
    }
    for n in [0, 5, -5, 100, 32767, -32768] {
        add("str", "STR$({n})", None, None, Some(n), None, None, false, Some(format!("[{}]", num_line(n as i64))));
        add("valstr", "VAL(STR$({n})) = {n}", None, None, Some(n), None, None, true, law.clone());
        add("lenvar", "LEN({n})", None, None, Some(n), None, None, true, Some(" 2".to_owned()));
    }
    add("str", "STR$({d})", None, None, None, None, Some(0), false, Some("[ 2.5]".to_owned()));
    add("mkd", "MKD$({d})", None, None, None, None, Some(1), false, Some("[ABCDEFG@]".to_owned()));
    add("cvd", "MKD$(CVD({s}))", Some(&st("ABCDEFG@")), None, None, None, None, false, Some("[ABCDEFG@]".to_owned()));
    for t in ["42", " -7 ", "12abc", "", "3.5", "1E3", "x9"] {
        // the numeric prefix VAL reads, as a whole number or a short decimal
        let (canon, _) = val_prefix_oracle(t);
        let v: f64 = if canon.is_empty() { 0.0 } else { canon.parse().unwrap_or(0.0) };
        let line = if v == v.trunc() { num_line(v as i64) } else if v < 0.0 { format!("{}", v) } else { format!(" {}", v) };
        add("val", "VAL({s})", Some(&st(t)), None, None, None, None, true, Some(line));
    }
    for t in ["PATH", "NO_SUCH_VARIABLE_C17"] {
        add("environ", "ENVIRON$({s})", Some(&st(t)), None, None, None, None, false, None);
    }
    drop(add);

    let holders = [Holder::Plain, Holder::Elem, Holder::Member, Holder::Fixed, Holder::Param];
    let mut blocks: Vec<ImmBlock> = vec![];
    for c in &cases {
        for &h in &holders {
            if let Some(b) = imm_block(c, h, blocks.len()) {
                blocks.push(b);
            }
        }
    }
    let mut reported: std::collections::BTreeMap<String, u32> = Default::default();
    let mut sampled = false;
    for chunk in blocks.chunks(60) {
        let refs: Vec<&ImmBlock> = chunk.iter().collect();
        let got = imm_run(&refs, programs);
        for (b, g) in chunk.iter().zip(got.iter()) {
            rep.case(Some(format!("imm:{}", b.expected[0].1.as_deref().unwrap_or(""))));
            rep.bump(&format!("immutability.{}.{}", b.fname, b.holder.name()));
            if !sampled && b.holder == Holder::Member && b.fname == "leftmid" {
                sampled = true;
                rep.sample(J::s(imm_program(&[b])));
            }
            if imm_verdict(b, g).is_none() {
                continue;
            }
            // the block on its own: a self-contained failing program
            let alone = imm_run(&[b], programs);
            let text = imm_program(&[b]);
            let (i, kind, want, shown, batch_only) = match imm_verdict(b, &alone[0]) {
                Some((i, kind, want)) => (i, kind, want, alone[0].clone(), false),
                None => {
                    let (i, kind, want) = imm_verdict(b, g).unwrap();
                    (i, kind, want, g.clone(), true)
                }
            };
            let what = match kind {
                LineKind::Arg => "arg-mutated",
                LineKind::Result1 => "result",
                LineKind::Result2 => "second-call",
                LineKind::Combined => "combined",
                LineKind::Marker => "not-run",
            };
            let signature = format!("{}{}:{}", if batch_only { "batch-only:" } else { "" }, what, b.fname);
            let n = reported.entry(format!("{}/{}", signature, b.holder.name())).or_insert(0);
            *n += 1;
            if *n > 2 {
                rep.bump("immutability.further-failures-not-reported");
                continue;
            }
            let shown = shown.unwrap_or_default();
            rep.fail(Failure {
                kind: Kind::ImplVsProperty,
                signature,
                input: if batch_only { imm_program(&refs).chars().take(4000).collect() } else { text },
                implementation: format!("output line {}: {:?}  (all lines: {})", i + 1, shown.get(i).cloned().unwrap_or_else(|| "<missing>".into()), shown.join(" | ")),
                expected: format!("output line {}: {:?}", i + 1, want),
                note: format!(
                    "arguments held in: {}; a built-in returns a value and leaves its argument variables as they were; evaluated twice on the same variables it answers the same; {}",
                    b.holder.name(),
                    match kind {
                        LineKind::Arg => "an argument variable printed after the call no longer holds what it was given",
                        LineKind::Result1 => "the result of the first call is not what the property prescribes",
                        LineKind::Result2 => "the second evaluation on the same variables differs from what the property prescribes",
                        LineKind::Combined => "result and argument used in one expression",
                        LineKind::Marker => "the block did not run",
                    }
                ),
            });
        }
    }
    rep.exhaustive_parts.push(format!(
        "argument immutability: {} calls / laws ({} blocks) = every string built-in x argument holders {{variable, array element, TYPE member, STRING * n, by-reference parameter}} x 9 strings x counts {{0, 1, LEN-1, LEN, LEN+1, 300, 32767}} x starts {{1, LEN, LEN+1}}",
        cases.len(),
        blocks.len()
    ));
}

fn main() {
    std::panic::set_hook(Box::new(|_| {}));
    let mut rng = Rng::from_env();
    let rep = Report::new(
        "C17",
        "program-level calls of LEFT$/RIGHT$/MID$/INSTR/LEN/UCASE$/LCASE$/LTRIM$/RTRIM$/SPACE$/STRING$/CHR$ and the \
         equations LEFT$(s,n)+MID$(s,n+1)=s, RIGHT$(s,n)=MID$(s,LEN(s)-n+1) for 0<=n<=LEN(s), LTRIM$(RTRIM$(s))=RTRIM$(LTRIM$(s)), \
         UCASE$(LCASE$(s))=UCASE$(s), LEN(a+b)=LEN(a)+LEN(b), SPACE$(n)=STRING$(n,32): exhaustive over all strings over \
         {a,b,blank} up to length 3 (quick) / 5 (thorough) x all n,m in -1..7 x three argument styles (literal, variable, \
         nested call); exhaustive LTRIM$/RTRIM$ over {TAB,VT,FF,blank,NEL,NBSP,x} up to length 3; random printable-ASCII and \
         Latin-1 strings up to length 40 with boundary counts; VAL(STR$(k)) over all 65536 INTEGERs, boundary+sampled \
         LONGs and whole DOUBLE (|k| < 2^53) / SINGLE (|k| <= 2^24) values, with the run-time type and exact value of VAL's \
         result read from its result slot by the per-instruction observer; VAL on random scanner-alphabet strings (model only); the full VAL scanner (fractions, prefixes, blanks, exponent letters, integers beyond 2^53) on dyadic and random decimals, bit for bit against the model valQ, and VAL(STR$(x)) for fractional SINGLE / DOUBLE x = n/2^k. argument immutability (family immutability: every string built-in and every law with its arguments held in a variable, an array element, a TYPE member, a STRING * n variable and a by-reference parameter, over boundary counts and starts; every argument variable printed after the call, the call evaluated twice, result and argument in one expression). class = (call, style); a case is trivial iff all its \
         string operands are empty.",
    );
    let thorough = rep.is_thorough();
    let t0 = std::time::Instant::now();
    let mut cx = Ctx { rep, pending: vec![], programs: 0, sampled: Default::default() };

    // ---- 1. exhaustive small domain ---------------------------------------------------------------
    let max_len = if thorough { 5 } else { 3 };
    let needle_len = if thorough { 3 } else { 2 };
    let strings = all_strings(&[97, 98, 32], max_len);
    let needles = all_strings(&[97, 98, 32], needle_len);
    let partners = all_strings(&[97, 98, 32], 2);
    let styles: &[u8] = &[0, 1, 2];
    let mut counter: u64 = 0;
    for s in &strings {
        for &st in styles {
            for n in -1..=7 {
                cx.add(Op::Left(s.clone(), n), st);
                cx.add(Op::Right(s.clone(), n), st);
                cx.add(Op::Mid2(s.clone(), n), st);
                cx.add(Op::LeftMid(s.clone(), n), st);
                for m in -1..=7 {
                    cx.add(Op::Mid3(s.clone(), n, m), st);
                }
            }
            for n in 0..=(s.len() as i32) {
                cx.add(Op::RightMid(s.clone(), n), st);
            }
            for op in [
                Op::Len(s.clone()),
                Op::Ucase(s.clone()),
                Op::Lcase(s.clone()),
                Op::Ltrim(s.clone()),
                Op::Rtrim(s.clone()),
                Op::TrimBoth(s.clone()),
                Op::UcaseLcase(s.clone()),
            ] {
                cx.add(op, st);
            }
            for t in &partners {
                cx.add(Op::LenConcat(s.clone(), t.clone()), st);
            }
        }
        for t in &needles {
            // the three styles rotate over the (s, t, n) triples in the thorough tier, all three in quick
            for n in -1..=7 {
                if thorough {
                    counter += 1;
                    cx.add(Op::Instr3(n, s.clone(), t.clone()), (counter % 3) as u8);
                } else {
                    for &st in styles {
                        cx.add(Op::Instr3(n, s.clone(), t.clone()), st);
                    }
                }
            }
            for &st in styles {
                cx.add(Op::Instr2(s.clone(), t.clone()), st);
            }
        }
    }
    for &st in styles {
        for n in -1..=7 {
            cx.add(Op::Space(n), st);
            cx.add(Op::SpaceStr(n), st);
            for c in [-1, 0, 32, 65, 200, 255, 256] {
                if c == 0 {
                    continue; // NUL in the captured output is legal but makes samples unreadable; CHR$ covers it
                }
                cx.add(Op::StringCode(n, c), st);
            }
            for t in &partners {
                cx.add(Op::StringStr(n, t.clone()), st);
            }
            cx.add(Op::StringStr(n, vec![233, 97]), st);
        }
        for i in (-3..=258).chain([-32768, -256, 1000, 32767]) {
            if i == 10 || i == 13 {
                continue; // would split the captured line; every other code is printed raw
            }
            cx.add(Op::Chr(i), st);
        }
    }
    cx.flush();
    cx.rep.exhaustive_parts.push(format!(
        "LEFT$/RIGHT$/MID$(2,3 args)/LEFT$+MID$/LEN/UCASE$/LCASE$/LTRIM$/RTRIM$ over all {} strings over {{a,b,blank}} up to length {} x n,m in -1..7 x 3 argument styles; INSTR over the same strings x all {} needles up to length {} x n in -1..7 ({})",
        strings.len(), max_len, needles.len(), needle_len,
        if thorough { "3-argument INSTR: the three argument styles rotate over the triples; 2-argument INSTR: all three styles" } else { "all three argument styles" }
    ));
    cx.rep.exhaustive_parts.push("SPACE$(n), STRING$(n,code), STRING$(n,s$) for n in -1..7; CHR$(i) for i in -3..258 (except 10, 13)".into());

    eprintln!("[c17] exhaustive small domain done at {:?}", t0.elapsed());
    // ---- 2. exhaustive trim over white-space look-alikes ---------------------------------------------
    let ws = all_strings(&[9, 11, 12, 32, 133, 160, 120], 3);
    for (k, s) in ws.iter().enumerate() {
        cx.add(Op::Ltrim(s.clone()), (k % 3) as u8);
        cx.add(Op::Rtrim(s.clone()), ((k + 1) % 3) as u8);
    }
    cx.flush();
    cx.rep.exhaustive_parts.push(format!("LTRIM$/RTRIM$ over all {} strings over {{TAB,VT,FF,blank,NEL,NBSP,x}} up to length 3", ws.len()));

    eprintln!("[c17] trim done at {:?}", t0.elapsed());
    // ---- 3. random longer strings -----------------------------------------------------------------------
    let n_random = if thorough { 20_000 } else { 800 };
    for k in 0..n_random {
        let class = (k % 4) as u64;
        let s = random_string(&mut rng, class, 40);
        let len = s.len() as i32;
        let pick_n = |rng: &mut Rng| -> i32 {
            match rng.below(10) {
                0 => -1,
                1 => 0,
                2 => 1,
                3 => len - 1,
                4 => len,
                5 => len + 1,
                6 => 32767,
                7 => *rng.pick(&[-32768, -2, 2, 41, 255, 256, 1000]),
                _ => rng.range(0, 45) as i32,
            }
        };
        // needle: a slice of s (so that it occurs), sometimes perturbed
        let t: S = if !s.is_empty() && rng.chance(3, 4) {
            let a = rng.range(0, s.len() as i64 - 1) as usize;
            let b = (a + rng.range(1, 4) as usize).min(s.len());
            let mut t = s[a..b].to_vec();
            if rng.chance(1, 5) {
                let i = rng.below(t.len() as u64) as usize;
                t[i] = if t[i] == 97 { 98 } else { 97 };
            }
            t
        } else {
            random_string(&mut rng, class, 3)
        };
        let other = random_string(&mut rng, class, 40);
        let st = rng.below(3) as u8;
        let (n, m) = (pick_n(&mut rng), pick_n(&mut rng));
        let ops = vec![
            Op::Left(s.clone(), n),
            Op::Right(s.clone(), n),
            Op::Mid2(s.clone(), n),
            Op::Mid3(s.clone(), n, m),
            // `n + 1` is evaluated in INTEGER arithmetic by the program: 32767 + 1 is an Overflow, not a C17 matter
            Op::LeftMid(s.clone(), n.min(32766)),
            Op::Instr2(s.clone(), t.clone()),
            Op::Instr3(n, s.clone(), t.clone()),
            Op::Len(s.clone()),
            Op::LenConcat(s.clone(), other.clone()),
            Op::Ucase(s.clone()),
            Op::Lcase(s.clone()),
            Op::Ltrim(s.clone()),
            Op::Rtrim(s.clone()),
            Op::TrimBoth(s.clone()),
            Op::UcaseLcase(s.clone()),
            Op::RightMid(s.clone(), n.clamp(0, len)),
            Op::StringStr(pick_n(&mut rng).min(70), s.clone()),
            Op::Space(pick_n(&mut rng).min(70)),
            Op::StringCode(pick_n(&mut rng).min(70), rng.range(32, 255) as i32),
        ];
        cx.rep.bump(["random.printable-ascii", "random.latin1", "random.blanks-and-letters", "random.tiny-alphabet"][class as usize]);
        for op in ops {
            cx.add(op, st);
        }
    }
    cx.flush();

    eprintln!("[c17] random done at {:?}", t0.elapsed());
    // ---- 4. VAL(STR$(k)) ---------------------------------------------------------------------------
    let mut rep = cx.rep;
    let mut programs = cx.programs;
    // ---- 3b. argument immutability (family `immutability`, see above) ---------------------------------
    immutability_family(&mut rep, &mut programs);
    eprintln!("[c17] immutability done at {:?}", t0.elapsed());
    // all INTEGERs, one program
    {
        let text = "FOR K& = -32768 TO 32767\nA% = K&\nPRINT STR$(A%); \"|\"; VAL(STR$(A%))\nNEXT\n";
        let ks: Vec<i64> = (-32768..=32767i64).collect();
        let reqs: Vec<String> = ks.iter().flat_map(|k| [format!("(str.str {})", k), format!("(str.valstr {})", k)]).collect();
        let answers = ask(&reqs);
        programs += 1;
        let (ran, vals) = run_program_val(text, 50_000_000);
        check_valstr_batch(&mut rep, text, &ks, ran, &vals, &answers, "valstr:integer-loop", "FOR-loop over all INTEGERs");
        rep.exhaustive_parts.push("VAL(STR$(k)) (value and run-time type of the result) and STR$(k) for all 65536 INTEGER values k".into());
        rep.bump_by("valstr.integer", 65536);
    }
    eprintln!("[c17] integer loop done at {:?}", t0.elapsed());
    // LONGs: boundaries + samples, literal / variable styles
    {
        let mut ks: Vec<i64> = vec![
            -2147483648, -2147483647, -2147483646, -1000000000, -999999999, -65537, -65536, -65535, -32770, -32769, -32768,
            -32767, -10, -9, -1, 0, 1, 9, 10, 99, 100, 32767, 32768, 32769, 65535, 65536, 99999, 100000, 999999999,
            1000000000, 2147483646, 2147483647,
        ];
        for e in 1..=9u32 {
            for d in [-1i64, 0, 1] {
                ks.push(10i64.pow(e) + d);
                ks.push(-(10i64.pow(e)) + d);
            }
        }
        let n_long = if thorough { 200_000 } else { 4_000 };
        for _ in 0..n_long {
            // spread over magnitudes
            let bits = rng.range(1, 31) as u32;
            let mag = rng.range(0, (1i64 << bits) - 1);
            ks.push(if rng.chance(1, 2) { -mag - 1 } else { mag });
        }
        let reqs: Vec<String> = ks.iter().flat_map(|k| [format!("(str.str {})", k), format!("(str.valstr {})", k)]).collect();
        let answers = ask(&reqs);
        for (chunk_no, chunk) in ks.chunks(250).enumerate() {
            let mut text = String::new();
            for (j, &k) in chunk.iter().enumerate() {
                let use_var = (chunk_no + j) % 2 == 0;
                if use_var {
                    text.push_str(&format!("K& = {}\nPRINT STR$(K&); \"|\"; VAL(STR$(K&))\n", k));
                } else {
                    text.push_str(&format!("PRINT STR$({}); \"|\"; VAL(STR$({}))\n", k, k));
                }
                rep.bump(if (-32768..=32767).contains(&k) { "valstr.long-in-integer-range" } else { "valstr.long" });
            }
            programs += 1;
            let (ran, vals) = run_program_val(&text, 5_000_000);
            let a = &answers[2 * 250 * chunk_no..2 * (250 * chunk_no + chunk.len())];
            check_valstr_batch(&mut rep, &text, chunk, ran, &vals, a, "valstr:long-batch", "LONG literal/variable");
        }
        rep.sample(J::s("K& = 2147483647 : PRINT STR$(K&); \"|\"; VAL(STR$(K&))  -> ` 2147483647| 2147483647`, Val# = VDouble(2147483647.0)"));
    }
    eprintln!("[c17] longs done at {:?}", t0.elapsed());
    // whole DOUBLE and SINGLE values: STR$ prints the plain digits, VAL reads them back (|k| < 2^53 / <= 2^24)
    {
        let lim: i64 = (1i64 << 53) - 1;
        let mut dbl: Vec<i64> = vec![0, 1, -1, 32768, -32769, 2147483648, -2147483649, 4294967296, lim, -lim, lim - 1, 1 << 52, -(1 << 52)];
        for e in 10..=15u32 {
            for d in [-1i64, 0, 1] {
                dbl.push(10i64.pow(e) + d);
                dbl.push(-(10i64.pow(e)) + d);
            }
        }
        let n_dbl = if thorough { 100_000 } else { 2_000 };
        for _ in 0..n_dbl {
            let bits = rng.range(1, 53) as u32;
            let mag = rng.range(0, (1i64 << bits) - 1);
            dbl.push(if rng.chance(1, 2) { -mag } else { mag });
        }
        let mut sgl: Vec<i64> = vec![0, 1, -1, 16777216, -16777216, 16777215, 8388608, 100000, -99999];
        let n_sgl = if thorough { 50_000 } else { 1_000 };
        for _ in 0..n_sgl {
            let bits = rng.range(1, 24) as u32;
            let mag = rng.range(0, (1i64 << bits) - 1);
            sgl.push(if rng.chance(1, 2) { -mag } else { mag });
        }
        for (var, ks, sig, how, key) in [
            ("X#", &dbl, "valstr:double-batch", "whole DOUBLE variable", "valstr.whole-double"),
            ("Y!", &sgl, "valstr:single-batch", "whole SINGLE variable", "valstr.whole-single"),
        ] {
            let reqs: Vec<String> = ks.iter().flat_map(|k| [format!("(str.strdbl {})", k), format!("(str.valstr {})", k)]).collect();
            let answers = ask(&reqs);
            for (chunk_no, chunk) in ks.chunks(250).enumerate() {
                let mut text = String::new();
                for &k in chunk {
                    text.push_str(&format!("{} = {}\nPRINT STR$({}); \"|\"; VAL(STR$({}))\n", var, k, var, var));
                }
                programs += 1;
                rep.bump_by(key, chunk.len() as u64);
                let (ran, vals) = run_program_val(&text, 5_000_000);
                let a = &answers[2 * 250 * chunk_no..2 * (250 * chunk_no + chunk.len())];
                check_valstr_batch(&mut rep, &text, chunk, ran, &vals, a, sig, how);
            }
        }
    }
    eprintln!("[c17] whole floats done at {:?}", t0.elapsed());

    // ---- 5. VAL on scanner-alphabet strings: model vs implementation -------------------------------------
    {
        let n_val = if thorough { 60_000 } else { 4_000 };
        let mut inputs: Vec<S> = vec![vec![], vec![45], vec![45, 48], vec![43], vec![46], vec![45, 46], vec![120, 49]];
        for _ in 0..n_val {
            let len = rng.range(0, 12) as usize;
            let s: S = (0..len)
                .map(|_| *rng.pick(&[48u32, 49, 50, 53, 57, 48, 55, 32, 32, 43, 45, 46, 120, 69, 38]))
                .collect();
            inputs.push(s);
        }
        let reqs: Vec<String> = inputs.iter().map(|s| format!("(str.val {})", sx::ints(s.iter()))).collect();
        let answers = ask(&reqs);
        for (chunk_no, chunk) in inputs.chunks(250).enumerate() {
            let mut text = String::new();
            for s in chunk {
                text.push_str(&format!("PRINT VAL({})\n", lit(s)));
            }
            programs += 1;
            let (ran, vals) = run_program_val(&text, 5_000_000);
            let ok = matches!(&ran, Ran::Done { lines, err } if err.is_none() && lines.len() == chunk.len()) && vals.len() == chunk.len();
            if !ok {
                rep.fail(Failure {
                    kind: Kind::ModelVsImpl,
                    signature: "model:val-batch".into(),
                    input: text.clone(),
                    implementation: format!("batch did not run to the end or {} VAL results were observed", vals.len()),
                    expected: format!("{} lines and VAL results", chunk.len()),
                    note: String::new(),
                });
                continue;
            }
            for (j, s) in chunk.iter().enumerate() {
                let ans = &answers[chunk_no * 250 + j];
                rep.case(Some(format!("val{}", sx::ints(s.iter()))));
                // the run-time type: VAL is a DOUBLE function, whatever the digits
                let got = &vals[j];
                let bits = match got {
                    Variant::VDouble(x) => Some(x.to_bits()),
                    _ => None,
                };
                if bits.is_none() {
                    rep.fail(Failure {
                        kind: Kind::ImplVsProperty,
                        signature: "val:result-type".into(),
                        input: format!("PRINT VAL({})", lit(s)),
                        implementation: format!("{:?}", got),
                        expected: "a VDouble".into(),
                        note: "VAL is a DOUBLE function: its result slot must hold a DOUBLE".into(),
                    });
                }
                let want = match parse_model_double(ans) {
                    Some((neg, m)) => {
                        rep.bump("val.model-double");
                        let x = m as f64;
                        Some(if neg { -x } else { x })
                    }
                    None if ans == "unmodelled" => {
                        rep.bump("val.unmodelled-fraction-skipped");
                        None
                    }
                    None => {
                        rep.fail(Failure {
                            kind: Kind::ModelVsImpl,
                            signature: "model:val".into(),
                            input: reqs[chunk_no * 250 + j].clone(),
                            implementation: format!("{:?}", got),
                            expected: format!("bad model answer {}", ans),
                            note: String::new(),
                        });
                        None
                    }
                };
                if let Some(w) = want {
                    if bits != Some(w.to_bits()) {
                        rep.fail(Failure {
                            kind: Kind::ModelVsImpl,
                            signature: "model:val".into(),
                            input: format!("PRINT VAL({})", lit(s)),
                            implementation: format!("{:?}", got),
                            expected: format!("VDouble({:?}) [{}]", w, ans),
                            note: "RbModel.Str.val (sign and magnitude of the double, negative zero included)".into(),
                        });
                    }
                }
            }
        }
        rep.sample(J::s("PRINT VAL(\"-0\") -> Val# = VDouble(-0.0) ; model (double t 0)"));
    }
    eprintln!("[c17] val done at {:?}", t0.elapsed());

    // ---- 6. VAL and STR$ beyond whole numbers: the full scanner (RbModel/StrVal.lean) -------------------
    // Every text is run as PRINT VAL(<text>) and the f64 left in VAL's result slot is compared BIT FOR BIT (that is: as
    // an exact rational plus sign) with the model's `valQ` (IEEE round-to-nearest-even on rationals) — on all inputs,
    // the misrounded ones included.  The independent oracle is Rust's correctly rounded `str::parse::<f64>` on the
    // numeric prefix the scanner accepts; C17's text claims VAL(STR$(k)) = k for whole k only, so a difference on a
    // fractional text is an observation (counted, first examples in the notes), not a failure.
    {
        let mut texts: Vec<String> = [
            "12.5", "-0.375", "1E3", "1.5D2", ".5", "12abc", "  7 ", "2.25", "151.75", "1 2", "  -    4   . 2   ", "1.2.3",
            "1-2", "+.5", "-.", ".", "-0.0", "0.1", "3.14", "3.14oops", "1234567890123456789012345678901234567890",
            "0.0000000000000000000001", "0.00000000000000000000001", "1.e5", "1e-3", "1d3", "+-1", "-+1", "- 1", "1.5 E2",
            "9007199254740993", "9007199254740992.5", "0.30000000000000004", "1234.0625", "1234.25", "&H10", "1,5",
        ]
        .iter()
        .map(|s| s.to_string())
        .collect();
        let n_dy = if thorough { 40_000 } else { 3_000 };
        for _ in 0..n_dy {
            // a dyadic fraction with few digits: n / 2^k, exact decimal of at most 15 significant digits
            let k = rng.range(1, 12) as u32;
            let bits = rng.range(1, (50 - 2 * k as i64).clamp(1, 30)) as u32;
            let n = (rng.range(0, (1i64 << bits) - 1) as u64) | 1;
            let mant = (n as u128) * 5u128.pow(k);
            if mant >= 1_000_000_000_000_000 {
                continue;
            }
            let scale = 10u128.pow(k);
            let body = format!("{}.{:0width$}", mant / scale, mant % scale, width = k as usize);
            let body = if rng.chance(1, 8) && body.starts_with("0.") { body[1..].to_owned() } else { body };
            let sign = *rng.pick(&["", "", " ", "+", "-", "-", "  ", " -"]);
            let suffix = *rng.pick(&["", "", "", "", "E3", "D2", "e-1", "abc", ".5", "-1", " ", " 7", "!", "#", "%"]);
            let mut t = format!("{}{}{}", sign, body, suffix);
            if rng.chance(1, 6) {
                // a blank somewhere inside
                let at = rng.range(0, t.len() as i64) as usize;
                t.insert(at, ' ');
            }
            texts.push(t);
        }
        let n_dec = if thorough { 40_000 } else { 3_000 };
        for _ in 0..n_dec {
            // arbitrary decimals: 0..8 integer digits, 0..9 (sometimes up to 24) fraction digits
            let il = rng.range(0, 8);
            let fl = if rng.chance(1, 10) { rng.range(10, 24) } else { rng.range(0, 9) };
            let mut t = String::from(*rng.pick(&["", "", "-", "+", " "]));
            for _ in 0..il {
                t.push((b'0' + rng.range(0, 9) as u8) as char);
            }
            if fl > 0 || rng.chance(1, 4) {
                t.push('.');
            }
            for _ in 0..fl {
                t.push((b'0' + rng.range(0, 9) as u8) as char);
            }
            t.push_str(*rng.pick(&["", "", "", "E2", "x", ".1"]));
            texts.push(t);
        }
        for _ in 0..(if thorough { 4_000 } else { 400 }) {
            // whole numbers beyond 2^53: the integer path rounds
            let len = rng.range(16, 30);
            let mut t = String::new();
            for i in 0..len {
                t.push((b'0' + rng.range(if i == 0 { 1 } else { 0 }, 9) as u8) as char);
            }
            texts.push(t);
        }
        let inputs: Vec<S> = texts.iter().map(|t| t.chars().map(|c| c as u32).collect()).collect();
        let reqs: Vec<String> = inputs.iter().map(|s| format!("(strval.val {})", sx::ints(s.iter()))).collect();
        let answers = ask(&reqs);
        let mut misrounded: Vec<String> = vec![];
        for (chunk_no, chunk) in inputs.chunks(250).enumerate() {
            let mut text = String::new();
            for s in chunk {
                text.push_str(&format!("PRINT VAL({})\n", lit(s)));
            }
            programs += 1;
            let (ran, vals) = run_program_val(&text, 5_000_000);
            let ok = matches!(&ran, Ran::Done { lines, err } if err.is_none() && lines.len() == chunk.len()) && vals.len() == chunk.len();
            if !ok {
                rep.fail(Failure {
                    kind: Kind::ModelVsImpl,
                    signature: "model:valq-batch".into(),
                    input: text.chars().take(600).collect(),
                    implementation: format!("batch did not run to the end or {} VAL results were observed", vals.len()),
                    expected: format!("{} lines and VAL results", chunk.len()),
                    note: String::new(),
                });
                continue;
            }
            for (j, s) in chunk.iter().enumerate() {
                let idx = chunk_no * 250 + j;
                let ans = &answers[idx];
                let t = &texts[idx];
                let (canon, class) = val_prefix_oracle(t);
                rep.case(Some(format!("valq{}", sx::ints(s.iter()))));
                rep.bump(&format!("valq.text.{}", class));
                let got = match &vals[j] {
                    Variant::VDouble(x) => *x,
                    other => {
                        rep.fail(Failure {
                            kind: Kind::ImplVsProperty,
                            signature: "val:result-type".into(),
                            input: format!("PRINT VAL({})", lit(s)),
                            implementation: format!("{:?}", other),
                            expected: "a VDouble".into(),
                            note: "VAL is a DOUBLE function: its result slot must hold a DOUBLE".into(),
                        });
                        continue;
                    }
                };
                // model vs implementation: the exact value and the sign bit
                match parse_model_vq(ans) {
                    Some(w) => {
                        rep.bump("valq.model-answers");
                        if w.to_bits() != got.to_bits() {
                            rep.fail(Failure {
                                kind: Kind::ModelVsImpl,
                                signature: "model:valq".into(),
                                input: format!("PRINT VAL({})", lit(s)),
                                implementation: format!("VDouble({:?}) = {}", got, exact_rational(got)),
                                expected: format!("VDouble({:?}) [{}]", w, ans),
                                note: "RbModel.Str.valQ (val.rs with IEEE round-to-nearest-even on rationals)".into(),
                            });
                        }
                    }
                    None if ans == "unmodelled" => rep.bump("valq.unmodelled (more than 22 fraction digits / 300 characters)"),
                    None => rep.fail(Failure {
                        kind: Kind::ModelVsImpl,
                        signature: "model:valq".into(),
                        input: reqs[idx].clone(),
                        implementation: format!("{:?}", got),
                        expected: format!("bad model answer {}", ans),
                        note: String::new(),
                    }),
                }
                // the oracle: the correctly rounded value of the numeric prefix (observation only, see above)
                let want: f64 = if canon.is_empty() { 0.0 } else { canon.parse::<f64>().unwrap_or(f64::NAN) };
                if want.to_bits() == got.to_bits() {
                    rep.bump("valq.oracle.correctly-rounded");
                } else if want == got {
                    rep.bump("valq.oracle.equal-up-to-the-sign-of-zero");
                } else {
                    rep.bump("observation.val-fraction-misrounded");
                    if misrounded.len() < 6 {
                        misrounded.push(format!("VAL(\"{}\") = {:?}, correctly rounded {:?}", t, got, want));
                    }
                }
            }
        }
        rep.notes.push(format!(
            "observation (outside C17's text, which claims VAL(STR$(k)) for whole k only): val.rs re-divides the running value per fraction digit, so VAL of a fractional text is not always the correctly rounded decimal; first examples: {}",
            if misrounded.is_empty() { "none in this run".to_owned() } else { misrounded.join("; ") }
        ));
        rep.sample(J::s("PRINT VAL(\"2.25\") -> Val# = VDouble(2.2500000000000004) ; model (double f 5066549580791809 2251799813685248) ; correctly rounded 2.25"));
    }
    eprintln!("[c17] valq done at {:?}", t0.elapsed());
    // VAL(STR$(x)) for fractional SINGLE / DOUBLE values: x = n / 2^k is built by an exact division, STR$'s text and
    // VAL's result slot are compared with the model (strDouble / strSingle, valQ), x itself is read through the observer
    {
        let n_fr = if thorough { 20_000 } else { 1_500 };
        for (var, sigil, max_digits, key) in [("X#", "#", 15u32, "valstr.fraction-double"), ("Y!", "!", 7u32, "valstr.fraction-single")] {
            let mut xs: Vec<(i64, u64)> = vec![(9, 4), (-3, 8), (1, 2), (-1, 2), (4937, 4), (19745, 16), (1, 1024), (25, 2), (1, 8192), (-607, 4)];
            for _ in 0..n_fr {
                let k = rng.range(1, 13) as u32;
                let lim = 10u128.pow(max_digits) / 5u128.pow(k);
                if lim < 2 {
                    continue;
                }
                let hi = (lim.min(1 << 23) as i64).max(2);
                let n = rng.range(1, hi - 1) | 1;
                if (n as u128) * 5u128.pow(k) >= 10u128.pow(max_digits) {
                    continue;
                }
                xs.push((if rng.chance(1, 3) { -n } else { n }, 1u64 << k));
            }
            let reqs: Vec<String> = xs
                .iter()
                .flat_map(|(n, d)| {
                    let which = if sigil == "#" { "dbl" } else { "sgl" };
                    [format!("(strval.str{} {} {})", which, n, d), format!("(strval.valstr{} {} {})", which, n, d)]
                })
                .collect();
            let answers = ask(&reqs);
            let mut not_back: Vec<String> = vec![];
            for (chunk_no, chunk) in xs.chunks(200).enumerate() {
                let mut text = String::new();
                for (n, d) in chunk {
                    text.push_str(&format!("N{s} = {n}\nD{s} = {d}\n{v} = N{s} / D{s}\nPRINT STR$({v}); \"|\"; VAL(STR$({v}))\n", v = var, n = n, d = d, s = sigil));
                }
                programs += 1;
                rep.bump_by(key, chunk.len() as u64);
                let (ran, vals) = run_program_val_watch(&text, 5_000_000, var);
                let lines = match &ran {
                    Ran::Done { lines, err } if err.is_none() && lines.len() == chunk.len() && vals.len() == chunk.len() => lines.clone(),
                    _ => {
                        rep.fail(Failure {
                            kind: Kind::ModelVsImpl,
                            signature: "model:valstr-fraction-batch".into(),
                            input: text.chars().take(600).collect(),
                            implementation: format!("batch did not run to the end or {} VAL results were observed", vals.len()),
                            expected: format!("{} lines and VAL results", chunk.len()),
                            note: String::new(),
                        });
                        continue;
                    }
                };
                for (j, (n, d)) in chunk.iter().enumerate() {
                    let a = &answers[2 * (chunk_no * 200 + j)..2 * (chunk_no * 200 + j) + 2];
                    rep.case(Some(format!("valstr-frac {}/{}{}", n, d, sigil)));
                    let x = *n as f64 / *d as f64; // exact: |n| < 2^24, d a power of two
                    // the variable really holds n / d (read through the observer, as the exact value)
                    let held = match &vals[j].1 {
                        Some(Variant::VDouble(h)) => Some(*h),
                        Some(Variant::VSingle(h)) => Some(*h as f64),
                        _ => None,
                    };
                    if held.map(|h| h.to_bits()) != Some(x.to_bits()) {
                        rep.bump("valstr.fraction.variable-not-as-intended-skipped");
                        continue;
                    }
                    let line = String::from_utf8_lossy(&lines[j]).to_string();
                    let (l, _r) = match line.split_once('|') {
                        Some(p) => p,
                        None => {
                            rep.fail(Failure {
                                kind: Kind::ModelVsImpl,
                                signature: "model:strfloat".into(),
                                input: format!("STR$({}/{}{})", n, d, sigil),
                                implementation: line.clone(),
                                expected: "STR$|VAL".into(),
                                note: String::new(),
                            });
                            continue;
                        }
                    };
                    // STR$: the model's text; and the contract assumed of Rust's Display (the text reads back as x)
                    let codes = sx::ints(l.chars().map(|c| c as u32));
                    let want_text = a[0].strip_prefix("(ok ").and_then(|t| t.strip_suffix(')'));
                    match want_text {
                        Some(w) => {
                            rep.bump("valstr.fraction.str-modelled");
                            if w != codes {
                                rep.fail(Failure {
                                    kind: Kind::ModelVsImpl,
                                    signature: "model:strfloat".into(),
                                    input: format!("STR$({}/{}{})", n, d, sigil),
                                    implementation: format!("{:?}", l),
                                    expected: w.to_owned(),
                                    note: "RbModel.Str.strDouble / strSingle".into(),
                                });
                            }
                        }
                        None => rep.bump("valstr.fraction.str-unmodelled"),
                    }
                    let first = l.chars().next();
                    // in the float's own format: STR$ of a SINGLE prints the shortest decimal that reads back as that binary32 number
                    let reads_back = if sigil == "#" {
                        l.trim().parse::<f64>().ok().map(|p| p.to_bits()) == Some(x.to_bits())
                    } else {
                        l.trim().parse::<f32>().ok().map(|p| p.to_bits()) == Some((x as f32).to_bits())
                    };
                    if (x >= 0.0 && first != Some(' ')) || (x < 0.0 && first != Some('-')) || !reads_back {
                        rep.fail(Failure {
                            kind: Kind::ModelVsImpl,
                            signature: "str:float-display-contract".into(),
                            input: format!("STR$({}/{}{})", n, d, sigil),
                            implementation: format!("{:?}", l),
                            expected: format!("a blank or a minus sign, then a decimal that reads back as {:?}", x),
                            note: "str_sign_blank / the contract assumed of format!(\"{}\", float)".into(),
                        });
                    }
                    // VAL(STR$(x)): model vs implementation bit for bit; vs x as an observation
                    let got = match &vals[j].0 {
                        Variant::VDouble(g) => *g,
                        other => {
                            rep.fail(Failure {
                                kind: Kind::ImplVsProperty,
                                signature: "val:result-type".into(),
                                input: format!("VAL(STR$({}/{}{}))", n, d, sigil),
                                implementation: format!("{:?}", other),
                                expected: "a VDouble".into(),
                                note: "VAL is a DOUBLE function".into(),
                            });
                            continue;
                        }
                    };
                    match parse_model_vq(&a[1]) {
                        Some(w) => {
                            if w.to_bits() != got.to_bits() {
                                rep.fail(Failure {
                                    kind: Kind::ModelVsImpl,
                                    signature: "model:valstr-fraction".into(),
                                    input: format!("VAL(STR$({}/{}{}))", n, d, sigil),
                                    implementation: format!("VDouble({:?}) = {}", got, exact_rational(got)),
                                    expected: a[1].clone(),
                                    note: "RbModel.Str.valQ (strDouble x)".into(),
                                });
                            }
                        }
                        None if a[1] == "unmodelled" => rep.bump("valstr.fraction.val-unmodelled"),
                        None => rep.fail(Failure {
                            kind: Kind::ModelVsImpl,
                            signature: "model:valstr-fraction".into(),
                            input: format!("VAL(STR$({}/{}{}))", n, d, sigil),
                            implementation: format!("{:?}", got),
                            expected: format!("bad model answer {}", a[1]),
                            note: String::new(),
                        }),
                    }
                    if want_text.is_none() {
                        // STR$ prints a shorter decimal than the exact one (more than 7 / 15 significant digits): nothing to come back
                    } else if got.to_bits() == x.to_bits() {
                        rep.bump("valstr.fraction.comes-back");
                    } else {
                        rep.bump("observation.valstr-fraction-does-not-come-back");
                        if not_back.len() < 4 {
                            not_back.push(format!("VAL(STR$({}/{}{})) = {:?}, x = {:?}", n, d, sigil, got, x));
                        }
                    }
                }
            }
            rep.notes.push(format!(
                "observation: VAL(STR$(x)) for fractional {} values differs from x where the fraction loop misrounds; first examples: {}",
                if sigil == "#" { "DOUBLE" } else { "SINGLE" },
                if not_back.is_empty() { "none in this run".to_owned() } else { not_back.join("; ") }
            ));
        }
        rep.sample(J::s("N# = 4937 : D# = 4 : X# = N# / D# : PRINT STR$(X#); \"|\"; VAL(STR$(X#)) -> ` 1234.25| 1234.25`, Val# = VDouble(1234.25) = model"));
    }
    eprintln!("[c17] valstr fractions done at {:?}", t0.elapsed());

    // ---- 7. VAL beyond what a DOUBLE can hold (outside the fragment of RbModel/StrVal.lean: texts > 300 characters) ----
    // More digits in front of the point than a DOUBLE has room for (from 310 digits on the value is an infinity) and
    // digits so far behind the point that 10 ^ n is an infinity (n >= 309): since /repo 1b55932 VAL raises Overflow (6)
    // for the former and leaves the value as it is for the latter; before, VAL returned an infinity / a NaN.
    // Oracle (the property, no model): Rust's correctly rounded decimal parser on the same text — Overflow exactly
    // when that is an infinity, otherwise a finite DOUBLE within 1e-12 relative (one rounding per digit) of it.
    {
        let mut n_long = 0u64;
        let digits: Vec<usize> = if thorough { vec![1, 17, 22, 23, 100, 299, 300, 301, 307, 308, 309, 310, 311, 400, 1000, 5000] } else { vec![22, 23, 300, 307, 308, 309, 310, 400, 1000] };
        for &n in &digits {
            let zeros = "0".repeat(n);
            let ones = "1".repeat(n);
            let nines = "9".repeat(n);
            let texts: Vec<String> = vec![
                format!("1{}", zeros),
                format!("-1{}", zeros),
                format!("17{}", zeros),
                format!("18{}", zeros),
                nines.clone(),
                format!("{}.{}", nines, ones),
                format!(".{}", ones),
                format!("-.{}5", zeros),
                format!("0.{}1", zeros),
                format!("99999999.{}", ones),
                format!("1{}.{}", zeros, nines),
                format!(" + 1 {} . {}", zeros, ones),
            ];
            for t in texts {
                n_long += 1;
                programs += 1;
                rep.case(Some(format!("val-long:{}:{}", n, &t[..t.len().min(12)])));
                rep.bump("val.long-text");
                let text = format!("PRINT VAL(\"{}\")\n", t);
                let (ran, vals) = run_program_val(&text, 100_000);
                // the text as a decimal number: blanks are skipped by VAL, a leading sign is kept
                let cleaned: String = t.chars().filter(|c| *c != ' ').collect();
                let want: f64 = cleaned.parse::<f64>().unwrap_or(f64::NAN);
                let shown = if t.len() > 60 { format!("PRINT VAL(\"{}...{}\")  [{} characters, {} digits in the repeated part]", &t[..20], &t[t.len() - 12..], t.len(), n) } else { text.clone() };
                let verdict: Result<(), String> = match (&ran, vals.first()) {
                    (Ran::Panic, _) => Err("panic".into()),
                    (Ran::FrontEnd(e), _) => Err(format!("front end: {}", e)),
                    (Ran::Done { err: Some(6), .. }, _) => {
                        if want.is_infinite() { rep.bump("val.long-text.overflow"); Ok(()) } else { Err("Overflow (6)".into()) }
                    }
                    (Ran::Done { err: Some(c), .. }, _) => Err(format!("runtime error {}", c)),
                    (Ran::Done { err: None, .. }, Some(Variant::VDouble(got))) => {
                        if !got.is_finite() {
                            Err(format!("VAL returned {:?}", got))
                        } else if want.is_infinite() {
                            Err(format!("VAL returned {:?} for a number beyond the DOUBLE range", got))
                        } else if (got - want).abs() <= 1e-12 * want.abs() + 1e-300 {
                            rep.bump("val.long-text.value");
                            Ok(())
                        } else {
                            Err(format!("VAL returned {:?}", got))
                        }
                    }
                    (Ran::Done { err: None, .. }, other) => Err(format!("VAL's result slot holds {:?}", other)),
                };
                if let Err(got) = verdict {
                    rep.fail(Failure {
                        kind: Kind::ImplVsProperty,
                        signature: "val:long-text".into(),
                        input: shown,
                        implementation: got,
                        expected: if want.is_infinite() { "Overflow (6): the number does not fit a DOUBLE".into() } else { format!("a finite DOUBLE within 1e-12 of {:?}", want) },
                        note: "VAL never returns an infinity or a NaN; digits beyond the precision of a DOUBLE do not change the value".into(),
                    });
                }
            }
        }
        rep.notes.push(format!("VAL on {} texts of up to {} digits before / behind the point (beyond the model's fragment; oracle: the correctly rounded value)", n_long, digits.last().unwrap()));
    }
    rep.notes.push(format!("{} programs were run through the interpreter", programs));
    rep.finish();
}

/// The numeric prefix `val.rs` reads, in canonical form (`[-]digits[.digits]`, blanks dropped), computed
/// independently of the model from the scanner's rules, and a class name for the input distribution.
fn val_prefix_oracle(t: &str) -> (String, &'static str) {
    let mut out = String::new();
    let (mut seen_sign, mut seen_digit, mut seen_dot) = (false, false, false);
    let mut stopped_by: Option<char> = None;
    for c in t.chars() {
        if c == ' ' {
            continue;
        }
        if c.is_ascii_digit() {
            seen_digit = true;
            out.push(c);
        } else if c == '.' && !seen_dot {
            seen_dot = true;
            out.push(c);
        } else if (c == '-' || c == '+') && !seen_sign && !seen_digit && !seen_dot {
            seen_sign = true;
            if c == '-' {
                out.push(c);
            }
        } else {
            stopped_by = Some(c);
            break;
        }
    }
    if !seen_digit && !seen_dot {
        return (String::new(), "no-number");
    }
    if !seen_digit {
        // "." or "-.": VDouble(0.0), negated for "-."
        return (if out.starts_with('-') { "-0".to_owned() } else { "0".to_owned() }, "lone-decimal-point");
    }
    let class = match (seen_dot && !out.ends_with('.'), stopped_by) {
        (true, None) => "fraction",
        (true, Some('E' | 'D' | 'e' | 'd')) => "fraction-then-exponent-letter",
        (true, Some(_)) => "fraction-then-other-text",
        (false, None) => "whole",
        (false, Some('E' | 'D' | 'e' | 'd')) => "whole-then-exponent-letter",
        (false, Some(_)) => "whole-then-other-text",
    };
    if out.ends_with('.') {
        out.pop();
    }
    if out.starts_with('.') {
        out.insert(0, '0');
    }
    if out.starts_with("-.") {
        out.insert(1, '0');
    }
    (out, class)
}

/// `(double t|f num den)` → the f64 with that sign bit and exact magnitude (`num` has at most 53 significant bits
/// and `den` is a power of two, so both conversions and the division are exact).
fn parse_model_vq(ans: &str) -> Option<f64> {
    let inner = ans.strip_prefix("(double ")?.strip_suffix(')')?;
    let mut it = inner.split(' ');
    let neg = match it.next()? {
        "t" => true,
        "f" => false,
        _ => return None,
    };
    let num: f64 = it.next()?.parse().ok()?;
    let den: f64 = it.next()?.parse().ok()?;
    if it.next().is_some() || den == 0.0 {
        return None;
    }
    let x = num / den;
    Some(if neg { -x } else { x })
}

/// The exact value of a finite f64 as `m * 2^e` (for messages).
fn exact_rational(x: f64) -> String {
    let bits = x.to_bits();
    let exp = ((bits >> 52) & 0x7ff) as i64;
    let frac = bits & ((1u64 << 52) - 1);
    let (m, e) = if exp == 0 { (frac, -1074) } else { (frac | (1u64 << 52), exp - 1075) };
    format!("{}{} * 2^{}", if bits >> 63 == 1 { "-" } else { "" }, m, e)
}

/// Like `run_program_val`, and with every VAL result the value the variable `watch` holds at that moment.
fn run_program_val_watch(text: &str, budget: u64, watch: &str) -> (Ran, Vec<(Variant, Option<Variant>)>) {
    let seen: Rc<RefCell<(bool, Vec<(Variant, Option<Variant>)>)>> = Default::default();
    let seen2 = seen.clone();
    let watch = watch.to_owned();
    let observer = Box::new(move |s: &Snapshot| {
        if let Some(blocks) = &s.vars {
            let slot = blocks.iter().flat_map(|b| b.iter()).find(|(n, _)| n.eq_ignore_ascii_case("val#"));
            let mut g = seen2.borrow_mut();
            match slot {
                Some((_, v)) => {
                    if !g.0 {
                        g.0 = true;
                        let w = blocks.iter().flat_map(|b| b.iter()).find(|(n, _)| n.eq_ignore_ascii_case(&watch)).map(|(_, v)| v.clone());
                        g.1.push((v.clone(), w));
                    }
                }
                None => g.0 = false,
            }
        }
    });
    let ran = match std::panic::catch_unwind(std::panic::AssertUnwindSafe(|| run_in_memory(text, b"", budget, Some(observer), true))) {
        Ok(Ok(r)) => {
            let err = match &r.result {
                Ok(()) => None,
                Err(e) => Some(e.err().get_code()),
            };
            if r.budget_exhausted {
                Ran::FrontEnd("instruction budget exhausted".into())
            } else {
                Ran::Done { lines: split_lines(&r.stdout), err }
            }
        }
        Ok(Err(e)) => Ran::FrontEnd(format!("{:?}", e)),
        Err(_) => Ran::Panic,
    };
    let vals = seen.borrow().1.clone();
    (ran, vals)
}

/// `(double t|f m)` → (negative, magnitude)
fn parse_model_double(ans: &str) -> Option<(bool, u64)> {
    let inner = ans.strip_prefix("(double ")?.strip_suffix(')')?;
    let (s, m) = inner.split_once(' ')?;
    let neg = match s {
        "t" => true,
        "f" => false,
        _ => return None,
    };
    Some((neg, m.parse().ok()?))
}

/// Runs a program under the per-instruction observer and returns, besides the output, what every VAL call
/// left in its result slot (the variable `Val#` of the built-in's own context), in call order: one entry each
/// time the slot comes into existence.  This is the run-time TYPE and exact value of VAL's result, before
/// any conversion by an assignment and independent of the number printer.
fn run_program_val(text: &str, budget: u64) -> (Ran, Vec<Variant>) {
    let seen: Rc<RefCell<(bool, Vec<Variant>)>> = Default::default();
    let seen2 = seen.clone();
    let observer = Box::new(move |s: &Snapshot| {
        if let Some(blocks) = &s.vars {
            let slot = blocks.iter().flat_map(|b| b.iter()).find(|(n, _)| n.eq_ignore_ascii_case("val#"));
            let mut g = seen2.borrow_mut();
            match slot {
                Some((_, v)) => {
                    if !g.0 {
                        g.0 = true;
                        g.1.push(v.clone());
                    }
                }
                None => g.0 = false,
            }
        }
    });
    let ran = match std::panic::catch_unwind(std::panic::AssertUnwindSafe(|| run_in_memory(text, b"", budget, Some(observer), true))) {
        Ok(Ok(r)) => {
            let err = match &r.result {
                Ok(()) => None,
                Err(e) => Some(e.err().get_code()),
            };
            if r.budget_exhausted {
                Ran::FrontEnd("instruction budget exhausted".into())
            } else {
                Ran::Done { lines: split_lines(&r.stdout), err }
            }
        }
        Ok(Err(e)) => Ran::FrontEnd(format!("{:?}", e)),
        Err(_) => Ran::Panic,
    };
    let vals = seen.borrow().1.clone();
    (ran, vals)
}

/// A batch of `PRINT STR$(k); "|"; VAL(STR$(k))` lines: every line and every observed VAL result is checked.
/// `answers` holds, per k, the model's STR$ text and the model's VAL(STR$(k)).
fn check_valstr_batch(rep: &mut Report, text: &str, ks: &[i64], ran: Ran, vals: &[Variant], answers: &[String], sig: &str, how: &str) {
    match ran {
        Ran::Done { lines, err } if err.is_none() && lines.len() == ks.len() && vals.len() == ks.len() => {
            for (j, &k) in ks.iter().enumerate() {
                check_valstr(rep, k, &lines[j], &vals[j], &answers[2 * j], &answers[2 * j + 1], how);
            }
        }
        other => {
            let what = match other {
                Ran::Done { lines, err } => format!("{} lines, {} VAL results observed, error {:?}", lines.len(), vals.len(), err),
                Ran::FrontEnd(e) => e,
                Ran::Panic => "panic".into(),
            };
            rep.fail(Failure {
                kind: Kind::ImplVsProperty,
                signature: sig.to_owned(),
                input: text.chars().take(600).collect(),
                implementation: what,
                expected: format!("{} lines and VAL results, no error", ks.len()),
                note: format!("VAL(STR$(k)), {}", how),
            });
        }
    }
}

/// One line `STR$(k)|VAL(STR$(k))` and the observed result slot of that VAL call, against the property
/// (k comes back, as a DOUBLE), the decimal printer and the model.
fn check_valstr(rep: &mut Report, k: i64, line: &[u8], got: &Variant, model_str: &str, model_val: &str, how: &str) {
    rep.case(if k == 0 { None } else { Some(format!("valstr{}/{}", k, how)) });
    let text = String::from_utf8_lossy(line).to_string();
    let (l, r) = match text.split_once('|') {
        Some(x) => x,
        None => {
            rep.fail(Failure {
                kind: Kind::ImplVsProperty,
                signature: "valstr:format".into(),
                input: format!("k = {} ({})", k, how),
                implementation: text.clone(),
                expected: "STR$|VAL".into(),
                note: String::new(),
            });
            return;
        }
    };
    let want_str = if k >= 0 { format!(" {}", k) } else { format!("{}", k) };
    if l != want_str {
        rep.fail(Failure {
            kind: Kind::ImplVsProperty,
            signature: "str:decimal".into(),
            input: format!("STR$({}) ({})", k, how),
            implementation: l.to_owned(),
            expected: want_str.clone(),
            note: "STR$ prints a blank or a minus sign and the decimal digits".into(),
        });
    }
    // the value, exactly, and the run-time type
    let want = k as f64; // exact: |k| < 2^53
    match got {
        Variant::VDouble(x) if x.to_bits() == want.to_bits() => {}
        Variant::VDouble(x) => rep.fail(Failure {
            kind: Kind::ImplVsProperty,
            signature: "valstr:roundtrip".into(),
            input: format!("VAL(STR$({})) ({})", k, how),
            implementation: format!("VDouble({:?})", x),
            expected: format!("VDouble({:?})", want),
            note: "VAL(STR$(k)) = k".into(),
        }),
        other => rep.fail(Failure {
            kind: Kind::ImplVsProperty,
            signature: "val:result-type".into(),
            input: format!("VAL(STR$({})) ({})", k, how),
            implementation: format!("{:?}", other),
            expected: format!("VDouble({:?})", want),
            note: "VAL is a DOUBLE function: its result slot must hold a DOUBLE".into(),
        }),
    }
    // what PRINT shows for it (the number printer belongs to C16; whole doubles print as plain digits)
    if r.trim().parse::<i64>().ok() != Some(k) {
        rep.fail(Failure {
            kind: Kind::ImplVsProperty,
            signature: "valstr:printed".into(),
            input: format!("PRINT VAL(STR$({})) ({})", k, how),
            implementation: r.to_owned(),
            expected: k.to_string(),
            note: "VAL(STR$(k)) = k, as printed".into(),
        });
    }
    let codes = sx::ints(l.chars().map(|c| c as u32));
    if codes != model_str {
        rep.fail(Failure {
            kind: Kind::ModelVsImpl,
            signature: "model:strInt".into(),
            input: format!("STR$({}) ({})", k, how),
            implementation: codes,
            expected: model_str.to_owned(),
            note: "RbModel.Str.strInt / strWholeFloat".into(),
        });
    }
    let model_bits = parse_model_double(model_val).map(|(neg, m)| (if neg { -(m as f64) } else { m as f64 }).to_bits());
    let got_bits = match got {
        Variant::VDouble(x) => Some(x.to_bits()),
        _ => None,
    };
    if model_bits.is_none() || model_bits != got_bits {
        rep.fail(Failure {
            kind: Kind::ModelVsImpl,
            signature: "model:valstr".into(),
            input: format!("VAL(STR$({})) ({})", k, how),
            implementation: format!("{:?}", got),
            expected: model_val.to_owned(),
            note: "RbModel.Str.val (strInt k)".into(),
        });
    }
}
