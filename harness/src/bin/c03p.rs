//! C03 (phase A of the call simulation) — programs with SUBs and FUNCTIONs on the real pipeline vs the three
//! Lean models of `lean/RbModel/Proc/`:
//!   * `proc.compare`: `RbModel.Proc.Compile.compile p` = the real instruction list, instruction for instruction
//!     (positions, label names, resolved addresses, parameter names);
//!   * `proc.run`: `RbModel.Proc.Vm.run` on the model-compiled code = real outcome and stdout;
//!   * `proc.ref`: the big-step reference semantics `RbModel.Proc.Ref.run` = real outcome and stdout;
//!   * `proc.wf`: the premise checker `RbModel.Proc.progWfB` of the simulation theorem `Proc.compile_correct`
//!     (`lean/Thm/ProcSim.lean`), counted per program as `theorem-premise.progWfB-true` / `-false`.
//! Usage for debugging: `c03p <file.bas>` prints the three answers for one program.

use rb_harness::driver::ask;
use rb_harness::gen_prog::{generate, Opts};
use rb_harness::hdr_calls;
use rb_harness::json::J;
use rb_harness::proc_sx;
use rb_harness::refrun::{parse_ref_answer, run_real, Observed};
use rb_harness::report::{Failure, Kind, Report};
use rb_harness::rng::Rng;

const FUEL: u64 = 4000;
const BUDGET: u64 = 400_000;

// ------------------------------------------------------------------------------------------------
// dedicated generator

#[derive(Clone, Copy, PartialEq, Debug)]
enum T {
    Int,
    Long,
    Sgl,
    Dbl,
    Str,
}

fn sfx(t: T) -> &'static str {
    match t {
        T::Int => "%",
        T::Long => "&",
        T::Sgl => "!",
        T::Dbl => "#",
        T::Str => "$",
    }
}

#[derive(Clone)]
struct ProcInfo {
    name: String,
    is_fn: bool,
    ret: T,
    params: Vec<T>,
    recursive: bool,
    is_static: bool,
}

struct G<'a> {
    rng: &'a mut Rng,
    procs: Vec<ProcInfo>,
    /// procedures that may be called from the scope being generated
    callable: usize,
    /// Some(k) while generating the body of procedure k
    cur: Option<usize>,
    faults: bool,
    feats: Vec<&'static str>,
    for_depth: u32,
    arg_depth: u32,
    /// the program declares DIM SHARED variables (G%, H%, GL&, GS!, GD#, GT$) / global CONSTs (KI%, KL&, KD#, KT$)
    shared: bool,
    consts: bool,
}

impl<'a> G<'a> {
    fn feat(&mut self, f: &'static str) {
        if !self.feats.contains(&f) {
            self.feats.push(f);
        }
    }

    fn num_ty(&mut self) -> T {
        *self.rng.pick(&[T::Int, T::Int, T::Int, T::Long, T::Sgl, T::Dbl])
    }

    fn any_ty(&mut self) -> T {
        if self.rng.chance(1, 6) { T::Str } else { self.num_ty() }
    }

    /// a variable of type t in the current scope: parameters of that type, else the fixed pool (in a procedure the
    /// pool names are fresh locals of the activation)
    fn var(&mut self, t: T) -> String {
        if let Some(k) = self.cur {
            let ps: Vec<usize> = self.procs[k].params.iter().enumerate().filter(|(_, pt)| **pt == t).map(|(i, _)| i).collect();
            if !ps.is_empty() && self.rng.chance(3, 5) {
                return format!("P{}{}", self.rng.pick(&ps), sfx(t));
            }
            // (the function's own name is never read: that would be a call; it is only an assignment target)
        }
        if self.shared && self.rng.chance(1, 3) {
            self.feat(if self.cur.is_some() { "shared-in-proc" } else { "shared-in-main" });
            let names: &[&str] = match t {
                T::Int => &["G", "H"],
                T::Long => &["GL"],
                T::Sgl => &["GS"],
                T::Dbl => &["GD"],
                T::Str => &["GT"],
            };
            return format!("{}{}", *self.rng.pick(names), sfx(t));
        }
        let names: &[&str] = match t {
            T::Int => &["A", "B", "C"],
            T::Long => &["L", "M"],
            T::Sgl => &["S", "R"],
            T::Dbl => &["D", "E"],
            T::Str => &["T", "U"],
        };
        let n = *self.rng.pick(names);
        let n = if self.rng.chance(1, 6) { n.to_ascii_lowercase() } else { n.to_owned() };
        format!("{}{}", n, sfx(t))
    }

    fn lit(&mut self, t: T) -> String {
        if self.consts && t != T::Sgl && self.rng.chance(1, 5) {
            self.feat("const");
            return match t {
                T::Int => "KI%",
                T::Long => "KL&",
                T::Dbl => "KD#",
                _ => "KT$",
            }
            .to_owned();
        }
        match t {
            T::Int => format!("{}", self.rng.range(-3, 12)),
            T::Long => format!("{}", *self.rng.pick(&[0i64, 1, 7, 40000, 70000, -50000, 100000])),
            T::Sgl => (*self.rng.pick(&["0.5", "1.5", "2.25", "4.5", "-0.75"])).to_owned(),
            T::Dbl => (*self.rng.pick(&["0.5#", "1.25#", "2.5#", "-3.5#", "100000.5#"])).to_owned(),
            T::Str => format!("\"{}\"", *self.rng.pick(&["", "x", "ab", "Q r"])),
        }
    }

    fn fn_call(&mut self, want: Option<T>, depth: u32) -> Option<String> {
        let cands: Vec<usize> = (0..self.callable)
            .filter(|k| !(self.arg_depth > 0 && self.procs[*k].params.is_empty()))
            .filter(|k| self.procs[*k].is_fn && want.map(|w| (w == T::Str) == (self.procs[*k].ret == T::Str)).unwrap_or(true))
            .collect();
        if cands.is_empty() {
            return None;
        }
        let k = *self.rng.pick(&cands);
        Some(self.call_text(k, depth))
    }

    /// the text of a call of procedure k (FUNCTION: an expression, SUB: a statement)
    fn call_text(&mut self, k: usize, depth: u32) -> String {
        let info = self.procs[k].clone();
        let mut args = vec![];
        let mut first_ref: Option<String> = None;
        // (a parameterless FUNCTION inside an argument list is rejected by the linter: DuplicateDefinition)
        self.arg_depth += 1;
        for (i, p) in info.params.iter().enumerate() {
            // the first argument of a recursive procedure is its depth: keep it small
            if info.recursive && i == 0 {
                if self.cur == Some(k) {
                    args.push("P0% - 1".to_owned());
                } else {
                    args.push(format!("{}", self.rng.range(0, 3)));
                }
                continue;
            }
            let a = match self.rng.below(10) {
                0..=3 => {
                    // by reference; sometimes the SAME variable as an earlier by-reference argument (aliasing)
                    let v = match &first_ref {
                        Some(f) if f.ends_with(sfx(*p)) && self.rng.chance(1, 2) => {
                            self.feat("alias");
                            f.clone()
                        }
                        _ => self.var(*p),
                    };
                    if first_ref.is_none() {
                        first_ref = Some(v.clone());
                    }
                    self.feat("by-ref");
                    v
                }
                4 => self.lit(*p),
                5 => {
                    self.feat("paren-var");
                    format!("({})", self.var(*p))
                }
                6 | 7 => {
                    // by value with conversion (may overflow)
                    if *p == T::Str {
                        self.expr(T::Str, 1)
                    } else {
                        let other = self.num_ty();
                        if other != *p {
                            self.feat("by-val-conversion");
                        }
                        let e = self.expr(other, 1);
                        format!("({})", e)
                    }
                }
                _ => {
                    if depth > 0 {
                        match self.fn_call(Some(*p), depth - 1) {
                            Some(c) => {
                                self.feat("call-in-args");
                                c
                            }
                            None => self.lit(*p),
                        }
                    } else {
                        self.lit(*p)
                    }
                }
            };
            args.push(a);
        }
        self.arg_depth -= 1;
        let name = if self.rng.chance(1, 5) { info.name.to_ascii_lowercase() } else { info.name.clone() };
        if info.is_fn {
            if args.is_empty() { name } else { format!("{}({})", name, args.join(", ")) }
        } else if args.is_empty() {
            name
        } else {
            format!("{} {}", name, args.join(", "))
        }
    }

    fn expr(&mut self, t: T, depth: u32) -> String {
        if t == T::Str {
            return match self.rng.below(4) {
                0 => self.lit(T::Str),
                1 if depth > 0 => format!("{} + {}", self.var(T::Str), self.lit(T::Str)),
                2 if depth > 0 => self.fn_call(Some(T::Str), depth - 1).unwrap_or_else(|| self.var(T::Str)),
                _ => self.var(T::Str),
            };
        }
        if depth == 0 {
            return if self.rng.chance(1, 2) { self.var(t) } else { self.lit(t) };
        }
        match self.rng.below(9) {
            0 | 1 => {
                let l = self.expr(t, depth - 1);
                let r = self.expr(t, depth - 1);
                format!("{} {} {}", l, *self.rng.pick(&["+", "-", "*"]), r)
            }
            2 => {
                let o = self.num_ty();
                let l = self.expr(t, depth - 1);
                let r = self.expr(o, depth - 1);
                format!("{} + {}", l, r)
            }
            3 => format!("({})", self.expr(t, depth - 1)),
            4 => format!("-{}", self.var(t)),
            5 | 6 => match self.fn_call(Some(t), depth - 1) {
                Some(c) => {
                    self.feat("function-call");
                    c
                }
                None => self.var(t),
            },
            7 if self.faults && self.rng.chance(1, 6) => {
                self.feat("fault");
                format!("{} / 0", self.var(t))
            }
            7 => format!("{} / 2", self.lit(T::Int)),
            _ => self.var(t),
        }
    }

    fn cond(&mut self) -> String {
        let t = self.num_ty();
        let l = self.expr(t, 1);
        let r = self.expr(t, 0);
        format!("{} {} {}", l, *self.rng.pick(&["<", ">", "=", "<>", "<=", ">="]), r)
    }

    fn block(&mut self, depth: u32, out: &mut Vec<String>, ind: &str) {
        let n = self.rng.range(1, 3);
        for _ in 0..n {
            self.stmt(depth, out, ind);
        }
    }

    fn stmt(&mut self, depth: u32, out: &mut Vec<String>, ind: &str) {
        let inner = format!("{}  ", ind);
        match self.rng.below(if depth > 0 { 16 } else { 10 }) {
            0 | 1 => {
                let t = self.any_ty();
                let v = self.var(t);
                let e = self.expr(t, 2);
                out.push(format!("{}{} = {}", ind, v, e));
            }
            2 => {
                // assignment with conversion
                let t = self.num_ty();
                let o = self.num_ty();
                let v = self.var(t);
                let e = self.expr(o, 1);
                out.push(format!("{}{} = {}", ind, v, e));
            }
            3 | 4 => {
                let mut items = vec![];
                for _ in 0..self.rng.range(1, 3) {
                    let t = self.any_ty();
                    let e = self.expr(t, 1);
                    items.push(e);
                }
                let sep = *self.rng.pick(&["; ", ", "]);
                let tail = *self.rng.pick(&["", "", ";"]);
                out.push(format!("{}PRINT {}{}", ind, items.join(sep), tail));
            }
            5 | 6 | 7 => {
                let subs: Vec<usize> = (0..self.callable).filter(|k| !self.procs[*k].is_fn).collect();
                if subs.is_empty() {
                    match self.fn_call(None, 1) {
                        Some(c) => out.push(format!("{}PRINT {}", ind, c)),
                        None => out.push(format!("{}PRINT \"-\"", ind)),
                    }
                } else {
                    let k = *self.rng.pick(&subs);
                    self.feat("sub-call");
                    let c = self.call_text(k, 2);
                    out.push(format!("{}{}", ind, c));
                }
            }
            8 => {
                if let Some(k) = self.cur {
                    if self.procs[k].is_fn && self.rng.chance(2, 3) {
                        let t = self.procs[k].ret;
                        let e = self.expr(t, 1);
                        out.push(format!("{}{} = {}", ind, self.procs[k].name, e));
                        return;
                    }
                }
                let t = self.any_ty();
                out.push(format!("{}PRINT {}", ind, self.var(t)));
            }
            9 => {
                if let Some(k) = self.cur {
                    let kw = if self.procs[k].is_fn { "FUNCTION" } else { "SUB" };
                    self.feat("exit");
                    let c = self.cond();
                    if self.rng.chance(1, 8) {
                        self.feat("end-in-proc");
                        out.push(format!("{}IF {} THEN END", ind, c));
                    } else {
                        out.push(format!("{}IF {} THEN EXIT {}", ind, c, kw));
                    }
                } else {
                    let t = self.num_ty();
                    out.push(format!("{}PRINT {}", ind, self.lit(t)));
                }
            }
            10 | 11 => {
                let c = self.cond();
                out.push(format!("{}IF {} THEN", ind, c));
                self.block(depth - 1, out, &inner);
                if self.rng.chance(1, 2) {
                    out.push(format!("{}ELSE", ind));
                    self.block(depth - 1, out, &inner);
                }
                out.push(format!("{}END IF", ind));
            }
            12 | 13 => {
                self.feat("for");
                self.for_depth += 1;
                let c = format!("I{}%", self.for_depth);
                let hi = self.rng.range(1, 3);
                // steps other than 1 and of both signs: a FOR at the top level of a FUNCTION leaves its limit and step in the
                // register frame of its caller (user FUNCTION calls in the headers themselves: family header-calls and the
                // shared generator; here they multiplied the work of the Lean interpreters beyond the quick tier's time)
                let (from, to, step): (i64, i64, Option<i64>) = match self.rng.below(10) {
                    0 | 1 => (1, hi, Some(1)),
                    2 => (1, 2 * hi, Some(2)),
                    3 => (hi, 1, Some(-1)),
                    4 => (3 * hi, 1, Some(-3)),
                    _ => (1, hi, None),
                };
                if step.map(|k| k != 1).unwrap_or(false) {
                    self.feat("for-step-not-1");
                }
                let step_s = match step {
                    Some(k) => format!(" STEP {}", k),
                    None => String::new(),
                };
                out.push(format!("{}FOR {} = {} TO {}{}", ind, c, from, to, step_s));
                if self.rng.chance(1, 3) {
                    out.push(format!("{}PRINT {};", inner, c));
                }
                self.block(depth - 1, out, &inner);
                // leaving the procedure from inside a FOR body on its last round
                if let Some(k) = self.cur {
                    if self.rng.chance(1, 3) {
                        self.feat("exit-in-for");
                        let kw = if self.procs[k].is_fn { "FUNCTION" } else { "SUB" };
                        let last = if step.map(|k| k < 0).unwrap_or(false) { 1 } else { hi };
                        out.push(format!("{}IF {} = {} THEN EXIT {}", inner, c, last, kw));
                    }
                }
                out.push(format!("{}NEXT", ind));
                self.for_depth -= 1;
            }
            14 => {
                self.feat("select");
                let e = self.expr(T::Int, 1);
                out.push(format!("{}SELECT CASE {}", ind, e));
                out.push(format!("{}CASE {}", ind, self.rng.range(0, 3)));
                self.block(depth - 1, out, &inner);
                if self.rng.chance(1, 2) {
                    let ce = self.expr(T::Int, 1);
                    out.push(format!("{}CASE IS > {}", ind, ce));
                    self.block(depth - 1, out, &inner);
                }
                out.push(format!("{}CASE ELSE", ind));
                self.block(depth - 1, out, &inner);
                // leaving the procedure from inside a SELECT block: the selector must not stay on the value stack
                // (the caller may have a pending operand there)
                if let Some(k) = self.cur {
                    if self.rng.chance(1, 2) {
                        self.feat("exit-in-select");
                        let kw = if self.procs[k].is_fn { "FUNCTION" } else { "SUB" };
                        out.push(format!("{}EXIT {}", inner, kw));
                    }
                }
                out.push(format!("{}END SELECT", ind));
            }
            _ => {
                let w = format!("W{}%", depth);
                out.push(format!("{}{} = 0", ind, w));
                // WHILE and the four DO forms; one draw gives the bound (1..3, as `range(1, 3)` would) and the form, so that
                // the generator consumes its random stream exactly as before
                let r = self.rng.below(24);
                let n = 1 + r % 3;
                let form = r / 3;
                let lhs = w.clone();
                let (head, tail) = match form {
                    0 => (format!("DO WHILE {} < {}", lhs, n), "LOOP".to_owned()),
                    1 => (format!("DO UNTIL {} >= {}", lhs, n), "LOOP".to_owned()),
                    2 => ("DO".to_owned(), format!("LOOP WHILE {} < {}", lhs, n)),
                    3 => ("DO".to_owned(), format!("LOOP UNTIL {} >= {}", lhs, n)),
                    _ => (format!("WHILE {} < {}", lhs, n), "WEND".to_owned()),
                };
                self.feat(if form < 4 { "do" } else { "while" });
                out.push(format!("{}{}", ind, head));
                out.push(format!("{}{} = {} + 1", inner, w, w));
                self.block(depth - 1, out, &inner);
                out.push(format!("{}{}", ind, tail));
            }
        }
    }

    fn program(&mut self) -> String {
        let n = self.rng.range(1, 4) as usize;
        for k in 0..n {
            let is_fn = self.rng.chance(1, 2);
            let ret = self.any_ty();
            let np = self.rng.range(0, 3);
            let mut params: Vec<T> = (0..np).map(|_| self.any_ty()).collect();
            let recursive = self.rng.chance(1, 3);
            let is_static = self.rng.chance(2, 5);
            if recursive {
                if params.is_empty() {
                    params.push(T::Int);
                } else {
                    params[0] = T::Int;
                }
            }
            self.procs.push(ProcInfo {
                name: if is_fn { format!("Fn{}{}", k, sfx(ret)) } else { format!("Pr{}", k) },
                is_fn,
                ret,
                params,
                recursive,
                is_static,
            });
        }
        let mut lines = vec![];
        if self.rng.chance(1, 2) {
            for p in self.procs.clone() {
                let plist: Vec<String> = p.params.iter().enumerate().map(|(i, t)| format!("P{}{}", i, sfx(*t))).collect();
                lines.push(format!("DECLARE {} {} ({})", if p.is_fn { "FUNCTION" } else { "SUB" }, p.name, plist.join(", ")));
            }
        }
        if self.shared {
            lines.push("DIM SHARED G%, H%".to_owned());
            lines.push("DIM SHARED GL&, GS!, GD#, GT$".to_owned());
        }
        if self.consts {
            lines.push("CONST KI% = 3".to_owned());
            lines.push("CONST KL& = 70000".to_owned());
            lines.push("CONST KD# = 2.5#".to_owned());
            lines.push("CONST KT$ = \"k\"".to_owned());
        }
        // main module
        self.cur = None;
        self.callable = n;
        let m = self.rng.range(3, 7);
        for _ in 0..m {
            self.stmt(2, &mut lines, "");
        }
        // one more call of every procedure, so that each is exercised
        for k in 0..n {
            let c = self.call_text(k, 1);
            if self.procs[k].is_fn {
                lines.push(format!("PRINT {}", c));
            } else {
                lines.push(c);
            }
        }
        lines.push("PRINT A%; B%; C%; L&; T$".to_owned());
        if self.shared {
            lines.push("PRINT G%; H%; GL&; GT$".to_owned());
        }
        if self.rng.chance(1, 2) {
            lines.push("END".to_owned());
        }
        // procedures: k may call the procedures before it, and itself when recursive
        for k in 0..n {
            let p = self.procs[k].clone();
            let plist: Vec<String> = p.params.iter().enumerate().map(|(i, t)| format!("P{}{}", i, sfx(*t))).collect();
            let kw = if p.is_fn { "FUNCTION" } else { "SUB" };
            lines.push(String::new());
            let st = if p.is_static { " STATIC" } else { "" };
            lines.push(if plist.is_empty() && self.rng.chance(1, 2) {
                format!("{} {}{}", kw, p.name, st)
            } else {
                format!("{} {} ({}){}", kw, p.name, plist.join(", "), st)
            });
            self.cur = Some(k);
            self.callable = k;
            let mut body = vec![];
            // the result is assigned before the recursive call and nowhere after it
            let mut result_before_only = false;
            if p.is_static {
                // a counter that must persist from one call to the next, wherever the calls come from
                self.feat("static");
                body.push("  CNT% = CNT% + 1".to_owned());
                body.push(format!("  PRINT \"{}#\"; CNT%;", p.name));
                if p.recursive {
                    self.feat("static-recursion");
                }
            }
            if p.recursive {
                self.feat("recursion");
                body.push("  IF P0% > 0 AND P0% < 4 THEN".to_owned());
                // the recursive call: depth - 1 by value, the other arguments as usual
                self.callable = k + 1;
                let c = self.call_text(k, 0);
                self.callable = k;
                if p.is_fn && self.rng.chance(1, 2) {
                    // the result is assigned BEFORE the recursive call, whose value goes to a local: the activation returns
                    // what it assigned itself, whatever the inner activations did with their results
                    self.feat("recursion-result-before-call");
                    let e = self.expr(p.ret, 1);
                    body.push(format!("    {} = {}", p.name, e));
                    body.push(format!("    RV{} = {}", sfx(p.ret), c));
                    result_before_only = self.rng.chance(1, 2);
                } else if p.is_fn {
                    if p.ret == T::Str {
                        body.push(format!("    {} = {} + \"r\"", p.name, c));
                    } else {
                        body.push(format!("    {} = {} + 1", p.name, c));
                    }
                } else {
                    body.push(format!("    {}", c));
                }
                body.push("  END IF".to_owned());
            }
            for (i, t) in p.params.iter().enumerate() {
                if self.rng.chance(1, 2) && !(p.recursive && i == 0) {
                    let e = self.expr(*t, 1);
                    body.push(format!("  P{}{} = {}", i, sfx(*t), e));
                }
            }
            let m = self.rng.range(1, 4);
            for _ in 0..m {
                self.stmt(2, &mut body, "  ");
            }
            if result_before_only {
                self.feat("recursion-result-before-call-only");
            } else if p.is_fn && p.is_static && self.rng.chance(1, 2) {
                // a STATIC function that assigns its result on some calls only: the other calls must yield zero / ""
                self.feat("static-function-assigns-sometimes");
                let e = self.expr(p.ret, 1);
                let n = self.rng.range(1, 2);
                body.push(format!("  IF CNT% = {} THEN {} = {}", n, p.name, e));
            } else if p.is_fn && self.rng.chance(3, 4) {
                let e = self.expr(p.ret, 1);
                body.push(format!("  {} = {}", p.name, e));
            } else if p.is_fn {
                self.feat("function-without-assignment");
            }
            lines.extend(body);
            lines.push(format!("END {}", kw));
        }
        lines.join("\n") + "\n"
    }
}

fn gen_dedicated(rng: &mut Rng, faults: bool) -> (String, Vec<&'static str>) {
    let shared = rng.chance(3, 5);
    let consts = rng.chance(2, 5);
    let mut g = G { rng, procs: vec![], callable: 0, cur: None, faults, feats: vec![], for_depth: 0, arg_depth: 0, shared, consts };
    let text = g.program();
    (text, g.feats)
}

fn shared_opts(faults: bool) -> Opts {
    Opts {
        max_depth: 2,
        max_block: 3,
        top_stmts: 7,
        subs: true,
        gosub: false,
        goto_fwd: false,
        on_error: false,
        data: true,
        strings: true,
        floats: true,
        select: true,
        division: true,
        faults,
        jumps_out: false,
        relayout: true,
    }
}

// ------------------------------------------------------------------------------------------------

struct Case {
    text: String,
    prog: String,
    tables: String,
    code: String,
    feats: String,
}

fn disagree(real: &Observed, m: &(String, Vec<u8>, String)) -> Option<&'static str> {
    if real.outcome != m.0 {
        return Some("outcome");
    }
    if real.out != m.1 {
        return Some("output");
    }
    None
}

/// which of the three comparisons fail for a program text (used by the shrinker and the debug mode)
fn verdicts(text: &str) -> Option<(Observed, String, String, String)> {
    let (pp, code) = proc_sx::src_and_code(text)?;
    let real = run_real(text, b"", BUDGET);
    let ans = ask(&[
        format!("(proc.compare {} {} {})", pp.program, pp.tables, code),
        format!("(proc.run {} {})", BUDGET, pp.program),
        format!("(proc.ref {} {})", FUEL, pp.program),
    ]);
    Some((real, ans[0].clone(), ans[1].clone(), ans[2].clone()))
}

fn fails(text: &str, which: &str, what: &str) -> bool {
    // a candidate that loops (a deleted loop increment) is not a smaller failing program, and the model interpreters would
    // burn their whole budget on it: look at the real run first
    if proc_sx::src_and_code(text).is_none() || run_real(text, b"", BUDGET).outcome == "budget" {
        return false;
    }
    let Some((real, cmp, vm, rf)) = verdicts(text) else { return false };
    if real.outcome == "budget" {
        return false;
    }
    match which {
        "compile" => !cmp.starts_with("(same") && !cmp.starts_with("(not-core"),
        "vm" => parse_ref_answer(&vm).map(|m| m.0 != "outOfFuel" && m.0 != "stuck" && disagree(&real, &m) == Some(if what == "outcome" { "outcome" } else { "output" })).unwrap_or(false),
        _ => parse_ref_answer(&rf)
            .map(|m| m.0 != "outOfFuel" && m.0 != "inexact" && disagree(&real, &m) == Some(if what == "outcome" { "outcome" } else { "output" }))
            .unwrap_or(false),
    }
}

fn shrink(text: &str, which: &str, what: &str) -> String {
    let deadline = std::time::Instant::now() + std::time::Duration::from_secs(20);
    let mut lines: Vec<String> = text.lines().map(|l| l.to_owned()).collect();
    let mut changed = true;
    let mut rounds = 0;
    while changed && rounds < 6 && std::time::Instant::now() < deadline {
        changed = false;
        rounds += 1;
        let mut i = 0;
        while i < lines.len() && std::time::Instant::now() < deadline {
            let mut cand = lines.clone();
            cand.remove(i);
            let t = cand.join("\n") + "\n";
            if fails(&t, which, what) {
                lines = cand;
                changed = true;
                continue;
            }
            i += 1;
        }
    }
    lines.join("\n") + "\n"
}

fn main() {
    if let Some(path) = std::env::args().nth(1) {
        let text = std::fs::read_to_string(path).unwrap();
        if std::env::var("VERIF_C03P_SHOW").is_ok() {
            if let Some((pp, code)) = proc_sx::src_and_code(&text) {
                println!("program {}\ntables  {}\ncode    {}", pp.program, pp.tables, code);
            }
        }
        match verdicts(&text) {
            None => {
                let t = text.clone();
                let why = std::panic::catch_unwind(move || match rusty_parser::parse_main_str(t) {
                    Err(e) => format!("parser: {:?}", e),
                    Ok(p) => match rusty_linter::core::lint(p) {
                        Err(e) => format!("linter: {:?}", e),
                        Ok(_) => "accepted by the front end, outside the modelled language".to_owned(),
                    },
                })
                .unwrap_or_else(|_| "front end panicked".to_owned());
                println!("not compared: {}", why);
            }
            Some((real, cmp, vm, rf)) => {
                println!("real    {} / {:?}", real.outcome, String::from_utf8_lossy(&real.out));
                println!("compare {}", cmp);
                println!("vm      {:?}", parse_ref_answer(&vm).map(|m| (m.0, String::from_utf8_lossy(&m.1).to_string())));
                println!("ref     {:?}", parse_ref_answer(&rf).map(|m| (m.0, String::from_utf8_lossy(&m.1).to_string())));
            }
        }
        return;
    }
    std::panic::set_hook(Box::new(|_| {}));
    let mut rng = Rng::from_env();
    let mut rep = Report::new(
        "C03",
        "programs with SUBs and FUNCTIONs (scalars; no GOSUB/ON ERROR): a dedicated generator (1-4 procedures, 0-3 typed \
         parameters, bounded self-recursion, calls nested in argument lists, the same variable passed twice, by-value arguments converted \
         to the parameter type with overflow faults, FUNCTION without assignment, unused parameters, EXIT SUB/FUNCTION and END inside \
         procedures, calls inside IF/FOR/WHILE/SELECT and inside PRINT lists; FOR with \
         steps 1 / 2 / -1 / -3, WHILE and the four DO forms; DIM SHARED variables read, written and passed by reference \
         in the main module and in procedures; STATIC procedures — also recursive ones — with a call counter, called from the main module \
         and from other procedures between calls of ordinary ones, their variables passed by reference; global CONSTs) + the directed \
         family header-calls (a user FUNCTION called from every header position: FOR lower / upper bound / STEP, the five loop \
         conditions, IF / ELSEIF, SELECT selector, CASE items simple / IS / range, PRINT items; callee bodies with FOR of every step \
         kind, SELECT CASE, calls in their own FOR header, EXIT FUNCTION inside FOR, STATIC, recursion, at their top level and nested; \
         eight enclosing contexts) + the shared \
         program generator with procedures on; each \
         program: model-compiled instruction list = real list, VM model on it = real outcome and stdout, reference semantics = real \
         outcome and stdout. class = (feature set, outcome kind); non-trivial = at least one user procedure called.",
    );
    let thorough = rep.is_thorough();
    let (n_ded, n_shared) = if thorough { (6_000, 3_000) } else { (400, 200) };
    let mut cases: Vec<Case> = vec![];
    let mut outside = 0u64;
    let mut shown_outside = 0;
    // directed family header-calls (harness/src/hdr_calls.rs): a user FUNCTION called from every header position of every
    // construct x callee bodies using every register- / stack-holding construct at their top level and nested x enclosing
    // contexts; quick: half of the (position, callee) pairs of the layer's language in one context drawn at random, thorough: all.
    // The choices come from a stream of their own, so that the generated programs stay what they were; the family comes first:
    // its programs are small, a failure on one of them is the replay
    {
        let mut hrng = Rng(rng.seed() ^ 0x4843_414c_4c53);
        let mut hc_outside = 0u64;
        let half = hrng.below(2) as usize;
        for pos in 0..hdr_calls::N_POS {
            for shape in 0..hdr_calls::N_SHAPES {
                if hdr_calls::uses_arrays(pos) || hdr_calls::uses_gosub(shape) {
                    rep.bump("header-calls.skipped.arrays-or-gosub-outside-the-layer");
                    continue;
                }
                // quick: half of the (position, callee) pairs — which half depends on the seed — in one context each
                // (C02's quick tier runs every pair); thorough: every pair in every context
                if !thorough && (pos + shape + half) % 2 == 1 {
                    continue;
                }
                let ctxs: Vec<usize> =
                    if thorough { (0..hdr_calls::N_CTX).collect() } else { vec![hrng.below(hdr_calls::N_CTX as u64) as usize] };
                for ctx in ctxs {
                    let text = hdr_calls::program(pos, shape, ctx);
                    match proc_sx::src_and_code(&text) {
                        Some((pp, code)) => {
                            rep.bump("header-calls.programs");
                            rep.bump(&format!("header-calls.position.{}", hdr_calls::pos_name(pos)));
                            rep.bump(&format!("header-calls.callee.{}", hdr_calls::shape_name(shape)));
                            rep.bump(&format!("header-calls.context.{}", hdr_calls::ctx_name(ctx)));
                            cases.push(Case {
                                text,
                                prog: pp.program,
                                tables: pp.tables,
                                code,
                                feats: format!(
                                    "header-calls:{}+{}+{}",
                                    hdr_calls::pos_name(pos),
                                    hdr_calls::shape_name(shape),
                                    hdr_calls::ctx_name(ctx)
                                ),
                            });
                        }
                        None => {
                            hc_outside += 1;
                            if hc_outside <= 2 {
                                rep.sample(J::s(format!(
                                    "header-calls program rejected by the front end or outside the modelled language:\n{}",
                                    text
                                )));
                            }
                        }
                    }
                }
            }
        }
        rep.bump_by("header-calls.rejected-or-outside", hc_outside);
    }
    for k in 0..n_ded {
        let (text, feats) = gen_dedicated(&mut rng, k % 3 == 0);
        match proc_sx::src_and_code(&text) {
            Some((pp, code)) => {
                for f in feats.iter().filter(|f| **f == "call-in-args" || **f == "for-step-not-1" || **f == "do") {
                    rep.bump(&format!("dedicated.feature.{}", f));
                }
                cases.push(Case { text, prog: pp.program, tables: pp.tables, code, feats: feats.join("+") })
            }
            None => {
                outside += 1;
                if let Ok(dir) = std::env::var("VERIF_C03P_DUMP") {
                    let _ = std::fs::write(format!("{}/rej{}.bas", dir, k), &text);
                }
                if shown_outside < 2 {
                    shown_outside += 1;
                    rep.sample(J::s(format!("rejected by the front end or outside the modelled language:\n{}", text)));
                }
            }
        }
    }
    rep.bump_by("generated.dedicated", n_ded as u64);
    rep.bump_by("generated.dedicated.rejected-or-outside", outside);
    let mut outside_shared = 0u64;
    for k in 0..n_shared {
        let (text, feats) = generate(&mut rng, &shared_opts(k % 3 == 0));
        if !text.contains("SUB ") && !text.contains("FUNCTION ") {
            continue;
        }
        match proc_sx::src_and_code(&text) {
            Some((pp, code)) if pp.n_procs > 0 => {
                cases.push(Case { text, prog: pp.program, tables: pp.tables, code, feats: format!("shared:{}", feats.join("+")) })
            }
            _ => outside_shared += 1,
        }
    }
    rep.bump_by("generated.shared.outside", outside_shared);
    // real runs, in parallel
    let reals: Vec<Observed> = {
        let texts: Vec<String> = cases.iter().map(|c| c.text.clone()).collect();
        let n_threads = 8;
        let chunk = (texts.len() + n_threads - 1) / n_threads.max(1);
        let mut handles = vec![];
        for part in texts.chunks(chunk.max(1)) {
            let part: Vec<String> = part.to_vec();
            handles.push(std::thread::spawn(move || part.iter().map(|t| run_real(t, b"", BUDGET)).collect::<Vec<_>>()));
        }
        handles.into_iter().flat_map(|h| h.join().unwrap()).collect()
    };
    let canswers = ask(&cases.iter().map(|c| format!("(proc.compare {} {} {})", c.prog, c.tables, c.code)).collect::<Vec<_>>());
    // a program whose REAL run exhausts its instruction budget is discarded below (`discarded.real-budget`): do not let
    // the models burn their whole budget on it (nested non-terminating loops cost fuel^depth in the big-step reference)
    let cheap = |k: usize| reals[k].outcome == "budget";
    let vanswers = ask(
        &cases.iter().enumerate().map(|(k, c)| format!("(proc.run {} {})", if cheap(k) { 1 } else { BUDGET }, c.prog)).collect::<Vec<_>>(),
    );
    let ranswers = ask(
        &cases.iter().enumerate().map(|(k, c)| format!("(proc.ref {} {})", if cheap(k) { 1 } else { FUEL }, c.prog)).collect::<Vec<_>>(),
    );
    // how many explored programs satisfy the premise of Proc.compile_correct (decided by the checker
    // RbModel.Proc.progWfB, proved sound in Thm/ProcWf.lean)
    let wanswers = ask(&cases.iter().map(|c| format!("(proc.wf {})", c.prog)).collect::<Vec<_>>());
    let mut outside_shown = 0;
    for (k, a) in wanswers.iter().enumerate() {
        if a.starts_with("(wf true") {
            rep.bump("theorem-premise.progWfB-true");
        } else if a.starts_with("(wf false") {
            rep.bump("theorem-premise.progWfB-false");
            if outside_shown < 2 {
                outside_shown += 1;
                rep.sample(J::s(format!("outside the premise of Proc.compile_correct:\n{}", cases[k].text)));
            }
        } else {
            rep.bump("theorem-premise.unreadable");
        }
    }
    let mut shrunk = 0;
    // the property-level failures have their own shrinking budget (the model-level ones must not use it up)
    let mut shrunk_ref = 0;
    for (k, c) in cases.iter().enumerate() {
        let real = &reals[k];
        let okind = real.outcome.split(' ').take(2).collect::<Vec<_>>().join(" ");
        rep.case(Some(format!("{}|{}", c.feats, okind)));
        rep.bump(&format!("outcome.{}", okind));
        for f in c.feats.split('+').filter(|f| f.starts_with("recursion") || f.starts_with("static")) {
            rep.bump(&format!("feature.{}", f));
        }
        if k < 2 || k == cases.len() - 1 {
            rep.sample(J::s(c.text.clone()));
        }
        // 1. the generator model
        let a = &canswers[k];
        if a.starts_with("(same") {
            rep.bump("compile-model.same");
            let n: u64 = a.trim_matches(|ch| ch == '(' || ch == ')').split(' ').nth(1).and_then(|x| x.parse().ok()).unwrap_or(0);
            rep.bump_by("compile-model.instructions-compared", n);
        } else if a.starts_with("(not-core") {
            rep.bump("compile-model.instruction-outside-model");
        } else {
            let parts: Vec<&str> = a.trim_matches(|ch| ch == '(' || ch == ')').split(' ').collect();
            let kind: String = parts
                .get(2)
                .map(|x| x.split('@').next().unwrap_or("").chars().take_while(|ch| !ch.is_ascii_digit() && *ch != ':').collect())
                .unwrap_or_default();
            let text = if shrunk < 4 {
                shrunk += 1;
                shrink(&c.text, "compile", "")
            } else {
                c.text.clone()
            };
            rep.fail(Failure {
                kind: Kind::ModelVsImpl,
                signature: format!("proc-compile:{}:{}", parts.first().unwrap_or(&"?"), kind),
                input: text,
                implementation: a.clone(),
                expected: "RbModel.Proc.Compile.compile = normalise(real instruction list)".into(),
                note: "(differ <index> <model instr> <real instr> <model len> <real len>) | (ill-formed) | (bad-op)".into(),
            });
        }
        if real.outcome == "budget" {
            rep.bump("discarded.real-budget");
            continue;
        }
        // 2. the VM model
        match parse_ref_answer(&vanswers[k]) {
            None => rep.bump("vm-model.unreadable"),
            Some(vm) => {
                if vm.0 == "outOfFuel" {
                    rep.bump("vm-model.discarded-fuel");
                } else if vm.0 == "stuck" {
                    rep.bump("vm-model.stuck-or-inexact");
                } else if let Some(what) = disagree(real, &vm) {
                    let text = if shrunk < 4 {
                        shrunk += 1;
                        shrink(&c.text, "vm", what)
                    } else {
                        c.text.clone()
                    };
                    rep.fail(Failure {
                        kind: Kind::ModelVsImpl,
                        signature: format!("proc-vm:{}", what),
                        input: text,
                        implementation: format!("{} / {:?}", real.outcome, String::from_utf8_lossy(&real.out)),
                        expected: format!("{} / {:?}", vm.0, String::from_utf8_lossy(&vm.1)),
                        note: "real pipeline vs RbModel.Proc.Vm.run (RbModel.Proc.Compile.compile p) (before shrinking)".into(),
                    });
                } else {
                    rep.bump("vm-model.same");
                }
            }
        }
        // 3. the reference semantics
        match parse_ref_answer(&ranswers[k]) {
            None => {
                rep.fail(Failure {
                    kind: Kind::ModelVsImpl,
                    signature: "proc-ref:unreadable".into(),
                    input: c.text.clone(),
                    implementation: c.prog.chars().take(300).collect(),
                    expected: ranswers[k].clone(),
                    note: "the Lean reader rejected the serialised program".into(),
                });
            }
            Some(rf) => {
                if rf.0 == "inexact" {
                    rep.bump("ref.discarded-inexact-float");
                } else if rf.0 == "outOfFuel" {
                    rep.bump("ref.discarded-fuel");
                } else if let Some(what) = disagree(real, &rf) {
                    let text = if shrunk_ref < 3 {
                        shrunk_ref += 1;
                        shrink(&c.text, "ref", what)
                    } else {
                        c.text.clone()
                    };
                    rep.fail(Failure {
                        kind: Kind::ImplVsProperty,
                        signature: format!("proc-ref:{}", what),
                        input: text,
                        implementation: format!("{} / {:?}", real.outcome, String::from_utf8_lossy(&real.out)),
                        expected: format!("{} / {:?}", rf.0, String::from_utf8_lossy(&rf.1)),
                        note: "implementation vs reference semantics RbModel.Proc.Ref (before shrinking)".into(),
                    });
                } else {
                    rep.bump("ref.same");
                }
            }
        }
    }
    rep.finish();
}
