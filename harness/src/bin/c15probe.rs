//! Debug aid (C15): runs a program file on the real VM and prints pc, instruction, the five stack depths,
//! the two address stacks and the error state before every executed instruction.
use std::cell::RefCell;
use std::rc::Rc;
use rusty_basic::interpreter::verif::{compile, run_instructions, Snapshot};
fn main() {
    let path = std::env::args().nth(1).expect("file");
    let text = std::fs::read_to_string(path).unwrap();
    let (res, udt) = compile(&text).expect("front end");
    let instrs: Vec<String> = res.instructions.iter().map(|ip| format!("{:?}", ip.element).chars().take(40).collect()).collect();
    println!("addrs {:?}", res.statement_addresses);
    let lines: Rc<RefCell<Vec<String>>> = Rc::new(RefCell::new(vec![]));
    let l2 = lines.clone();
    let obs = Box::new(move |s: &Snapshot| {
        l2.borrow_mut().push(format!(
            "{:4} v{} r{} c{} p{} b{} ret{:?} gs{:?} err{:?}@{:?}  {}",
            s.pc, s.value_stack, s.register_stack, s.ctx_states.len(), s.var_path_stack, s.by_ref_stack,
            s.return_address_stack, s.go_sub_address_stack, s.last_error_code, s.last_error_address, instrs[s.pc]
        ));
    });
    let r = std::panic::catch_unwind(std::panic::AssertUnwindSafe(|| run_instructions(res, udt, b"1\n2\n3\n", 2000, Some(obs), false)));
    for l in lines.borrow().iter() {
        println!("{}", l);
    }
    println!("result: {}", if r.is_ok() { "returned" } else { "panic" });
}
