//! C05 (phase A of the JUMP simulation layer) — programs with labels, GOTO, GOSUB and RETURN on the real pipeline vs the
//! three Lean models of `lean/RbModel/JmpL/`:
//!   * `jmpl.compare`: `RbModel.JmpL.Compile.compile p` = the real instruction list, instruction for instruction
//!     (positions, label names, resolved addresses, the PopRegisters / PopValueStackIntoA runs in front of a Jump);
//!   * `jmpl.run`: `RbModel.JmpL.Vm.run` on the model-compiled code = real outcome and stdout;
//!   * `jmpl.ref`: the big-step reference semantics `RbModel.JmpL.Ref.run` (seek mode, jump handling rule, GOSUB as a
//!     nested run) = real outcome and stdout;
//!   * `jmpl.wf`: the premise checker `RbModel.JmpL.progWfB` of the layer's simulation theorem, counted per program as
//!     `theorem-premise.progWfB-true` / `-false`.
//! Usage for debugging: `c05j <file.bas>` prints the answers for one program.

use std::collections::BTreeSet;

use rb_harness::corpus;
use rb_harness::driver::ask;
use rb_harness::jmpl_sx;
use rb_harness::json::J;
use rb_harness::refrun::{parse_ref_answer, run_real, Observed};
use rb_harness::report::{Failure, Kind, Report};
use rb_harness::rng::Rng;

const FUEL: u64 = 6000;
const BUDGET: u64 = 400_000;

// ------------------------------------------------------------------------------------------------
// dedicated generator: every program is bounded (every backward jump and every loop has its own counter)

#[derive(Clone)]
struct Ctx {
    /// nesting depth of compound statements
    depth: u32,
    /// inside the body of a FOR with an explicit STEP: no label may be defined here
    in_step: bool,
    /// number of FOR bodies / SELECT statements around (within the main program or the current routine)
    fors: u32,
    sels: u32,
    /// labels defined later at an enclosing level: legal GOTO targets from here
    outer: Vec<String>,
    /// 0 = main program; n = inside a GOSUB routine n levels deep
    level: u32,
    /// counters of the enclosing FOR loops (conditions may look at them)
    counters: Vec<String>,
}

struct G<'a> {
    rng: &'a mut Rng,
    n_label: usize,
    n_var: usize,
    n_tok: usize,
    /// routines, emitted after the main program
    routines: Vec<Vec<String>>,
    feats: BTreeSet<&'static str>,
    want_fault: bool,
    fault_done: bool,
    /// statements still to spend
    budget: i32,
}

fn ind(lines: Vec<String>) -> Vec<String> {
    lines.into_iter().map(|l| format!("  {}", l)).collect()
}

impl<'a> G<'a> {
    fn label(&mut self, p: &str) -> String {
        self.n_label += 1;
        // label references are re-cased at random at the use site
        format!("{}{}", p, self.n_label)
    }

    fn recase(&mut self, l: &str) -> String {
        match self.rng.below(3) {
            0 => l.to_ascii_uppercase(),
            1 => l.to_ascii_lowercase(),
            _ => l.to_owned(),
        }
    }

    fn var(&mut self, p: &str) -> String {
        self.n_var += 1;
        format!("{}{}%", p, self.n_var)
    }

    fn tok(&mut self) -> String {
        self.n_tok += 1;
        self.budget -= 1;
        format!("PRINT \"{}\";", self.n_tok)
    }

    /// a condition that is true on some passes only; `pre` = statements to run before it
    fn cond(&mut self, ctx: &Ctx) -> (Vec<String>, String) {
        if !ctx.counters.is_empty() && self.rng.chance(1, 2) {
            let c = self.rng.pick(&ctx.counters).clone();
            let k = self.rng.range(1, 3);
            let op = *self.rng.pick(&["=", ">=", "<>", "<"]);
            return (vec![], format!("{} {} {}", c, op, k));
        }
        let q = self.var("q");
        let pre = vec![format!("{} = {} + 1", q, q)];
        let c = match self.rng.below(4) {
            0 => format!("{} = {}", q, self.rng.range(1, 2)),
            1 => format!("{} >= {}", q, self.rng.range(1, 3)),
            2 => format!("{} MOD 2 = {}", q, self.rng.range(0, 1)),
            _ => format!("{} < {}", q, self.rng.range(2, 3)),
        };
        (pre, c)
    }

    /// a fresh counter that counts the passes through this place: (its increment, its name)
    fn qvar(&mut self) -> (Vec<String>, String) {
        let q = self.var("q");
        (vec![format!("{} = {} + 1", q, q)], q)
    }

    fn block(&mut self, ctx: &Ctx, n: u32) -> Vec<String> {
        let mut out = vec![];
        for _ in 0..n {
            out.extend(self.stmt(ctx));
        }
        out
    }

    fn small(&mut self, ctx: &Ctx) -> Vec<String> {
        let n = self.rng.range(1, 2) as u32;
        self.block(ctx, n)
    }

    fn deeper(&self, ctx: &Ctx) -> Ctx {
        let mut c = ctx.clone();
        c.depth += 1;
        c
    }

    fn fault(&mut self) -> Vec<String> {
        self.fault_done = true;
        self.feats.insert("fault");
        let z = self.var("z");
        match self.rng.below(4) {
            0 => vec![format!("{} = 7 / ({} - {})", z, z, z)],
            1 => vec![format!("{} = 32767", z), format!("{} = {} + 1", z, z)],
            2 => vec![format!("{} = 5 MOD ({} * 0)", z, z)],
            _ => vec![format!("READ {}", z)],
        }
    }

    /// one loop header / footer of a random kind, bounded by its own counter; returns (head, first lines of the body,
    /// foot, counter, is_for, is_step)
    fn loop_kind(&mut self, kind: u64) -> (Vec<String>, Vec<String>, Vec<String>, String, bool, bool) {
        let n = self.rng.range(2, 3);
        match kind {
            0 => {
                let i = self.var("i");
                (vec![format!("FOR {} = 1 TO {}", i, n)], vec![], vec![format!("NEXT {}", i)], i, true, false)
            }
            1 => {
                let i = self.var("i");
                let (h, _) = match self.rng.below(3) {
                    0 => (format!("FOR {} = 1 TO {} STEP 2", i, n + 1), 0),
                    1 => (format!("FOR {} = {} TO 1 STEP -1", i, n), 0),
                    _ => (format!("FOR {} = 1 TO {} STEP 1", i, n), 0),
                };
                (vec![h], vec![], vec!["NEXT".to_owned()], i, true, true)
            }
            2 => {
                let w = self.var("w");
                (
                    vec![format!("{} = 0", w), format!("WHILE {} < {}", w, n)],
                    vec![format!("{} = {} + 1", w, w)],
                    vec!["WEND".to_owned()],
                    w,
                    false,
                    false,
                )
            }
            _ => {
                let w = self.var("w");
                let (head, foot) = match kind {
                    3 => (format!("DO WHILE {} < {}", w, n), "LOOP".to_owned()),
                    4 => (format!("DO UNTIL {} >= {}", w, n), "LOOP".to_owned()),
                    5 => ("DO".to_owned(), format!("LOOP WHILE {} < {}", w, n)),
                    _ => ("DO".to_owned(), format!("LOOP UNTIL {} >= {}", w, n)),
                };
                (vec![format!("{} = 0", w), head], vec![format!("{} = {} + 1", w, w)], vec![foot], w, false, false)
            }
        }
    }

    fn loop_name(kind: u64) -> &'static str {
        match kind {
            0 => "for",
            1 => "for-step",
            2 => "while",
            3 => "do-while-top",
            4 => "do-until-top",
            5 => "do-while-bottom",
            _ => "do-until-bottom",
        }
    }

    fn stmt(&mut self, ctx: &Ctx) -> Vec<String> {
        if self.budget <= 0 {
            return vec![self.tok()];
        }
        self.budget -= 1;
        let can_label = !ctx.in_step;
        let deep = ctx.depth >= 3;
        for _ in 0..8 {
            let k = self.rng.below(24);
            match k {
                0 | 1 => return vec![self.tok()],
                2 => {
                    let v = self.var("v");
                    return vec![format!("{} = {} + {}", v, v, self.rng.range(1, 3)), format!("PRINT {};", v)];
                }
                3 if can_label => return self.goto_fwd(ctx),
                4 if can_label && !deep => return self.back_loop(ctx),
                5 | 6 if !deep => return self.loop_exit(ctx),
                7 if !ctx.outer.is_empty() => return self.goto_outer(ctx),
                8 if can_label && !deep => return self.continue_like(ctx),
                9 if can_label && !deep => return self.jump_into(ctx),
                10 | 11 | 12 if ctx.level < 4 => return self.gosub(ctx),
                13 if !deep => return self.plain_if(ctx),
                14 if !deep => return self.plain_select(ctx),
                15 if !deep => return self.plain_loop(ctx),
                16 if ctx.level > 0 => return self.routine_return(ctx),
                17 if ctx.level > 0 && can_label && ctx.fors == 0 && ctx.sels == 0 => return self.routine_left_by_goto_inner(ctx),
                18 if can_label && !deep && ctx.fors == 0 && ctx.sels == 0 && ctx.level < 4 => return self.left_by_goto(ctx),
                19 if can_label && !deep => return self.select_cross(ctx),
                20 if self.want_fault && !self.fault_done && self.rng.chance(1, 3) => return self.fault(),
                21 if ctx.level > 0 && self.rng.chance(1, 4) => {
                    self.feats.insert("end-in-routine");
                    let (mut pre, c) = self.cond(ctx);
                    pre.push(format!("IF {} THEN END", c));
                    return pre;
                }
                22 if ctx.level == 0 && ctx.depth == 0 && self.rng.chance(1, 3) => {
                    self.feats.insert("return-without-gosub");
                    return vec!["RETURN".to_owned()];
                }
                _ => {}
            }
        }
        vec![self.tok()]
    }

    fn goto_fwd(&mut self, ctx: &Ctx) -> Vec<String> {
        self.feats.insert("goto-forward");
        let l = self.label("Fw");
        let mut out = vec![];
        if self.rng.chance(1, 2) {
            let (pre, c) = self.cond(ctx);
            out.extend(pre);
            let r = self.recase(&l);
            if self.rng.chance(1, 2) {
                out.push(format!("IF {} THEN GOTO {}", c, r));
            } else {
                out.push(format!("IF {} THEN", c));
                out.push(self.tok());
                out.push(format!("  GOTO {}", r));
                out.push("END IF".to_owned());
            }
        } else {
            let r = self.recase(&l);
            out.push(format!("GOTO {}", r));
        }
        out.extend(self.small(&self.deeper(ctx)));
        out.push(format!("{}:", l));
        out
    }

    /// a loop built from a label, a counter and IF + GOTO
    fn back_loop(&mut self, ctx: &Ctx) -> Vec<String> {
        self.feats.insert("goto-backward-counted");
        let l = self.label("Bk");
        let k = self.var("k");
        let n = self.rng.range(2, 3);
        let mut out = vec![format!("{}:", l), format!("{} = {} + 1", k, k)];
        out.extend(self.small(&self.deeper(ctx)));
        let r = self.recase(&l);
        match self.rng.below(3) {
            0 => out.push(format!("IF {} < {} THEN GOTO {}", k, n, r)),
            1 => {
                out.push(format!("IF {} < {} THEN", k, n));
                out.push(format!("  GOTO {}", r));
                out.push("END IF".to_owned());
            }
            _ => {
                out.push(format!("IF {} >= {} THEN", k, n));
                out.push(self.tok());
                out.push("ELSE".to_owned());
                out.push(format!("  GOTO {}", r));
                out.push("END IF".to_owned());
            }
        }
        out
    }

    /// 1-3 nested loops of random kinds; the innermost body jumps to a label after one of them
    fn loop_exit(&mut self, ctx: &Ctx) -> Vec<String> {
        let n = self.rng.range(1, 3) as usize;
        let kinds: Vec<u64> = (0..n).map(|_| self.rng.below(7)).collect();
        // the label sits after loop `t` (0 = after the whole nest), i.e. in the body of loop t-1
        let mut t = self.rng.below(n as u64) as usize;
        // no label inside the body of a FOR … STEP
        while t > 0 && (ctx.in_step || kinds[..t].iter().any(|k| *k == 1)) {
            t -= 1;
        }
        let use_outer = t == 0 && ctx.in_step;
        if use_outer && ctx.outer.is_empty() {
            return self.plain_loop(ctx);
        }
        let target = if use_outer { self.rng.pick(&ctx.outer).clone() } else { self.label("Out") };
        self.feats.insert(match n {
            1 => "goto-out-of-1-loop",
            2 => "goto-out-of-2-loops",
            _ => "goto-out-of-3-loops",
        });
        for k in &kinds {
            self.feats.insert(Self::loop_name(*k));
        }
        // build inside out
        let mut ctxs = vec![ctx.clone()];
        let mut parts = vec![];
        for (j, k) in kinds.iter().enumerate() {
            let (head, first, foot, counter, is_for, is_step) = self.loop_kind(*k);
            let mut c = ctxs[j].clone();
            c.depth += 1;
            if is_for {
                c.fors += 1;
                c.counters.push(counter);
            }
            c.in_step = c.in_step || is_step;
            if j + 1 > t && !use_outer {
                c.outer.push(target.clone());
            } else if j + 1 > t {
                // already among the outer targets
            }
            ctxs.push(c);
            parts.push((head, first, foot));
        }
        let inner_ctx = ctxs[n].clone();
        let mut body = vec![];
        if self.rng.chance(1, 2) {
            body.push(self.tok());
        }
        let (pre, c) = self.cond(&inner_ctx);
        body.extend(pre);
        let r = self.recase(&target);
        match self.rng.below(4) {
            0 | 1 => body.push(format!("IF {} THEN GOTO {}", c, r)),
            2 => {
                body.push(format!("IF {} THEN", c));
                body.push(format!("  GOTO {}", r));
                body.push("END IF".to_owned());
            }
            _ => {
                // out of one or two SELECT CASE blocks as well (their selectors are on the value stack)
                self.feats.insert("goto-out-of-select");
                let (pre2, q) = self.qvar();
                body.extend(pre2);
                let two = self.rng.chance(1, 3);
                body.push(format!("SELECT CASE {}", q));
                body.push(format!("CASE {} TO 9", self.rng.range(1, 2)));
                if two {
                    body.push("  SELECT CASE 5".to_owned());
                    body.push("  CASE 5".to_owned());
                }
                body.push(self.tok());
                body.push(format!("  IF {} THEN GOTO {}", c, r));
                body.push(self.tok());
                if two {
                    body.push("  END SELECT".to_owned());
                }
                body.push("CASE ELSE".to_owned());
                body.push(self.tok());
                body.push("END SELECT".to_owned());
            }
        }
        if self.rng.chance(1, 2) {
            body.extend(self.stmt(&inner_ctx));
        } else {
            body.push(self.tok());
        }
        // wrap
        let mut cur = body;
        for j in (0..n).rev() {
            let (head, first, foot) = parts[j].clone();
            let mut lines = head;
            let mut inner = first;
            if self.rng.chance(1, 3) {
                inner.push(self.tok());
            }
            inner.extend(cur);
            if j + 1 == t && !use_outer {
                // the label follows the inner loop, inside the body of loop j
                inner.push(format!("{}:", target));
                inner.push(self.tok());
            }
            lines.extend(ind(inner));
            lines.extend(foot);
            cur = lines;
        }
        if t == 0 && !use_outer {
            cur.push(format!("{}:", target));
        }
        cur
    }

    fn goto_outer(&mut self, ctx: &Ctx) -> Vec<String> {
        self.feats.insert("goto-enclosing-label");
        let target = self.rng.pick(&ctx.outer).clone();
        let (mut pre, c) = self.cond(ctx);
        let r = self.recase(&target);
        pre.push(format!("IF {} THEN GOTO {}", c, r));
        pre
    }

    /// a `continue`-like jump: to a label at the end of the body of a FOR / WHILE, or back inside the same iteration
    fn continue_like(&mut self, ctx: &Ctx) -> Vec<String> {
        let kind = *self.rng.pick(&[0u64, 0, 2, 3, 6]);
        self.feats.insert(if kind == 0 { "continue-in-for" } else { "continue-in-while-or-do" });
        let (head, first, foot, counter, is_for, _) = self.loop_kind(kind);
        let mut c = self.deeper(ctx);
        if is_for {
            c.fors += 1;
            c.counters.push(counter);
        }
        let l = self.label("Cn");
        let mut body = first;
        body.push(self.tok());
        let (pre, cnd) = self.cond(&c);
        body.extend(pre);
        let r = self.recase(&l);
        body.push(format!("IF {} THEN GOTO {}", cnd, r));
        body.extend(self.small(&c));
        body.push(format!("{}:", l));
        if self.rng.chance(1, 2) {
            body.push(self.tok());
        }
        if self.rng.chance(1, 3) {
            // and a counted jump back inside the same iteration
            self.feats.insert("goto-back-inside-iteration");
            let k = self.var("k");
            body.push(format!("{} = {} + 1", k, k));
            let r = self.recase(&l);
            body.push(format!("IF {} < 3 THEN GOTO {}", k, r));
        }
        let mut out = head;
        out.extend(ind(body));
        out.extend(foot);
        out
    }

    /// a jump from outside into an IF / ELSEIF / ELSE block or into the body of a WHILE / DO
    fn jump_into(&mut self, ctx: &Ctx) -> Vec<String> {
        let l = self.label("In");
        let c = self.deeper(ctx);
        let mut out = vec![];
        let (pre, cnd) = self.cond(ctx);
        out.extend(pre);
        let r = self.recase(&l);
        if self.rng.chance(1, 2) {
            out.push(format!("GOTO {}", r));
        } else {
            out.push(format!("IF {} THEN GOTO {}", cnd, r));
        }
        match self.rng.below(5) {
            0 | 1 => {
                self.feats.insert("goto-into-if");
                let which = self.rng.below(3);
                out.push(format!("IF {} THEN", if self.rng.chance(1, 2) { "0" } else { "1" }));
                out.push(self.tok());
                if which == 0 {
                    out.push(format!("{}:", l));
                    out.extend(ind(self.small(&c)));
                }
                if which == 1 || self.rng.chance(1, 2) {
                    out.push("ELSEIF 1 THEN".to_owned());
                    out.push(self.tok());
                    if which == 1 {
                        out.push(format!("{}:", l));
                        out.extend(ind(self.small(&c)));
                    }
                }
                if which == 2 || self.rng.chance(1, 2) {
                    out.push("ELSE".to_owned());
                    out.push(self.tok());
                    if which == 2 {
                        out.push(format!("{}:", l));
                        out.extend(ind(self.small(&c)));
                    }
                }
                out.push("END IF".to_owned());
            }
            _ => {
                self.feats.insert("goto-into-while-or-do");
                let kind = self.rng.range(2, 6) as u64;
                let (head, first, foot, _, _, _) = self.loop_kind(kind);
                out.extend(head);
                let mut body = first;
                body.push(self.tok());
                body.push(format!("{}:", l));
                body.extend(self.small(&c));
                out.extend(ind(body));
                out.extend(foot);
            }
        }
        out
    }

    /// a new routine `level` deep; returns its label
    fn routine(&mut self, level: u32) -> String {
        let l = self.label("Sub");
        let ctx = Ctx { depth: 0, in_step: false, fors: 0, sels: 0, outer: vec![], level, counters: vec![] };
        let mut body = vec![format!("{}:", l), self.tok()];
        let n = self.rng.range(1, 3) as u32;
        body.extend(self.block(&ctx, n));
        if self.rng.chance(1, 2) {
            body.extend(self.routine_return(&ctx));
        }
        body.push("RETURN".to_owned());
        self.routines.push(body);
        l
    }

    fn gosub(&mut self, ctx: &Ctx) -> Vec<String> {
        let l = self.routine(ctx.level + 1);
        self.feats.insert(match ctx.level {
            0 => "gosub-depth-1",
            1 => "gosub-depth-2",
            2 => "gosub-depth-3",
            _ => "gosub-depth-4",
        });
        let r = self.recase(&l);
        let call = format!("GOSUB {}", r);
        if ctx.depth >= 3 {
            return vec![call];
        }
        let c = self.deeper(ctx);
        match self.rng.below(5) {
            0 => {
                self.feats.insert("gosub-in-for");
                let kind = self.rng.below(2);
                let (head, first, foot, _, _, _) = self.loop_kind(kind);
                let mut out = head;
                let mut body = first;
                body.push(call);
                if self.rng.chance(1, 2) {
                    body.push(self.tok());
                }
                out.extend(ind(body));
                out.extend(foot);
                out
            }
            1 => {
                self.feats.insert("gosub-in-select");
                let (mut out, q) = self.qvar();
                out.push(format!("SELECT CASE {}", q));
                out.push("CASE 1, 2".to_owned());
                out.push(format!("  {}", call));
                out.push(self.tok());
                out.push("CASE ELSE".to_owned());
                out.push(self.tok());
                out.push("END SELECT".to_owned());
                let _ = c;
                out
            }
            2 => {
                self.feats.insert("gosub-in-if");
                let (mut out, cnd) = self.cond(ctx);
                out.push(format!("IF {} THEN", cnd));
                out.push(format!("  {}", call));
                out.push("ELSE".to_owned());
                out.push(self.tok());
                out.push("END IF".to_owned());
                out
            }
            _ => vec![call],
        }
    }

    /// inside a routine: RETURN from inside the routine's own FOR / SELECT / WHILE / IF
    fn routine_return(&mut self, ctx: &Ctx) -> Vec<String> {
        let c = self.deeper(ctx);
        match self.rng.below(4) {
            0 => {
                self.feats.insert("return-inside-for");
                let kind = self.rng.below(2);
                let (head, first, foot, counter, _, _) = self.loop_kind(kind);
                let mut out = head;
                let mut body = first;
                body.push(self.tok());
                body.push(format!("IF {} = 2 THEN RETURN", counter));
                if self.rng.chance(1, 2) {
                    body.push(self.tok());
                }
                out.extend(ind(body));
                out.extend(foot);
                out
            }
            1 => {
                self.feats.insert("return-inside-select");
                let (mut out, q) = self.qvar();
                out.push(format!("SELECT CASE {}", q));
                out.push(format!("CASE {}", self.rng.range(1, 2)));
                out.push(self.tok());
                out.push("  RETURN".to_owned());
                out.push("CASE IS > 2".to_owned());
                out.push(self.tok());
                out.push("END SELECT".to_owned());
                out
            }
            2 => {
                self.feats.insert("return-inside-while");
                let kind = self.rng.range(2, 6) as u64;
                let (head, first, foot, counter, _, _) = self.loop_kind(kind);
                let mut out = head;
                let mut body = first;
                body.push(format!("IF {} = 2 THEN RETURN", counter));
                body.push(self.tok());
                out.extend(ind(body));
                out.extend(foot);
                out
            }
            _ => {
                self.feats.insert("return-inside-if");
                let (mut out, cnd) = self.cond(ctx);
                out.push(format!("IF {} THEN", cnd));
                out.push(self.tok());
                out.push("  RETURN".to_owned());
                out.push("END IF".to_owned());
                let _ = c;
                out
            }
        }
    }

    /// `GOSUB R`, where `R` leaves by `GOTO M`; `M:` follows later at this level and answers the GOSUB with a RETURN
    fn left_by_goto(&mut self, ctx: &Ctx) -> Vec<String> {
        self.feats.insert("routine-left-by-goto-answered-later");
        let m = self.label("Mid");
        let f = self.var("f");
        // the routine
        let r = self.label("Sub");
        let mut body = vec![format!("{}:", r), self.tok()];
        if self.rng.chance(1, 2) {
            // leave from inside a loop of the routine
            let kind = self.rng.below(7);
            let (head, first, foot, _, _, _) = self.loop_kind(kind);
            body.extend(head);
            let mut b = first;
            b.push(self.tok());
            let mm = self.recase(&m);
            b.push(format!("IF {} < 2 THEN GOTO {}", f, mm));
            body.extend(ind(b));
            body.extend(foot);
        } else {
            let mm = self.recase(&m);
            // (guarded: the program may fall into this routine again after the GOSUB has been answered)
            body.push(format!("IF {} < 2 THEN GOTO {}", f, mm));
        }
        body.push("RETURN".to_owned());
        self.routines.push(body);
        let mut out = vec![format!("{} = 0", f)];
        let rr = self.recase(&r);
        out.push(format!("GOSUB {}", rr));
        out.push(self.tok());
        out.extend(self.small(&self.deeper(ctx)));
        out.push(format!("{}:", m));
        out.push(self.tok());
        out.push(format!("{} = {} + 1", f, f));
        if self.rng.chance(5, 6) {
            out.push(format!("IF {} = 1 THEN RETURN", f));
        } else {
            // unguarded: the second arrival returns from the enclosing routine, or is a RETURN without GOSUB
            self.feats.insert("unguarded-return-in-main-flow");
            out.push(format!("IF {} < 3 THEN RETURN", f));
        }
        out
    }

    /// inside a routine: jump to another place of the same routine level (a label of the routine) and return from there
    fn routine_left_by_goto_inner(&mut self, ctx: &Ctx) -> Vec<String> {
        self.feats.insert("routine-goto-then-return");
        let l = self.label("Rx");
        let mut out = vec![];
        let (pre, c) = self.cond(ctx);
        out.extend(pre);
        let r = self.recase(&l);
        out.push(format!("IF {} THEN GOTO {}", c, r));
        out.push(self.tok());
        out.push("RETURN".to_owned());
        out.push(format!("{}:", l));
        out.push(self.tok());
        out
    }

    /// a jump between two blocks of one SELECT CASE
    fn select_cross(&mut self, ctx: &Ctx) -> Vec<String> {
        self.feats.insert("goto-between-case-blocks");
        let l = self.label("Cs");
        let mut c = self.deeper(ctx);
        c.sels += 1;
        let (mut out, q) = self.qvar();
        let fwd = self.rng.chance(1, 2);
        out.push(format!("SELECT CASE {}", q));
        out.push("CASE 1".to_owned());
        out.push(self.tok());
        if fwd {
            let r = self.recase(&l);
            out.push(format!("  GOTO {}", r));
            out.push(self.tok());
        } else {
            out.push(format!("{}:", l));
            out.extend(ind(self.small(&c)));
        }
        out.push("CASE 2 TO 3".to_owned());
        out.push(self.tok());
        if fwd {
            out.push(format!("{}:", l));
            out.extend(ind(self.small(&c)));
        } else {
            let k = self.var("k");
            out.push(format!("  {} = {} + 1", k, k));
            let r = self.recase(&l);
            out.push(format!("  IF {} < 2 THEN GOTO {}", k, r));
        }
        out.push("CASE ELSE".to_owned());
        out.push(self.tok());
        out.push("END SELECT".to_owned());
        out
    }

    fn plain_if(&mut self, ctx: &Ctx) -> Vec<String> {
        let c = self.deeper(ctx);
        let (mut out, cnd) = self.cond(ctx);
        out.push(format!("IF {} THEN", cnd));
        out.extend(ind(self.small(&c)));
        if self.rng.chance(1, 3) {
            let (_, c2) = self.cond(&Ctx { counters: ctx.counters.clone(), ..c.clone() });
            // conditions with a fresh counter need their increment; use a constant instead when one was made
            let c2 = if c2.contains('q') { "1".to_owned() } else { c2 };
            out.push(format!("ELSEIF {} THEN", c2));
            out.extend(ind(self.small(&c)));
        }
        if self.rng.chance(1, 2) {
            out.push("ELSE".to_owned());
            out.extend(ind(self.small(&c)));
        }
        out.push("END IF".to_owned());
        out
    }

    fn plain_select(&mut self, ctx: &Ctx) -> Vec<String> {
        let mut c = self.deeper(ctx);
        c.sels += 1;
        let (mut out, q) = self.qvar();
        out.push(format!("SELECT CASE {}", q));
        out.push("CASE 1".to_owned());
        out.extend(ind(self.small(&c)));
        if self.rng.chance(1, 2) {
            out.push("CASE 2, IS > 3".to_owned());
            out.extend(ind(self.small(&c)));
        }
        if self.rng.chance(1, 2) {
            out.push("CASE ELSE".to_owned());
            out.extend(ind(self.small(&c)));
        }
        out.push("END SELECT".to_owned());
        out
    }

    fn plain_loop(&mut self, ctx: &Ctx) -> Vec<String> {
        let kind = self.rng.below(7);
        let (head, first, foot, counter, is_for, is_step) = self.loop_kind(kind);
        let mut c = self.deeper(ctx);
        if is_for {
            c.fors += 1;
            c.counters.push(counter);
        }
        c.in_step = c.in_step || is_step;
        let mut out = head;
        let mut body = first;
        body.extend(self.small(&c));
        out.extend(ind(body));
        out.extend(foot);
        out
    }

    fn program(&mut self) -> String {
        let ctx = Ctx { depth: 0, in_step: false, fors: 0, sels: 0, outer: vec![], level: 0, counters: vec![] };
        let mut main = vec![];
        let n = self.rng.range(3, 7) as u32;
        for _ in 0..n {
            main.extend(self.stmt(&ctx));
        }
        if self.want_fault && !self.fault_done {
            main.extend(self.fault());
        }
        main.push(self.tok());
        let mut out = main;
        // falling into the first routine: no END in front of the routines
        if !self.routines.is_empty() && self.rng.chance(1, 8) {
            self.feats.insert("falls-into-routine");
        } else {
            out.push("END".to_owned());
        }
        // routines generated while routines are emitted come later
        let mut i = 0;
        while i < self.routines.len() {
            let r = self.routines[i].clone();
            out.extend(r);
            i += 1;
        }
        out.join("\n") + "\n"
    }
}

fn gen_dedicated(rng: &mut Rng, fault: bool) -> (String, Vec<&'static str>) {
    let budget = rng.range(12, 40) as i32;
    let mut g = G {
        rng,
        n_label: 0,
        n_var: 0,
        n_tok: 0,
        routines: vec![],
        feats: BTreeSet::new(),
        want_fault: fault,
        fault_done: false,
        budget,
    };
    let text = g.program();
    (text, g.feats.into_iter().collect())
}

// ------------------------------------------------------------------------------------------------

struct Case {
    text: String,
    prog: String,
    table: String,
    code: String,
    feats: String,
    n_labels: usize,
}

fn disagree(real: &Observed, m: &(String, Vec<u8>, String)) -> Option<&'static str> {
    if real.outcome != m.0 {
        return Some("outcome");
    }
    if real.out != m.1 {
        return Some("output");
    }
    None
}

/// the answers of the real pipeline and of the three models for one program text
fn verdicts(text: &str) -> Option<(Observed, String, String, String, String)> {
    let (pp, code) = jmpl_sx::src_and_code(text)?;
    let real = run_real(text, b"", BUDGET);
    // a run that does not end is not worth the models' full budgets (the shrinker calls this on every candidate)
    let small = real.outcome == "budget";
    let ans = ask(&[
        format!("(jmpl.compare {} {} {})", pp.program, pp.table, code),
        format!("(jmpl.run {} {})", if small { BUDGET / 10 } else { BUDGET }, pp.program),
        format!("(jmpl.ref {} {})", if small { FUEL / 6 } else { FUEL }, pp.program),
        format!("(jmpl.wf {})", pp.program),
    ]);
    Some((real, ans[0].clone(), ans[1].clone(), ans[2].clone(), ans[3].clone()))
}

fn fails(text: &str, which: &str, what: &str) -> bool {
    let Some((real, cmp, vm, rf, _)) = verdicts(text) else { return false };
    if real.outcome == "budget" {
        return false;
    }
    match which {
        "compile" => !cmp.starts_with("(same") && !cmp.starts_with("(not-core"),
        "vm" => parse_ref_answer(&vm)
            .map(|m| m.0 != "outOfFuel" && m.0 != "stuck" && disagree(&real, &m) == Some(if what == "outcome" { "outcome" } else { "output" }))
            .unwrap_or(false),
        _ => parse_ref_answer(&rf)
            .map(|m| {
                m.0 != "outOfFuel" && m.0 != "inexact" && m.0 != "illFormed" && disagree(&real, &m) == Some(if what == "outcome" { "outcome" } else { "output" })
            })
            .unwrap_or(false),
    }
}

fn shrink(text: &str, which: &str, what: &str) -> String {
    let deadline = std::time::Instant::now() + std::time::Duration::from_secs(20);
    let mut lines: Vec<String> = text.lines().map(|l| l.to_owned()).collect();
    let mut changed = true;
    let mut rounds = 0;
    while changed && rounds < 6 && std::time::Instant::now() < deadline {
        changed = false;
        rounds += 1;
        let mut i = 0;
        while i < lines.len() && std::time::Instant::now() < deadline {
            let mut cand = lines.clone();
            cand.remove(i);
            let t = cand.join("\n") + "\n";
            if fails(&t, which, what) {
                lines = cand;
                changed = true;
                continue;
            }
            i += 1;
        }
    }
    lines.join("\n") + "\n"
}


// ------------------------------------------------------------------------------------------------
// the checker's rule about jumps into FOR bodies / SELECT CASE blocks vs its model `jumpsEnclosedB`

/// One program with one jump under test, written `@L` in `body`; `row` is the line of that jump.
struct IntoCase {
    what: String,
    body: String,
    row: usize,
}

/// GOTO / GOSUB x a label inside a FOR body, a CASE / CASE ELSE block or two of them nested x the place of the jump:
/// before the block, behind it, in a sibling block, in the enclosing block (both sides), inside the block itself, one
/// block further in than the label (leaving).  Main module, every statement on its own line in column 1.
fn into_block_cases() -> Vec<IntoCase> {
    fn wrap(kind: &str, var: &str, inner: &str) -> String {
        match kind {
            "for" => format!("FOR {}% = 1 TO 2\n{}NEXT\n", var, inner),
            "forstep" => format!("FOR {}% = 1 TO 3 STEP 2\n{}NEXT\n", var, inner),
            "case" => format!("SELECT CASE K%\nCASE 1\n{}CASE ELSE\nPRINT \"e\"\nEND SELECT\n", inner),
            "caseelse" => format!("SELECT CASE K%\nCASE 5\nPRINT \"c\"\nCASE ELSE\n{}END SELECT\n", inner),
            "while" => format!("WHILE W% < 2\nW% = W% + 1\n{}WEND\n", inner),
            "if" => format!("IF K% = 1 THEN\n{}ELSE\nPRINT \"e\"\nEND IF\n", inner),
            _ => unreachable!(),
        }
    }
    let mut nests: Vec<Vec<&str>> = ["for", "forstep", "case", "caseelse", "while", "if"].iter().map(|b| vec![*b]).collect();
    for (a, b) in [
        ("for", "for"), ("for", "case"), ("case", "for"), ("caseelse", "for"), ("case", "caseelse"), ("for", "while"), ("while", "for"),
        ("if", "case"), ("case", "if"), ("while", "if"),
    ] {
        nests.push(vec![a, b]);
    }
    let vars = ["I", "J"];
    let at_label = "L:\nPRINT \"in\"; I%; J%\nC% = C% + 1\nIF C% > 4 THEN\nPRINT \"stop\"\nSYSTEM\nEND IF\n";
    let mut out = vec![];
    for nest in &nests {
        for (kind, jump) in [("goto", "GOTO @L\n"), ("gosub", "GOSUB @L\nPRINT \"back\"\n")] {
            let once = format!("IF D% = 0 THEN\nD% = 1\n{}END IF\n", jump);
            let target = |extra: &str| {
                let mut t = format!("{}{}", at_label, extra);
                for (k, b) in nest.iter().enumerate().rev() {
                    t = wrap(b, vars[k], &t);
                }
                t
            };
            let mut layouts: Vec<(&str, String)> = vec![
                ("before", format!("{}{}", once, target(""))),
                ("behind", format!("{}{}", target(""), once)),
                ("sibling", format!("{}{}", wrap(nest[0], "S", &once), target(""))),
                ("sibling-behind", format!("{}{}", target(""), wrap(nest[0], "S", &once))),
                ("inside", target(&once)),
            ];
            if nest.len() == 2 {
                let inner = wrap(nest[1], vars[1], at_label);
                layouts.push(("enclosing", wrap(nest[0], vars[0], &format!("{}{}", once, inner))));
                layouts.push(("enclosing-behind", wrap(nest[0], vars[0], &format!("{}{}", inner, once))));
                layouts.push(("leaving", wrap(nest[0], vars[0], &format!("{}{}", at_label, wrap(nest[1], vars[1], &once)))));
            }
            for (layout, b) in layouts {
                let body = format!("K% = 1\n{}PRINT \"after\"\nSYSTEM\n", b);
                let row = 1 + body.lines().position(|l| l.contains("@L")).expect("the jump under test");
                out.push(IntoCase { what: format!("{} {} {}", kind, nest.join(">"), layout), body, row });
            }
        }
    }
    out
}

/// the front end's verdict on a text: Ok(linted program) or Err(debug form of the error)
fn front_end(text: &str) -> Result<rusty_parser::Program, String> {
    let t = text.to_owned();
    std::panic::catch_unwind(move || match rusty_parser::parse_main_str(t) {
        Err(e) => Err(format!("parser: {:?}", e)),
        Ok(p) => match rusty_linter::core::lint(p) {
            Err(e) => Err(format!("linter: {:?}", e)),
            Ok((linted, _)) => Ok(linted),
        },
    })
    .unwrap_or_else(|_| Err("front end panicked".to_owned()))
}

/// Compares the real checker with `RbModel.JmpL.jumpsEnclosedB` on the family and on the programs explored before.
fn check_enclosure(rep: &mut Report, explored: &[Case]) {
    // every explored program was accepted by the real checker: the model of its rule must accept it too
    let answers = ask(&explored.iter().map(|c| format!("(jmpl.enclosed {})", c.prog)).collect::<Vec<_>>());
    for (c, a) in explored.iter().zip(answers.iter()) {
        rep.bump(&format!("enclosure.explored.{}", a.replace(' ', "-")));
        if !a.starts_with("(enclosed true") {
            rep.fail(Failure {
                kind: Kind::ModelVsImpl,
                signature: "jmpl-enclosed:accepted-program".into(),
                input: c.text.clone(),
                implementation: "accepted by the real checker".into(),
                expected: format!("model: {}", a),
                note: "RbModel.JmpL.jumpsEnclosedB rejects a program the real label linter accepts".into(),
            });
        }
    }
    let cases = into_block_cases();
    let mut reqs = vec![];
    let mut rows = vec![];
    for c in &cases {
        rep.case(Some(format!("into-block|{}", c.what)));
        let real_text = c.body.replace("@L", "L");
        let shadow_text = format!("{}ZZL:\n", c.body.replace("@L", "ZZL"));
        let real = front_end(&real_text);
        let shadow = match front_end(&shadow_text) {
            Ok(p) => p,
            Err(e) => {
                rep.fail(Failure {
                    kind: Kind::ModelVsImpl,
                    signature: "jmpl-enclosed:shadow-rejected".into(),
                    input: shadow_text,
                    implementation: e,
                    expected: "the shadow program (tested jump redirected to a top-level label) is accepted".into(),
                    note: c.what.clone(),
                });
                continue;
            }
        };
        let Some(pp) = jmpl_sx::program_unshadowed(&shadow) else {
            // a label inside the body of a FOR ... STEP: outside the modelled layer (finding C05-a)
            rep.bump("into-block.outside-layer");
            rep.bump(&format!("into-block.outside-layer.real-{}", if real.is_ok() { "accepted" } else { "rejected" }));
            continue;
        };
        // the un-shadowed serialisation is that of the program itself whenever the checker lets us see it
        if let Ok(linted) = &real {
            if jmpl_sx::program(linted).map(|q| q.program) != Some(pp.program.clone()) {
                rep.fail(Failure {
                    kind: Kind::ModelVsImpl,
                    signature: "jmpl-enclosed:shadow-differs".into(),
                    input: real_text.clone(),
                    implementation: "serialisation of the linted program".into(),
                    expected: "the same s-expression from the shadow program".into(),
                    note: c.what.clone(),
                });
            }
        }
        reqs.push(format!("(jmpl.enclosed {})", pp.program));
        rows.push((c, real_text, real.err()));
    }
    let answers = ask(&reqs);
    for ((c, text, real_err), a) in rows.iter().zip(answers.iter()) {
        let model_ok = a.starts_with("(enclosed true");
        let premise = a.ends_with("true)");
        if !a.starts_with("(enclosed ") {
            rep.bump("into-block.unreadable");
        }
        // the new error: Label not defined, at the jump
        let real_rule = real_err.as_ref().map(|e| e.contains("LabelNotDefined") && e.contains(&format!("row: {}, col: 1 ", c.row)));
        let real_word = match (&real_err, real_rule) {
            (None, _) => "accepted",
            (Some(_), Some(true)) => "rejected(LabelNotDefined-at-the-jump)",
            _ => "rejected(other)",
        };
        rep.bump(&format!("into-block.real-{}", real_word));
        rep.bump(&format!("into-block.model-{}", if model_ok { "accepts" } else { "rejects" }));
        rep.bump(&format!("into-block.progWfB-{}.real-{}", premise, real_word));
        if !premise && model_ok {
            rep.bump("into-block.enclosed-but-outside-premise(GOSUB-label-not-at-depth-0)");
        }
        if premise && !model_ok {
            rep.fail(Failure {
                kind: Kind::ModelVsImpl,
                signature: "jmpl-enclosed:premise-without-rule".into(),
                input: text.clone(),
                implementation: a.clone(),
                expected: "progWfB = true implies jumpsEnclosedB = true (theorem progWf_enclosed)".into(),
                note: c.what.clone(),
            });
        }
        if model_ok != real_err.is_none() || (!model_ok && real_rule != Some(true)) {
            rep.fail(Failure {
                kind: Kind::ModelVsImpl,
                signature: format!("jmpl-enclosed:verdict:{}", c.what.split(' ').next().unwrap_or("")),
                input: text.clone(),
                implementation: match &real_err {
                    None => "accepted by the real checker".to_owned(),
                    Some(e) => format!("rejected: {}", e),
                },
                expected: format!("model: {} (jump under test in line {})", a, c.row),
                note: format!("{}: RbModel.JmpL.jumpsEnclosedB says reject exactly when the real label linter answers LabelNotDefined at the jump", c.what),
            });
        }
    }
    rep.exhaustive_parts.push(format!(
        "into-block: GOTO / GOSUB x label inside FOR, FOR STEP, CASE, CASE ELSE, WHILE, IF and 10 two-level nests x 5-8 places of the jump ({} programs): real label linter vs jumpsEnclosedB",
        cases.len()
    ));
}

fn main() {
    if let Some(path) = std::env::args().nth(1) {
        if path == "--gen" {
            // print a few generated programs
            let mut rng = Rng::from_env();
            let n: usize = std::env::args().nth(2).and_then(|x| x.parse().ok()).unwrap_or(3);
            for k in 0..n {
                let (text, feats) = gen_dedicated(&mut rng, k % 3 == 0);
                println!("' ---- {} : {}\n{}", k, feats.join("+"), text);
            }
            return;
        }
        let text = std::fs::read_to_string(path).unwrap();
        match verdicts(&text) {
            None => {
                let t = text.clone();
                let why = std::panic::catch_unwind(move || match rusty_parser::parse_main_str(t) {
                    Err(e) => format!("parser: {:?}", e),
                    Ok(p) => match rusty_linter::core::lint(p) {
                        Err(e) => format!("linter: {:?}", e),
                        Ok(_) => "accepted by the front end, outside the modelled language".to_owned(),
                    },
                })
                .unwrap_or_else(|_| "front end panicked".to_owned());
                println!("not compared: {}", why);
            }
            Some((real, cmp, vm, rf, wf)) => {
                println!("real    {} / {:?}", real.outcome, String::from_utf8_lossy(&real.out));
                println!("compare {}", cmp);
                println!("vm      {:?}", parse_ref_answer(&vm).map(|m| (m.0, String::from_utf8_lossy(&m.1).to_string())));
                println!("ref     {:?}", parse_ref_answer(&rf).map(|m| (m.0, String::from_utf8_lossy(&m.1).to_string())));
                println!("wf      {}", wf);
            }
        }
        return;
    }
    std::panic::set_hook(Box::new(|_| {}));
    let mut rng = Rng::from_env();
    let mut rep = Report::new(
        "C05",
        "jump layer (labels, GOTO, GOSUB, RETURN on top of the core language, main module): (a) the programs of the repository's own \
         tests that fall into the layer; (b) a dedicated generator — GOTO forward and backward (loops built from a label, a counter and \
         IF + GOTO), GOTO out of 1-3 nested loops of every kind (FOR, FOR STEP, WHILE, DO WHILE / UNTIL top and bottom) to a label after \
         the nest or inside the body of an enclosing loop, continue-like jumps to the end of a FOR / WHILE / DO body and back inside \
         the same iteration, jumps from outside into IF / ELSEIF / ELSE blocks and into WHILE / DO bodies, jumps between the blocks of \
         one SELECT CASE, GOSUB routines nested 1-4 deep called from FOR bodies / CASE blocks / IF blocks, routines that RETURN from \
         inside their own FOR / SELECT / WHILE / IF, routines left by GOTO whose GOSUB is answered by a later RETURN, RETURN without \
         GOSUB, falling into a routine, END inside a routine, one injected run-time fault (division by zero, overflow, READ past \
         DATA) in a third of the programs; label references re-cased at random; every program bounded by counters. Each program: \
         model-compiled instruction list = real list, VM model on it = real outcome and stdout, reference semantics = real outcome \
         and stdout, premise checker evaluated. class = (feature set, outcome kind).",
    );
    let thorough = rep.is_thorough();
    let n_ded = if thorough { 12_000 } else { 500 };
    let mut cases: Vec<Case> = vec![];
    // (a) corpus programs inside the layer
    let mut n_corpus = 0u64;
    let mut n_corpus_jumps = 0u64;
    for t in corpus::accepted_programs() {
        if corpus::needs_real_devices(&t) {
            continue;
        }
        match jmpl_sx::src_and_code(&t) {
            Some((pp, code)) => {
                n_corpus += 1;
                if pp.n_labels > 0 {
                    n_corpus_jumps += 1;
                }
                let feats = if pp.n_labels > 0 { "corpus-with-labels" } else { "corpus-core" };
                cases.push(Case { text: t, prog: pp.program, table: pp.table, code, feats: feats.into(), n_labels: pp.n_labels });
            }
            None => rep.bump("corpus.outside-layer"),
        }
    }
    rep.bump_by("corpus.inside-layer", n_corpus);
    rep.bump_by("corpus.inside-layer.with-labels", n_corpus_jumps);
    // (b) the dedicated generator
    let mut outside = 0u64;
    let mut shown_outside = 0;
    for k in 0..n_ded {
        let (text, feats) = gen_dedicated(&mut rng, k % 3 == 0);
        match jmpl_sx::src_and_code(&text) {
            Some((pp, code)) => {
                for f in &feats {
                    rep.bump(&format!("feature.{}", f));
                }
                cases.push(Case { text, prog: pp.program, table: pp.table, code, feats: feats.join("+"), n_labels: pp.n_labels })
            }
            None => {
                outside += 1;
                if let Ok(dir) = std::env::var("VERIF_C05J_DUMP") {
                    let _ = std::fs::write(format!("{}/rej{}.bas", dir, k), &text);
                }
                if shown_outside < 2 {
                    shown_outside += 1;
                    rep.sample(J::s(format!("rejected by the front end or outside the modelled language:\n{}", text)));
                }
            }
        }
    }
    rep.bump_by("generated.dedicated", n_ded as u64);
    rep.bump_by("generated.dedicated.rejected-or-outside", outside);
    // real runs, in parallel
    let reals: Vec<Observed> = {
        let texts: Vec<String> = cases.iter().map(|c| c.text.clone()).collect();
        let n_threads = 8;
        let chunk = (texts.len() + n_threads - 1) / n_threads.max(1);
        let mut handles = vec![];
        for part in texts.chunks(chunk.max(1)) {
            let part: Vec<String> = part.to_vec();
            handles.push(std::thread::spawn(move || part.iter().map(|t| run_real(t, b"", BUDGET)).collect::<Vec<_>>()));
        }
        handles.into_iter().flat_map(|h| h.join().unwrap()).collect()
    };
    let t0 = std::time::Instant::now();
    eprintln!("[c05j] {} programs; real runs done", cases.len());
    let canswers = ask(&cases.iter().map(|c| format!("(jmpl.compare {} {} {})", c.prog, c.table, c.code)).collect::<Vec<_>>());
    eprintln!("[c05j] {:.1}s compare done", t0.elapsed().as_secs_f32());
    // a real run that did not end within its budget is compared too, with small budgets for the models: they must not end either
    let vanswers = ask(
        &cases
            .iter()
            .enumerate()
            .map(|(k, c)| format!("(jmpl.run {} {})", if reals[k].outcome == "budget" { BUDGET / 10 } else { BUDGET }, c.prog))
            .collect::<Vec<_>>(),
    );
    eprintln!("[c05j] {:.1}s vm done", t0.elapsed().as_secs_f32());
    if let Ok(dir) = std::env::var("VERIF_C05J_TIME") {
        // debugging aid: time the reference semantics per program, keep the slow ones
        for (k, c) in cases.iter().enumerate() {
            let t1 = std::time::Instant::now();
            let a = ask(&[format!("(jmpl.ref {} {})", FUEL, c.prog)]);
            let dt = t1.elapsed().as_secs_f32();
            if dt > 0.5 {
                eprintln!("[c05j] slow ref {:.1}s case {} real={} ref={}", dt, k, reals[k].outcome, a[0].chars().take(30).collect::<String>());
                let _ = std::fs::write(format!("{}/slow{}.bas", dir, k), &c.text);
            }
        }
    }
    let ranswers = ask(
        &cases
            .iter()
            .enumerate()
            .map(|(k, c)| format!("(jmpl.ref {} {})", if reals[k].outcome == "budget" { FUEL / 6 } else { FUEL }, c.prog))
            .collect::<Vec<_>>(),
    );
    eprintln!("[c05j] {:.1}s ref done", t0.elapsed().as_secs_f32());
    // the premise of the layer's simulation theorem, evaluated on every explored program
    let wanswers = ask(&cases.iter().map(|c| format!("(jmpl.wf {})", c.prog)).collect::<Vec<_>>());
    let mut wf: Vec<Option<bool>> = vec![];
    let mut outside_shown = 0;
    for (k, a) in wanswers.iter().enumerate() {
        if a.starts_with("(wf true") {
            rep.bump("theorem-premise.progWfB-true");
            wf.push(Some(true));
        } else if a.starts_with("(wf false") {
            rep.bump("theorem-premise.progWfB-false");
            wf.push(Some(false));
            if outside_shown < 2 {
                outside_shown += 1;
                rep.sample(J::s(format!("outside the premise of the jump layer's compile_correct:\n{}", cases[k].text)));
            }
        } else {
            rep.bump("theorem-premise.unreadable");
            wf.push(None);
        }
    }
    let mut shrunk = 0;
    for (k, c) in cases.iter().enumerate() {
        let real = &reals[k];
        let okind = real.outcome.split(' ').take(2).collect::<Vec<_>>().join(" ");
        rep.case(if c.n_labels > 0 { Some(format!("{}|{}", c.feats, okind)) } else { None });
        rep.bump(&format!("outcome.{}", okind));
        if k < 1 || k == cases.len() - 1 || k == cases.len() / 2 {
            rep.sample(J::s(c.text.clone()));
        }
        // 1. the generator model
        let a = &canswers[k];
        if a.starts_with("(same") {
            rep.bump("compile-model.same");
            let n: u64 = a.trim_matches(|ch| ch == '(' || ch == ')').split(' ').nth(1).and_then(|x| x.parse().ok()).unwrap_or(0);
            rep.bump_by("compile-model.instructions-compared", n);
        } else if a.starts_with("(not-core") {
            rep.bump("compile-model.instruction-outside-model");
        } else {
            let parts: Vec<&str> = a.trim_matches(|ch| ch == '(' || ch == ')').split(' ').collect();
            let kind: String = parts
                .get(2)
                .map(|x| x.split('@').next().unwrap_or("").chars().take_while(|ch| !ch.is_ascii_digit() && *ch != ':').collect())
                .unwrap_or_default();
            let text = if shrunk < 4 {
                shrunk += 1;
                shrink(&c.text, "compile", "")
            } else {
                c.text.clone()
            };
            rep.fail(Failure {
                kind: Kind::ModelVsImpl,
                signature: format!("jmpl-compile:{}:{}", parts.first().unwrap_or(&"?"), kind),
                input: text,
                implementation: a.clone(),
                expected: "RbModel.JmpL.Compile.compile = normalise(real instruction list)".into(),
                note: "(differ <index> <model instr> <real instr> <model len> <real len>) | (bad-op)".into(),
            });
        }
        if real.outcome == "budget" {
            // the real run did not end within its instruction budget: the models must not end within a tenth of it
            let vm_ends = parse_ref_answer(&vanswers[k]).map(|m| m.0 != "outOfFuel" && m.0 != "stuck").unwrap_or(false);
            let rf_ends = parse_ref_answer(&ranswers[k]).map(|m| m.0 == "normal" || m.0.starts_with("error")).unwrap_or(false);
            if vm_ends || rf_ends {
                rep.fail(Failure {
                    kind: if rf_ends { Kind::ImplVsProperty } else { Kind::ModelVsImpl },
                    signature: format!("jmpl-{}:real-run-does-not-end", if rf_ends { "ref" } else { "vm" }),
                    input: c.text.clone(),
                    implementation: format!("no end within {} instructions / {:?}", BUDGET, String::from_utf8_lossy(&real.out).chars().take(200).collect::<String>()),
                    expected: format!("vm model: {} / reference semantics: {}", vanswers[k].chars().take(120).collect::<String>(), ranswers[k].chars().take(120).collect::<String>()),
                    note: "the real run exhausted its budget, a model ends".into(),
                });
            } else {
                rep.bump("discarded.real-budget-and-models-out-of-fuel");
            }
            continue;
        }
        // 2. the VM model
        match parse_ref_answer(&vanswers[k]) {
            None => rep.bump("vm-model.unreadable"),
            Some(vm) => {
                if vm.0 == "outOfFuel" {
                    rep.bump("vm-model.discarded-fuel");
                } else if vm.0 == "stuck" && real.outcome != "panic" {
                    // the model VM gives up on inexact floats; a panic of the real VM is `stuck` too
                    rep.bump("vm-model.stuck-or-inexact");
                } else if vm.0 == "stuck" {
                    rep.bump("vm-model.stuck-real-panic");
                } else if let Some(what) = disagree(real, &vm) {
                    let text = if shrunk < 4 {
                        shrunk += 1;
                        shrink(&c.text, "vm", what)
                    } else {
                        c.text.clone()
                    };
                    rep.fail(Failure {
                        kind: Kind::ModelVsImpl,
                        signature: format!("jmpl-vm:{}", what),
                        input: text,
                        implementation: format!("{} / {:?}", real.outcome, String::from_utf8_lossy(&real.out)),
                        expected: format!("{} / {:?}", vm.0, String::from_utf8_lossy(&vm.1)),
                        note: "real pipeline vs RbModel.JmpL.Vm.run (RbModel.JmpL.Compile.compile p) (before shrinking)".into(),
                    });
                } else {
                    rep.bump("vm-model.same");
                }
            }
        }
        // 3. the reference semantics
        match parse_ref_answer(&ranswers[k]) {
            None => {
                rep.fail(Failure {
                    kind: Kind::ModelVsImpl,
                    signature: "jmpl-ref:unreadable".into(),
                    input: c.text.clone(),
                    implementation: c.prog.chars().take(300).collect(),
                    expected: ranswers[k].clone(),
                    note: "the Lean reader rejected the serialised program".into(),
                });
            }
            Some(rf) => {
                if rf.0 == "inexact" {
                    rep.bump("ref.discarded-inexact-float");
                } else if rf.0 == "illFormed" {
                    if wf[k] == Some(true) {
                        rep.fail(Failure {
                            kind: Kind::ModelVsImpl,
                            signature: "jmpl-ref:illFormed-inside-premise".into(),
                            input: c.text.clone(),
                            implementation: format!("{} / {:?}", real.outcome, String::from_utf8_lossy(&real.out)),
                            expected: "a program accepted by progWfB never runs into illFormed".into(),
                            note: "RbModel.JmpL.Ref.run answered illFormed although RbModel.JmpL.progWfB accepts the program".into(),
                        });
                    } else {
                        rep.bump("ref.outside-language.illFormed");
                    }
                } else if rf.0 == "outOfFuel" {
                    rep.bump("ref.discarded-fuel");
                } else if let Some(what) = disagree(real, &rf) {
                    let text = if shrunk < 4 {
                        shrunk += 1;
                        shrink(&c.text, "ref", what)
                    } else {
                        c.text.clone()
                    };
                    rep.fail(Failure {
                        kind: Kind::ImplVsProperty,
                        signature: format!("jmpl-ref:{}{}", what, if wf[k] == Some(true) { "" } else { ":outside-premise" }),
                        input: text,
                        implementation: format!("{} / {:?}", real.outcome, String::from_utf8_lossy(&real.out)),
                        expected: format!("{} / {:?}", rf.0, String::from_utf8_lossy(&rf.1)),
                        note: "implementation vs reference semantics RbModel.JmpL.Ref (before shrinking)".into(),
                    });
                } else {
                    rep.bump("ref.same");
                }
            }
        }
    }
    check_enclosure(&mut rep, &cases);
    rep.finish();
}
