//! C14 — a CONST has the value and type its expression would have at run time.
//!
//! Generated scenarios: a list of global `CONST` definitions and a list of definitions inside a SUB (every
//! third scenario: a FUNCTION),
//! over literals of all five types (at and around the type boundaries) and earlier constants (bare and
//! suffixed), all operators (+ - * / MOD, comparisons, AND OR NOT, unary minus, string +), bare and
//! suffixed names.  The expression text goes through the real parser; the parsed tree is what both the
//! real folder and the Lean model get.
//!
//! Magnitudes are added systematically (the sweep): scenario n is assigned one operator (+ - * / MOD, a
//! relational one, AND, OR, unary minus, NOT) and one pair of operand types (all 10 x 16 combinations per
//! 160 scenarios) and gets five definitions whose operands are literals of exactly those types and whose
//! RESULT (for MOD / AND / OR / NOT / unary minus / comparisons: whose operand) lies just inside and at or
//! beyond +-2^15 and +-2^31, and at one of 2^24, 2^53, 2^62, 2^63 or a whole number +- a fraction around
//! the 1e-4 test of `fit_to_type` (2^-13, 2^-14) / the 1e-5 of the comparisons — the places where
//! `fit_to_type` re-tags a quotient (INTEGER / LONG / DOUBLE / unchanged) and where the range checks sit;
//! sometimes the left operand is itself a product (`100000 * 100000.5 / 4`).  The same shapes also appear
//! at random inside larger expressions.  Comparisons with the model are restricted to its exact float
//! domain (answers `inexact` and values that cannot be written are counted as not compared); the
//! CONST-vs-inlined comparison on the implementation has no such restriction.
//!
//! (a) model vs implementation: the real folder directly (`ConstEvaluator::eval_const` on a
//!     `ConstLookup` of the visible constants) against `fold`; every definition through `lint`
//!     (accepted: the literal a `PRINT c` becomes in the linted tree; rejected: the error kind — global
//!     definitions are rejected by the pre-linter's site, subprogram ones by the converter's) against
//!     `declarePre` / `declareConv`; whole scenarios against `preLint` / `convert`; uses with every
//!     suffix against `useRef`; `STRING * c` against `stringLength`.
//! (c) the statement-level theorems' tie (`core_pair`): per scenario a core-language program (PRINT, assignment,
//!     IF, SELECT CASE, WHILE, DO, FOR) using global constants, as named text and as inlined text laid out with
//!     identical positions; both go through the real parser and linter, the driver evaluates
//!     `ConstProg.matchP` on the two linted trees (`const.inlprog`) and `Ref.run` on the named one; the real
//!     interpreter must give the same for both texts (error positions included).
//! (d) the same tie for the procedures layer (`proc_pair`, theorem `const_inline_run_proc`): per scenario a program
//!     with SUBs and FUNCTIONs (by-value and by-reference parameters, a STATIC SUB, nested calls, EXIT FUNCTION) that
//!     uses the global constants in the main module, in argument lists (SUB calls, FUNCTION calls inside expressions
//!     and PRINT lists, nested calls) and inside the procedure bodies, and the SUB-level constants inside a SUB; named
//!     and inlined text with identical positions; both real linted trees are serialised by `proc_sx` and the driver
//!     (`const.inlproc`) evaluates `ConstProc.matchP`, the premise `progWfB` of `Proc.compile_correct` on both trees
//!     and the agreement of the two `Proc.Ref` runs; `proc.ref` on each tree must give what the real interpreter
//!     gives for that text, and the real interpreter must give the same for both texts.
//! (b) implementation vs property, through `run_in_memory`: the named program (CONST lines, uses by
//!     name) against the inlined program (every use of an accepted constant whose stored value is the
//!     folded one replaced by `(e)`, recursively; a constant with a converting suffix is compared with
//!     `V<suffix> = (e) : PRINT V<suffix>`): `PRINT u` (value), a battery of type-revealing probes on
//!     `u` (`u / 3`, `u + 1` / `u - 1` — a SINGLE above 2^24 absorbs the 1, a DOUBLE does not —, `u * 1.5`,
//!     `u * 300`, `u + 32767`, `u * u`, stores into variables of all four numeric types,
//!     by-value arguments, IF, string operations; errors are caught by ON ERROR and printed), and uses
//!     inside the SUB.  A definition rejected with Overflow / Division by zero must raise error 6 / 11
//!     when its expression is evaluated at run time, and an accepted one must not.

use std::collections::HashMap;
use std::panic::{AssertUnwindSafe, catch_unwind};

use rb_harness::driver::ask;
use rb_harness::json::J;
use rb_harness::report::{Failure, Kind, Report};
use rb_harness::rng::Rng;
use rusty_basic::interpreter::verif::{FrontEndError, RunResult, run_in_memory};
use rusty_common::CaseInsensitiveString;
use rusty_linter::core::{ConstEvaluator, ConstLookup, LintError, lint};
use rusty_parser::{
    AsBareName, Expression, ExpressionPos, GlobalStatement, Operator, PrintArg, Program, Statement, TypeQualifier,
    UnaryOperator, parse_main_str,
};
use rusty_variant::Variant;

// ---- values -------------------------------------------------------------------------------------

fn rat_of_f64(x: f64) -> Option<(i128, u128)> {
    if !x.is_finite() {
        return None;
    }
    if x == 0.0 {
        return Some((0, 1));
    }
    let bits = x.to_bits();
    let neg = (bits >> 63) == 1;
    let exp = ((bits >> 52) & 0x7FF) as i64;
    let frac = bits & 0xF_FFFF_FFFF_FFFF;
    let (mut m, mut e): (u128, i64) = if exp == 0 { (frac as u128, -1074) } else { ((frac | (1 << 52)) as u128, exp - 1075) };
    while m % 2 == 0 && e < 0 {
        m /= 2;
        e += 1;
    }
    if e >= 0 {
        if e > 46 {
            return None;
        }
        let n = (m << e) as i128;
        Some((if neg { -n } else { n }, 1))
    } else {
        if -e > 100 {
            return None;
        }
        let n = m as i128;
        Some((if neg { -n } else { n }, 1u128 << (-e)))
    }
}

/// The value as the Lean driver reads it; `None` when a float cannot be written with moderate numbers.
fn show_variant(v: &Variant) -> Option<String> {
    Some(match v {
        Variant::VInteger(i) => format!("(int {})", i),
        Variant::VLong(i) => format!("(long {})", i),
        Variant::VSingle(f) => {
            let (n, d) = rat_of_f64(*f as f64)?;
            format!("(sgl {} {})", n, d)
        }
        Variant::VDouble(f) => {
            let (n, d) = rat_of_f64(*f)?;
            format!("(dbl {} {})", n, d)
        }
        Variant::VString(s) => format!("(str {})", rb_harness::sx::chars(s)),
        _ => return None,
    })
}

fn tag_of(v: &Variant) -> Option<TypeQualifier> {
    match v {
        Variant::VInteger(_) => Some(TypeQualifier::PercentInteger),
        Variant::VLong(_) => Some(TypeQualifier::AmpersandLong),
        Variant::VSingle(_) => Some(TypeQualifier::BangSingle),
        Variant::VDouble(_) => Some(TypeQualifier::HashDouble),
        Variant::VString(_) => Some(TypeQualifier::DollarString),
        _ => None,
    }
}

fn ty_name(q: TypeQualifier) -> &'static str {
    match q {
        TypeQualifier::PercentInteger => "int",
        TypeQualifier::AmpersandLong => "long",
        TypeQualifier::BangSingle => "sgl",
        TypeQualifier::HashDouble => "dbl",
        TypeQualifier::DollarString => "str",
    }
}

fn ty_char(q: TypeQualifier) -> char {
    match q {
        TypeQualifier::PercentInteger => '%',
        TypeQualifier::AmpersandLong => '&',
        TypeQualifier::BangSingle => '!',
        TypeQualifier::HashDouble => '#',
        TypeQualifier::DollarString => '$',
    }
}

const ALL_TYS: [TypeQualifier; 5] = [
    TypeQualifier::PercentInteger,
    TypeQualifier::AmpersandLong,
    TypeQualifier::BangSingle,
    TypeQualifier::HashDouble,
    TypeQualifier::DollarString,
];

fn op_name(op: Operator) -> &'static str {
    match op {
        Operator::Plus => "plus",
        Operator::Minus => "minus",
        Operator::Multiply => "multiply",
        Operator::Divide => "divide",
        Operator::Modulo => "modulo",
        Operator::Less => "less",
        Operator::LessOrEqual => "lessOrEqual",
        Operator::Equal => "equal",
        Operator::GreaterOrEqual => "greaterOrEqual",
        Operator::Greater => "greater",
        Operator::NotEqual => "notEqual",
        Operator::And => "and",
        Operator::Or => "or",
    }
}

fn lint_err_name(e: &LintError) -> String {
    match e {
        LintError::Overflow => "overflow".into(),
        LintError::DivisionByZero => "divisionByZero".into(),
        LintError::TypeMismatch => "typeMismatch".into(),
        LintError::InvalidConstant => "invalidConstant".into(),
        LintError::DuplicateDefinition => "duplicateDefinition".into(),
        other => format!("{:?}", other),
    }
}

// ---- generated expressions ------------------------------------------------------------------------

#[derive(Clone, Debug)]
enum GE {
    Lit(String),
    /// (definition id, with the suffix of the constant's own type)
    Ref(usize, bool),
    Neg(Box<GE>),
    Not(Box<GE>),
    Bin(&'static str, Box<GE>, Box<GE>),
    Par(Box<GE>),
    /// something `eval_const` has no arm for
    Raw(String),
}

#[derive(Clone, Copy, PartialEq, Eq, Debug)]
enum Scope {
    Global,
    Sub,
}

#[derive(Clone, Debug)]
enum Outcome {
    Ok(Variant),
    Rejected(String),
}

#[derive(Clone, Debug)]
struct Decl {
    /// index of the (case-insensitive) bare name
    name_ix: usize,
    name: String,
    suffix: Option<TypeQualifier>,
    expr: GE,
    scope: Scope,
    outcome: Outcome,
    /// the stored value is the folded one (bare name, or the suffix is the folded value's type)
    natural: bool,
    /// operator at the root and the operand types, for signatures
    shape: String,
    /// the parsed expression as the Lean driver reads it
    sexp: Option<String>,
    /// length of the expression with every inlineable constant expanded (saturating)
    inl_len: usize,
}

impl Decl {
    fn value(&self) -> Option<&Variant> {
        match &self.outcome {
            Outcome::Ok(v) => Some(v),
            _ => None,
        }
    }
    fn decl_name(&self) -> String {
        match self.suffix {
            Some(q) => format!("{}{}", self.name, ty_char(q)),
            None => self.name.clone(),
        }
    }
}

#[derive(Clone, Copy, PartialEq, Eq)]
enum Mode {
    Named,
    Inlined,
}

const INLINE_LIMIT: usize = 1500;

fn render(e: &GE, mode: Mode, decls: &[Decl]) -> String {
    match e {
        GE::Lit(s) | GE::Raw(s) => s.clone(),
        GE::Ref(i, sfx) => {
            let d = &decls[*i];
            if mode == Mode::Inlined && inlineable(d, decls) {
                format!("({})", render(&d.expr, mode, decls))
            } else {
                match (sfx, d.value().and_then(tag_of)) {
                    (true, Some(q)) => format!("{}{}", d.name, ty_char(q)),
                    _ => d.name.clone(),
                }
            }
        }
        GE::Neg(c) => format!("-{}", render(c, mode, decls)),
        GE::Not(c) => format!("NOT {}", render(c, mode, decls)),
        GE::Bin(op, l, r) => format!("{} {} {}", render(l, mode, decls), op, render(r, mode, decls)),
        GE::Par(c) => format!("({})", render(c, mode, decls)),
    }
}

fn inlined_len(e: &GE, decls: &[Decl]) -> usize {
    let n = match e {
        GE::Lit(s) | GE::Raw(s) => s.len(),
        GE::Ref(i, _) => {
            let d = &decls[*i];
            if d.natural && d.value().is_some() { 2 + d.inl_len } else { d.name.len() + 1 }
        }
        GE::Neg(c) => 1 + inlined_len(c, decls),
        GE::Not(c) => 4 + inlined_len(c, decls),
        GE::Bin(op, l, r) => 2 + op.len() + inlined_len(l, decls) + inlined_len(r, decls),
        GE::Par(c) => 2 + inlined_len(c, decls),
    };
    n.min(1_000_000)
}

/// The constant disappears from the inlined program: accepted, stored value = folded value, and the
/// expansion stays small.
fn inlineable(d: &Decl, _decls: &[Decl]) -> bool {
    d.natural && d.value().is_some() && d.inl_len <= INLINE_LIMIT
}

const INT_LITS: [&str; 14] = ["0", "1", "2", "3", "7", "10", "100", "181", "182", "255", "256", "300", "32766", "32767"];
const LONG_LITS: [&str; 12] = [
    "32768", "32769", "46340", "46341", "65535", "65536", "100000", "16777216", "16777217", "2147483646", "2147483647", "70000",
];
const SGL_LITS: [&str; 12] = ["0.5", "1.5", "2.5", "0.25", "3.75", ".1", "100.125", "32767.5", "32767.4", "2.0", "0.0", "16777216.0"];
const DBL_LITS: [&str; 12] = [
    "0.5#", "1.5#", "2.5#", "0.1#", "32767.5#", "32768.5#", "2147483647.5#", "2147483648.0#", "123456789.125#", "3.0#", "0.0#",
    "4294967296.0#",
];
const BIG_LITS: [&str; 2] = ["2147483648", "4294967296"];
const STR_LITS: [&str; 6] = ["\"\"", "\"a\"", "\"ab\"", "\"B\"", "\"a b\"", "\"Z9\""];
const ARITH: [&str; 5] = ["+", "-", "*", "/", "MOD"];
const REL: [&str; 6] = ["<", "<=", "=", ">=", ">", "<>"];
const LOGIC: [&str; 2] = ["AND", "OR"];

// ---- results at the re-tagging thresholds ----------------------------------------------------------
//
// `fit_to_type` (behind `/` and `MOD`) re-tags a float result: fractional part above 1e-4 -> stays a float,
// else whole -> INTEGER up to 2^15, LONG up to 2^31, DOUBLE beyond; the range checks of `+ - *`, of the
// casts and of `AND` / `OR` sit at the same limits; 2^24 / 2^53 are where SINGLE / DOUBLE stop holding
// every whole number.  For every operator and every pair of operand types the sweep builds operands
// (literals of exactly those types) whose RESULT lies just below, at and just above each limit, with
// both signs, and results a little more / less than 1e-4 away from a whole number.

const NUM_TYS: [TypeQualifier; 4] =
    [TypeQualifier::PercentInteger, TypeQualifier::AmpersandLong, TypeQualifier::BangSingle, TypeQualifier::HashDouble];

/// operators of the sweep: the 5 arithmetic ones, a relational one, AND, OR, unary minus, NOT
const SWEEP_OPS: usize = 10;
const TWO15: f64 = 32768.0;
const TWO24: f64 = 16777216.0;
const TWO31: f64 = 2147483648.0;
const TWO53: f64 = 9007199254740992.0;
const TWO63: f64 = 9223372036854775808.0;

fn decimal(mag: f64) -> String {
    let s = format!("{}", mag);
    if s.contains('.') { s } else { format!("{}.0", s) }
}

/// A literal of exactly this type with exactly this value (the parser types a whole literal by its
/// magnitude, `d.d` is a SINGLE, `d.d#` a DOUBLE); a negative one is `(-literal)`.
fn lit_ge(ty: TypeQualifier, x: f64) -> Option<GE> {
    if !x.is_finite() {
        return None;
    }
    let mag = x.abs();
    let text = match ty {
        TypeQualifier::PercentInteger => {
            if mag.fract() != 0.0 || mag > 32767.0 {
                return None;
            }
            format!("{}", mag as i64)
        }
        TypeQualifier::AmpersandLong => {
            if mag.fract() != 0.0 || !(32768.0..=2147483647.0).contains(&mag) {
                return None;
            }
            format!("{}", mag as i64)
        }
        TypeQualifier::BangSingle => {
            let f = mag as f32;
            if !f.is_finite() || (f as f64) != mag {
                return None;
            }
            decimal(mag)
        }
        TypeQualifier::HashDouble => format!("{}#", decimal(mag)),
        TypeQualifier::DollarString => return None,
    };
    let lit = GE::Lit(text);
    Some(if x < 0.0 { GE::Par(Box::new(GE::Neg(Box::new(lit)))) } else { lit })
}

#[derive(Clone, Copy, Debug, PartialEq, Eq)]
enum Family {
    /// result around +-2^15, strictly inside / at or beyond
    T15(bool),
    /// result around +-2^31
    T31(bool),
    /// result around 2^24, 2^53, 2^63, or a whole number +- a fraction near 1e-4 / 1e-5
    Other,
}

fn target(rng: &mut Rng, fam: Family) -> f64 {
    const D: [f64; 6] = [0.0, 0.5, 1.0, 128.0, 256.0, 65536.0];
    let r = match fam {
        Family::T15(beyond) | Family::T31(beyond) => {
            let t = if matches!(fam, Family::T15(_)) { TWO15 } else { TWO31 };
            let d = *rng.pick(&D);
            if beyond { t + d } else { t - if d == 0.0 { 1.0 } else { d } }
        }
        Family::Other => match rng.below(6) {
            0 => TWO24 + *rng.pick(&[-1.0, 0.0, 1.0, 2.0]),
            1 => TWO53 + *rng.pick(&[-1.0, 0.0, 2.0]),
            2 => TWO63 + *rng.pick(&[-1.0, -0.5, 0.0, 1.0]) * 1099511627776.0,
            3 => TWO63 / 2.0 + *rng.pick(&[-1.0, 0.0, 1.0]) * 1099511627776.0,
            _ => {
                // whole number + a fraction around the 1e-4 test of fit_to_type / the 1e-5 of the comparisons
                let k = *rng.pick(&[0.0, 1.0, 3.0, 100.0, 32767.0, 32768.0]);
                let f = *rng.pick(&[0.0001220703125, 0.00006103515625, 0.0009765625, 0.00000762939453125, 0.5, 0.25]);
                if rng.chance(1, 2) { k + f } else { k - f }
            }
        },
    };
    if rng.chance(1, 2) { -r } else { r }
}

/// `l op r` with operands of exactly the types `tl`, `tr` whose exact result is `r` (for MOD, AND, OR,
/// the relational operators and the unary ones: whose operand is `r`). `None`: no such literals.
fn threshold_ge(rng: &mut Rng, op: usize, tl: TypeQualifier, tr: TypeQualifier, r: f64) -> Option<GE> {
    const ADD_B: [f64; 10] = [1.0, 2.0, 0.5, 100.0, 32767.0, 65536.0, 2147483647.0, 0.25, 16777216.0, 4294967296.0];
    const MUL_B: [f64; 11] = [2.0, 4.0, 0.5, 256.0, 65536.0, 0.25, 1.0, 32768.0, 1048576.0, 4294967296.0, 0.0001220703125];
    const DIV_B: [f64; 13] = [
        2.0, 4.0, 0.5, 0.25, 8.0, 65536.0, 8192.0, 16384.0, 1024.0, 0.0000152587890625, 0.00000762939453125,
        0.00000095367431640625, 131072.0,
    ];
    let bin = |op: &'static str, a: GE, b: GE| GE::Bin(op, Box::new(a), Box::new(b));
    for _ in 0..40 {
        let made = match op {
            0 => {
                let b = *rng.pick(&ADD_B) * if rng.chance(1, 4) { -1.0 } else { 1.0 };
                let a = r - b;
                if a + b != r { None } else { Some(("+", a, b)) }
            }
            1 => {
                let b = *rng.pick(&ADD_B) * if rng.chance(1, 4) { -1.0 } else { 1.0 };
                let a = r + b;
                if a - b != r { None } else { Some(("-", a, b)) }
            }
            2 => {
                let b = *rng.pick(&MUL_B);
                let a = r / b;
                if a * b != r { None } else { Some(("*", a, b)) }
            }
            3 => {
                let b = *rng.pick(&DIV_B);
                let a = r * b;
                if a / b != r { None } else { Some(("/", a, b)) }
            }
            4 => {
                let b = *rng.pick(&[7.0, 2.0, 32768.0, 0.4, 100000.0, 32767.0]);
                if rng.chance(1, 4) { Some(("MOD", b, r)) } else { Some(("MOD", r, b)) }
            }
            5 => {
                let e = *rng.pick(&[0.0, 1.0, -1.0, 0.00000762939453125, 0.0001220703125, 256.0]);
                Some((*rng.pick(&REL), r, r + e))
            }
            6 | 7 => {
                let b = *rng.pick(&[1.0, 255.0, 32767.0, -1.0]);
                let o = if op == 6 { "AND" } else { "OR" };
                if rng.chance(1, 4) { Some((o, b, r)) } else { Some((o, r, b)) }
            }
            _ => {
                let a = lit_ge(tl, r)?;
                return Some(if op == 8 { GE::Neg(Box::new(GE::Par(Box::new(a)))) } else { GE::Not(Box::new(a)) });
            }
        };
        let Some((o, a, b)) = made else { continue };
        let (Some(mut ga), Some(gb)) = (lit_ge(tl, a), lit_ge(tr, b)) else { continue };
        // sometimes the left operand is itself computed (`100000 * 100000.5 / 4`): a product or a sum
        if rng.chance(1, 4) {
            let q = *rng.pick(&[2.0, 4.0, 65536.0, 0.5, 1024.0]);
            let t1 = *rng.pick(&NUM_TYS);
            let t2 = *rng.pick(&NUM_TYS);
            if (a / q) * q == a {
                if let (Some(p1), Some(p2)) = (lit_ge(t1, a / q), lit_ge(t2, q)) {
                    ga = GE::Par(Box::new(bin("*", p1, p2)));
                }
            }
        }
        return Some(bin(o, ga, gb));
    }
    None
}

struct Gen<'a> {
    rng: &'a mut Rng,
    /// ids of the accepted definitions visible here, numeric and string
    num_refs: Vec<usize>,
    str_refs: Vec<usize>,
}

impl Gen<'_> {
    fn num_lit(&mut self) -> GE {
        let s = match self.rng.below(20) {
            0..=6 => *self.rng.pick(&INT_LITS),
            7..=10 => *self.rng.pick(&LONG_LITS),
            11..=14 => *self.rng.pick(&SGL_LITS),
            15..=17 => *self.rng.pick(&DBL_LITS),
            18 => *self.rng.pick(&BIG_LITS),
            _ => return GE::Lit(self.rng.range(0, 400).to_string()),
        };
        GE::Lit(s.to_owned())
    }

    fn num_atom(&mut self) -> GE {
        if !self.num_refs.is_empty() && self.rng.chance(2, 5) {
            let i = *self.rng.pick(&self.num_refs);
            GE::Ref(i, self.rng.chance(1, 3))
        } else {
            let l = self.num_lit();
            if self.rng.chance(1, 6) { GE::Neg(Box::new(l)) } else { l }
        }
    }

    fn str_atom(&mut self) -> GE {
        if !self.str_refs.is_empty() && self.rng.chance(2, 5) {
            let i = *self.rng.pick(&self.str_refs);
            GE::Ref(i, self.rng.chance(1, 3))
        } else {
            GE::Lit((*self.rng.pick(&STR_LITS)).to_owned())
        }
    }

    fn wrap(&mut self, e: GE) -> GE {
        match e {
            GE::Bin(..) if self.rng.chance(3, 4) => GE::Par(Box::new(e)),
            other => other,
        }
    }

    fn num(&mut self, depth: u32) -> GE {
        if depth == 0 || self.rng.chance(1, 4) {
            return self.num_atom();
        }
        match self.rng.below(27) {
            // a result at a re-tagging threshold, anywhere inside a larger expression
            23..=26 => {
                let op = self.rng.below(SWEEP_OPS as u64) as usize;
                let tl = *self.rng.pick(&NUM_TYS);
                let tr = *self.rng.pick(&NUM_TYS);
                let fam = match self.rng.below(5) {
                    0 => Family::T15(false),
                    1 => Family::T15(true),
                    2 => Family::T31(false),
                    3 => Family::T31(true),
                    _ => Family::Other,
                };
                let r = target(self.rng, fam);
                match threshold_ge(self.rng, op, tl, tr, r) {
                    Some(e) => GE::Par(Box::new(e)),
                    None => self.num_atom(),
                }
            }
            // shapes whose value is small and whole but whose type is not INTEGER: the probes tell the
            // types apart on exactly these
            20 => {
                let a: i64 = self.rng.pick(&LONG_LITS).parse().unwrap();
                let b = a - self.rng.range(0, 400);
                GE::Par(Box::new(GE::Bin("-", Box::new(GE::Lit(a.to_string())), Box::new(GE::Lit(b.to_string())))))
            }
            21 => {
                let y = self.rng.range(1, 200);
                let x = y * self.rng.range(0, 160);
                let num = if self.rng.chance(1, 3) { format!("{}.0#", x) } else { x.to_string() };
                GE::Par(Box::new(GE::Bin("/", Box::new(GE::Lit(num)), Box::new(GE::Lit(y.to_string())))))
            }
            22 => {
                let x = self.rng.range(0, 400);
                let one = *self.rng.pick(&["1.0", "1.0#", "65536"]);
                let op = if one == "65536" { "MOD" } else { "*" };
                if op == "MOD" {
                    GE::Par(Box::new(GE::Bin("+", Box::new(GE::Lit("65536".into())), Box::new(GE::Lit(x.to_string())))))
                } else {
                    GE::Par(Box::new(GE::Bin(op, Box::new(GE::Lit(x.to_string())), Box::new(GE::Lit(one.to_owned())))))
                }
            }
            0..=8 => {
                let op = *self.rng.pick(&ARITH);
                let l = self.num(depth - 1);
                let r = self.num(depth - 1);
                GE::Bin(op, Box::new(self.wrap(l)), Box::new(self.wrap(r)))
            }
            9..=11 => {
                let op = *self.rng.pick(&REL);
                let (l, r) = if self.rng.chance(1, 4) {
                    (self.str(depth - 1), self.str(depth - 1))
                } else {
                    (self.num(depth - 1), self.num(depth - 1))
                };
                GE::Bin(op, Box::new(self.wrap(l)), Box::new(self.wrap(r)))
            }
            12..=14 => {
                let op = *self.rng.pick(&LOGIC);
                let l = self.num(depth - 1);
                let r = self.num(depth - 1);
                GE::Bin(op, Box::new(self.wrap(l)), Box::new(self.wrap(r)))
            }
            15 | 16 => {
                let c = self.num(depth - 1);
                GE::Neg(Box::new(GE::Par(Box::new(c))))
            }
            17 | 18 => {
                let c = self.num(depth - 1);
                GE::Not(Box::new(self.wrap(c)))
            }
            _ => {
                let c = self.num(depth - 1);
                GE::Par(Box::new(c))
            }
        }
    }

    fn str(&mut self, depth: u32) -> GE {
        if depth == 0 || self.rng.chance(1, 2) {
            return self.str_atom();
        }
        let l = self.str(depth - 1);
        let r = self.str(depth - 1);
        if self.rng.chance(1, 5) { GE::Par(Box::new(GE::Bin("+", Box::new(l), Box::new(r)))) } else { GE::Bin("+", Box::new(l), Box::new(r)) }
    }

    /// A statically ill-typed or non-constant expression.
    fn odd(&mut self) -> GE {
        match self.rng.below(6) {
            0 => GE::Bin("+", Box::new(self.str_atom()), Box::new(self.num_atom())),
            1 => GE::Bin(*self.rng.pick(&REL), Box::new(self.num_atom()), Box::new(self.str_atom())),
            2 => GE::Neg(Box::new(self.str_atom())),
            3 => GE::Raw("LEN(\"abc\")".into()),
            4 => GE::Raw("NOSUCH + 1".into()),
            _ => GE::Bin(*self.rng.pick(&LOGIC), Box::new(self.str_atom()), Box::new(self.num_atom())),
        }
    }
}

// ---- the real front end ---------------------------------------------------------------------------

enum Front {
    Ok(Program),
    Lint(LintError, u32),
    Parse(String),
    Panic,
}

fn front(text: &str) -> Front {
    let r = catch_unwind(AssertUnwindSafe(|| {
        let program = match parse_main_str(text.to_owned()) {
            Ok(p) => p,
            Err(e) => return Front::Parse(format!("{:?}", e)),
        };
        match lint(program) {
            Ok((p, _)) => Front::Ok(p),
            Err(e) => Front::Lint(e.element, e.pos.row()),
        }
    }));
    r.unwrap_or(Front::Panic)
}

fn print_exprs(body: &[rusty_common::Positioned<Statement>], out: &mut Vec<Expression>) {
    for s in body {
        if let Statement::Print(p) = &s.element {
            for a in &p.args {
                if let PrintArg::Expression(e) = a {
                    out.push(e.element.clone());
                }
            }
        }
    }
}

/// The expressions printed at global level and inside subprograms, in order.
fn printed(program: &Program) -> (Vec<Expression>, Vec<Expression>) {
    let mut g = vec![];
    let mut s = vec![];
    for gs in program {
        match &gs.element {
            GlobalStatement::Statement(Statement::Print(p)) => {
                for a in &p.args {
                    if let PrintArg::Expression(e) = a {
                        g.push(e.element.clone());
                    }
                }
            }
            GlobalStatement::SubImplementation(sub) => print_exprs(&sub.body, &mut s),
            GlobalStatement::FunctionImplementation(f) => print_exprs(&f.body, &mut s),
            _ => {}
        }
    }
    (g, s)
}

fn literal_value(e: &Expression) -> Option<Variant> {
    match e {
        Expression::IntegerLiteral(i) => Some(Variant::VInteger(*i)),
        Expression::LongLiteral(i) => Some(Variant::VLong(*i)),
        Expression::SingleLiteral(f) => Some(Variant::VSingle(*f)),
        Expression::DoubleLiteral(f) => Some(Variant::VDouble(*f)),
        Expression::StringLiteral(s) => Some(Variant::VString(s.clone())),
        _ => None,
    }
}

/// The defining expression of the last global `CONST` of a parsed (not linted) program.
fn last_const_expr(text: &str) -> Option<ExpressionPos> {
    let program = catch_unwind(AssertUnwindSafe(|| parse_main_str(text.to_owned()))).ok()?.ok()?;
    for gs in program.iter().rev() {
        if let GlobalStatement::Statement(Statement::Const(c)) = &gs.element {
            let (_, e): (&rusty_parser::NamePos, &ExpressionPos) = c.into();
            return Some(e.clone());
        }
    }
    None
}

struct Names {
    ix: HashMap<String, usize>,
}

impl Names {
    fn get(&mut self, name: &str) -> usize {
        let k = name.to_ascii_uppercase();
        let n = self.ix.len();
        *self.ix.entry(k).or_insert(n)
    }
}

/// The parsed tree as the Lean driver reads it. `consts`: bare names that are constants here.
fn sexp_of(e: &Expression, names: &mut Names, consts: &dyn Fn(&str) -> bool) -> Option<String> {
    Some(match e {
        Expression::IntegerLiteral(_)
        | Expression::LongLiteral(_)
        | Expression::SingleLiteral(_)
        | Expression::DoubleLiteral(_)
        | Expression::StringLiteral(_) => format!("(lit {})", show_variant(&literal_value(e)?)?),
        Expression::Variable(name, _) => {
            let bare = name.as_bare_name().to_string();
            if consts(&bare) {
                match name.qualifier() {
                    Some(q) => format!("(ref {} {})", names.get(&bare), ty_name(q)),
                    None => format!("(ref {})", names.get(&bare)),
                }
            } else {
                format!("(var {})", names.get(&bare))
            }
        }
        Expression::UnaryExpression(UnaryOperator::Minus, c) => format!("(neg {})", sexp_of(&c.element, names, consts)?),
        Expression::UnaryExpression(UnaryOperator::Not, c) => format!("(not {})", sexp_of(&c.element, names, consts)?),
        Expression::BinaryExpression(op, l, r, _) => format!(
            "(bin {} {} {})",
            op_name(*op),
            sexp_of(&l.element, names, consts)?,
            sexp_of(&r.element, names, consts)?
        ),
        Expression::Parenthesis(c) => format!("(paren {})", sexp_of(&c.element, names, consts)?),
        _ => "other".to_owned(),
    })
}

struct FlatMap(HashMap<CaseInsensitiveString, Variant>);

impl ConstLookup for FlatMap {
    fn get_const_value(&self, name: &CaseInsensitiveString) -> Option<&Variant> {
        self.0.get(name)
    }
}

fn direct_fold(map: &FlatMap, e: &ExpressionPos) -> Option<Result<Variant, LintError>> {
    catch_unwind(AssertUnwindSafe(|| map.eval_const(e).map_err(|e| e.element))).ok()
}

fn show_fold(r: &Option<Result<Variant, LintError>>) -> Option<String> {
    match r {
        None => Some("PANIC".into()),
        Some(Ok(v)) => Some(format!("(ok {})", show_variant(v)?)),
        Some(Err(e)) => Some(format!("(err {})", lint_err_name(e))),
    }
}

// ---- a scenario ------------------------------------------------------------------------------------

struct Scenario {
    decls: Vec<Decl>,
    /// the subprogram is a FUNCTION (else a SUB)
    func: bool,
}

impl Scenario {
    /// the statement that runs the subprogram
    fn call(&self) -> String {
        if self.func { "Z9% = S%".to_owned() } else { "S".to_owned() }
    }

    fn accepted(&self, scope: Scope) -> Vec<&Decl> {
        self.decls.iter().filter(|d| d.scope == scope && d.value().is_some()).collect()
    }

    /// The program made of the accepted definitions, an optional candidate line per scope and extra
    /// lines per scope.
    fn program(&self, mode: Mode, cand: Option<(&Decl, &str)>, global_extra: &[String], sub_extra: &[String], head: &[String], tail: &[String]) -> String {
        let mut t = String::new();
        for h in head {
            t.push_str(h);
            t.push('\n');
        }
        let line = |d: &Decl| format!("CONST {} = {}\n", d.decl_name(), render(&d.expr, mode, &self.decls));
        for d in self.accepted(Scope::Global) {
            if mode == Mode::Named || !inlineable(d, &self.decls) {
                t.push_str(&line(d));
            }
        }
        if let Some((d, text)) = cand {
            if d.scope == Scope::Global {
                t.push_str(text);
                t.push('\n');
            }
        }
        for l in global_extra {
            t.push_str(l);
            t.push('\n');
        }
        for l in tail {
            t.push_str(l);
            t.push('\n');
        }
        t.push_str(if self.func { "FUNCTION S%\n" } else { "SUB S\n" });
        for d in self.accepted(Scope::Sub) {
            if mode == Mode::Named || !inlineable(d, &self.decls) {
                t.push_str(&line(d));
            }
        }
        if let Some((d, text)) = cand {
            if d.scope == Scope::Sub {
                t.push_str(text);
                t.push('\n');
            }
        }
        for l in sub_extra {
            t.push_str(l);
            t.push('\n');
        }
        t.push_str(if self.func { "END FUNCTION\n" } else { "END SUB\n" });
        t
    }

    /// (local, global) constants visible for a definition in `scope`, as the driver reads them;
    /// `None` if a value cannot be written.
    fn env_sexp(&self, scope: Scope) -> Option<(String, String)> {
        let list = |s: Scope| -> Option<String> {
            let mut items = vec![];
            for d in self.accepted(s).into_iter().rev() {
                items.push(format!("({} {})", d.name_ix, show_variant(d.value().unwrap())?));
            }
            Some(format!("({})", items.join(" ")))
        };
        match scope {
            Scope::Global => Some((list(Scope::Global)?, "()".to_owned())),
            Scope::Sub => Some((list(Scope::Sub)?, list(Scope::Global)?)),
        }
    }

    fn flat_map(&self, scope: Scope) -> FlatMap {
        let mut m = HashMap::new();
        for d in self.accepted(Scope::Global) {
            m.insert(CaseInsensitiveString::from(d.name.as_str()), d.value().unwrap().clone());
        }
        if scope == Scope::Sub {
            for d in self.accepted(Scope::Sub) {
                m.insert(CaseInsensitiveString::from(d.name.as_str()), d.value().unwrap().clone());
            }
        }
        FlatMap(m)
    }

    fn is_const(&self, scope: Scope, bare: &str) -> bool {
        self.decls.iter().any(|d| d.value().is_some() && (d.scope == Scope::Global || scope == Scope::Sub) && d.name.eq_ignore_ascii_case(bare))
    }
}

/// A pending comparison with the Lean model.
struct Ask {
    request: String,
    /// compares the answer; returns a failure description (expected-by-implementation) if they differ
    expect: Box<dyn Fn(&str) -> Option<(String, String)>>,
    signature: String,
    input: String,
}

fn shape_of(e: &ExpressionPos, map: &FlatMap) -> String {
    let tag = |x: &ExpressionPos| match direct_fold(map, x) {
        Some(Ok(v)) => tag_of(&v).map(ty_name).unwrap_or("?").to_owned(),
        Some(Err(e)) => format!("err-{}", lint_err_name(&e)),
        None => "panic".to_owned(),
    };
    let mut x = e;
    while let Expression::Parenthesis(c) = &x.element {
        x = c;
    }
    match &x.element {
        Expression::BinaryExpression(op, l, r, _) => format!("{}:{},{}", op_name(*op), tag(l), tag(r)),
        Expression::UnaryExpression(UnaryOperator::Minus, c) => format!("neg:{}", tag(c)),
        Expression::UnaryExpression(UnaryOperator::Not, c) => format!("not:{}", tag(c)),
        Expression::Variable(n, _) => format!("ref{}:{}", if n.qualifier().is_some() { "-suffixed" } else { "" }, tag(x)),
        _ => format!("lit:{}", tag(x)),
    }
}

fn run(text: &str) -> Result<Result<RunResult, FrontEndError>, ()> {
    catch_unwind(AssertUnwindSafe(|| run_in_memory(text, b"", 2_000_000, None, false))).map_err(|_| ())
}

fn run_summary(r: &Result<Result<RunResult, FrontEndError>, ()>) -> String {
    match r {
        Err(()) => "PANIC".into(),
        Ok(Err(FrontEndError::Parse(e))) => format!("parse error {:?}", e.element),
        Ok(Err(FrontEndError::Lint(e))) => format!("lint error {:?} at row {}", e.element, e.pos.row()),
        Ok(Ok(r)) => format!(
            "{} output={:?}",
            match &r.result {
                Ok(()) => "ok".to_owned(),
                Err(_) => format!("runtime error code {:?}", r.last_error_code),
            },
            String::from_utf8_lossy(&r.stdout)
        ),
    }
}

/// Splits the output at the `#<id>` marker lines.
fn segments(out: &str) -> HashMap<String, String> {
    let mut m = HashMap::new();
    let mut cur: Option<String> = None;
    let mut buf = String::new();
    for line in out.split("\r\n") {
        if let Some(id) = line.strip_prefix('#') {
            if let Some(c) = cur.take() {
                m.insert(c, std::mem::take(&mut buf));
            }
            cur = Some(id.trim().to_owned());
            buf.clear();
        } else if cur.is_some() {
            buf.push_str(line);
            buf.push('|');
        }
    }
    if let Some(c) = cur {
        m.insert(c, buf);
    }
    m
}

fn probes(u: &str, is_str: bool, id: usize) -> Vec<String> {
    let mut v = vec![format!("PRINT \"#{}\"", id), format!("PRINT {}", u)];
    if is_str {
        v.push(format!("PRINT LEN({}); {} + \"x\"; {} < \"b\"; {} = \"a\"", u, u, u, u));
        v.push(format!("T$ = {} : PRINT T$", u));
        v.push(format!("PT {}", u));
    } else {
        v.push(format!("PRINT {} / 3", u));
        // SINGLE absorbs a 1 above 2^24, DOUBLE does not; INTEGER / LONG overflow at their limits
        v.push(format!("PRINT {} + 1", u));
        v.push(format!("PRINT {} - 1", u));
        v.push(format!("PRINT {} * 1.5", u));
        v.push(format!("XL& = {} * 300 : PRINT XL&", u));
        v.push(format!("PRINT {} + 32767", u));
        v.push(format!("PRINT {} * {}", u, u));
        v.push(format!("PRINT -{}", u));
        v.push(format!("PRINT NOT {}", u));
        v.push(format!("PRINT {} MOD 7", u));
        v.push(format!("PRINT {} AND 255", u));
        v.push(format!("PRINT {} = {}; {} < 2", u, u, u));
        v.push(format!("PRINT {} - 2147483647", u));
        v.push(format!("A% = {} : PRINT A%", u));
        v.push(format!("B& = {} : PRINT B&", u));
        v.push(format!("C! = {} : PRINT C!", u));
        v.push(format!("D# = {} : PRINT D#", u));
        v.push(format!("IF {} THEN PRINT \"T\" ELSE PRINT \"F\"", u));
        v.push(format!("PI {}", u));
        v.push(format!("PD {}", u));
    }
    v
}

const HELPERS: &str = "SUB PI(x%)\nPRINT \"i\"; x%\nEND SUB\nSUB PD(x#)\nPRINT \"d\"; x# / 3\nEND SUB\nSUB PT(x$)\nPRINT \"t\"; x$; LEN(x$)\nEND SUB\n";

fn main() {
    let mut rep = Report::new(
        "C14",
        "one case = one generated CONST definition (expression over literals / earlier constants, name with or without suffix, global or SUB / FUNCTION level; incl. the sweep: per operator and operand-type pair, operands whose result lies just inside / at / beyond 2^15, 2^31, 2^24, 2^53, 2^62, 2^63 and around the 1e-4 fraction test of fit_to_type) or one use of a constant; distinct by the parsed expression, suffix and visible constants; trivial: none",
    );
    let thorough = rep.is_thorough();
    let mut rng = Rng::from_env();
    let scenarios = if thorough { 1500 } else { 160 };
    let mut asks: Vec<Ask> = vec![];
    let mut inexact_candidates = 0u64;

    let sweep_offset = rng.below((SWEEP_OPS * 16) as u64) as usize;
    for sc_no in 0..scenarios {
        let mut sc = Scenario { decls: vec![], func: sc_no % 3 == 2 };
        let mut names = Names { ix: HashMap::new() };
        // the sweep: scenario number -> (operator, left type, right type); five definitions per scenario
        // whose result is just inside / beyond 2^15 and 2^31 and at one of the other thresholds
        let stratum = (sc_no as usize + sweep_offset) % (SWEEP_OPS * 16);
        let (sw_op, sw_tl, sw_tr) = (stratum / 16, NUM_TYS[(stratum / 4) % 4], NUM_TYS[stratum % 4]);
        let mut plan: Vec<(Scope, Option<GE>)> = vec![];
        for _ in 0..(2 + rng.below(4)) {
            plan.push((Scope::Global, None));
        }
        let fams = [Family::T31(true), Family::T15(true), Family::Other, Family::T31(false), Family::T15(false)];
        for (i, fam) in fams.iter().enumerate() {
            // several targets of the family: not every result can be had from every pair of types
            let mut made = None;
            for _ in 0..10 {
                let r = target(&mut rng, *fam);
                made = threshold_ge(&mut rng, sw_op, sw_tl, sw_tr, r);
                if made.is_some() {
                    break;
                }
            }
            rep.bump(&format!("sweep.{}.{}", ["plus", "minus", "multiply", "divide", "modulo", "relational", "and", "or", "neg", "not"][sw_op], if made.is_some() { "built" } else { "no-such-operands" }));
            if let Some(e) = made {
                let at = rng.below(plan.len() as u64 + 1) as usize;
                if i < 3 { plan.insert(at, (Scope::Global, Some(e))) } else { plan.push((Scope::Sub, Some(e))) }
            }
        }
        for _ in 0..(1 + rng.below(3)) {
            let at = plan.iter().position(|(s, _)| *s == Scope::Sub).unwrap_or(plan.len());
            let at = at + rng.below((plan.len() - at) as u64 + 1) as usize;
            plan.insert(at, (Scope::Sub, None));
        }
        for (k, (scope, planned)) in plan.into_iter().enumerate() {
            // name: fresh, or (inside the SUB) sometimes the name of a global constant, rarely a duplicate
            let fresh = format!("{}{}", if scope == Scope::Global { "K" } else { "L" }, k);
            let name = if scope == Scope::Sub && rng.chance(1, 5) && !sc.accepted(Scope::Global).is_empty() {
                let g = sc.accepted(Scope::Global);
                g[rng.below(g.len() as u64) as usize].name.clone()
            } else if rng.chance(1, 40) && !sc.accepted(scope).is_empty() {
                let g = sc.accepted(scope);
                g[rng.below(g.len() as u64) as usize].name.to_ascii_lowercase()
            } else {
                fresh
            };
            // visible accepted constants (a local one hides the global one of the same name)
            let mut num_refs = vec![];
            let mut str_refs = vec![];
            for (i, d) in sc.decls.iter().enumerate() {
                if d.value().is_none() || (d.scope == Scope::Sub && scope == Scope::Global) {
                    continue;
                }
                let hidden = d.scope == Scope::Global
                    && scope == Scope::Sub
                    && sc.decls.iter().any(|l| l.scope == Scope::Sub && l.value().is_some() && l.name.eq_ignore_ascii_case(&d.name));
                if hidden {
                    continue;
                }
                match d.value().unwrap() {
                    Variant::VString(_) => str_refs.push(i),
                    _ => num_refs.push(i),
                }
            }
            let want_str = planned.is_none() && rng.chance(1, 6);
            let mut g = Gen { rng: &mut rng, num_refs, str_refs };
            let depth = 1 + g.rng.below(3) as u32;
            let from_sweep = planned.is_some();
            let expr = if let Some(e) = planned {
                e
            } else if g.rng.chance(1, 25) {
                g.odd()
            } else if want_str {
                g.str(depth)
            } else {
                g.num(depth)
            };
            let suffix = if rng.chance(3, 5) || (from_sweep && rng.chance(3, 4)) {
                None
            } else if want_str && rng.chance(4, 5) {
                Some(TypeQualifier::DollarString)
            } else {
                let n = if rng.chance(1, 12) { 5 } else { 4 };
                Some(*rng.pick(&ALL_TYS[..n]))
            };
            let mut d = Decl {
                name_ix: names.get(&name),
                name,
                suffix,
                expr,
                scope,
                outcome: Outcome::Rejected(String::new()),
                natural: false,
                shape: String::new(),
                sexp: None,
                inl_len: 0,
            };
            d.inl_len = inlined_len(&d.expr, &sc.decls);
            let etext = render(&d.expr, Mode::Named, &sc.decls);
            let line = format!("CONST {} = {}", d.decl_name(), etext);
            let input = format!("{}{}", sc.program(Mode::Named, Some((&d, &line)), &[], &[], &[], &[]), "");

            // the parsed tree, the direct fold, the shape
            let parsed = last_const_expr(&format!("CONST ZZ9 = {}\n", etext));
            let Some(parsed) = parsed else {
                rep.fail(Failure {
                    kind: Kind::ModelVsImpl,
                    signature: "generator:unparsable".into(),
                    input: line.clone(),
                    implementation: "the parser rejects a generated constant expression".into(),
                    expected: "a parsed CONST".into(),
                    note: String::new(),
                });
                continue;
            };
            let map = sc.flat_map(scope);
            d.shape = shape_of(&parsed, &map);
            let is_c = |b: &str| sc.is_const(scope, b);
            d.sexp = sexp_of(&parsed.element, &mut names, &is_c);
            let env = sc.env_sexp(scope);
            let direct = direct_fold(&map, &parsed);

            // through lint: accepted (value of PRINT c) or rejected (error kind)
            let use_name = d.name.clone();
            let (gx, sx): (Vec<String>, Vec<String>) = match scope {
                Scope::Global => (vec![format!("PRINT {}", use_name)], vec![]),
                Scope::Sub => (vec![], vec![format!("PRINT {}", use_name)]),
            };
            let text = sc.program(Mode::Named, Some((&d, &line)), &gx, &sx, &[], &[]);
            let cand_row = 1 + match scope {
                Scope::Global => sc.accepted(Scope::Global).len(),
                Scope::Sub => sc.accepted(Scope::Global).len() + 1 + sc.accepted(Scope::Sub).len(),
            } as u32;
            let outcome = match front(&text) {
                Front::Ok(p) => {
                    let (g, s) = printed(&p);
                    let e = if scope == Scope::Global { g.last().cloned() } else { s.last().cloned() };
                    match e.as_ref().and_then(literal_value) {
                        Some(v) => Outcome::Ok(v),
                        None => Outcome::Rejected(format!("accepted, but PRINT {} became {:?}", use_name, e)),
                    }
                }
                Front::Lint(e, row) => {
                    if row == cand_row {
                        Outcome::Rejected(lint_err_name(&e))
                    } else {
                        Outcome::Rejected(format!("{} at row {} (the definition is in row {})", lint_err_name(&e), row, cand_row))
                    }
                }
                Front::Parse(e) => Outcome::Rejected(format!("parse error {}", e)),
                Front::Panic => Outcome::Rejected("PANIC".into()),
            };
            d.outcome = outcome.clone();
            let folded_tag = match &direct {
                Some(Ok(v)) => tag_of(v),
                _ => None,
            };
            d.natural = d.suffix.is_none() || d.suffix == folded_tag;

            let class = format!("{:?} {} {:?} {:?}", scope, d.sexp.clone().unwrap_or_default(), d.suffix.map(ty_name), env);
            rep.case(Some(class));
            rep.bump(&format!("decl.{}.{}", if scope == Scope::Global { "global" } else if sc.func { "function" } else { "sub" }, match &outcome {
                Outcome::Ok(v) => format!("accepted.{}", tag_of(v).map(ty_name).unwrap_or("?")),
                Outcome::Rejected(k) => format!("rejected.{}", k.split(' ').next().unwrap_or("")),
            }));
            rep.bump(&format!("root.{}", d.shape.split(':').next().unwrap_or("")));
            rep.bump(&format!("name.{}", match d.suffix {
                None => "bare".to_owned(),
                Some(q) => format!("suffix-{}{}", ty_name(q), if d.natural { "" } else { "-converting" }),
            }));
            if sc_no < 3 && k < 2 {
                rep.sample(J::obj([
                    ("definition", J::s(line.clone())),
                    ("scope", J::s(format!("{:?}", scope))),
                    ("parsed", J::s(d.sexp.clone().unwrap_or_default())),
                    ("outcome", J::s(format!("{:?}", outcome))),
                ]));
            }

            // (a) Lean: fold and declare
            if let (Some(sx), Some((loc, glob))) = (&d.sexp, &env) {
                if let Some(want) = show_fold(&direct) {
                    let want2 = want.clone();
                    asks.push(Ask {
                        request: format!("(const.fold {} {} {})", loc, glob, sx),
                        expect: Box::new(move |a| if a == want2 { None } else { Some((want2.clone(), a.to_owned())) }),
                        signature: format!("fold:{}", d.shape),
                        input: format!("eval_const on `{}` with constants {} / {}", etext, loc, glob),
                    });
                }
                let want = match &outcome {
                    Outcome::Ok(v) => show_variant(v).map(|s| format!("(ok {})", s)),
                    Outcome::Rejected(k) => Some(format!("(err {})", k)),
                };
                let dup = sc.accepted(scope).iter().any(|x| x.name.eq_ignore_ascii_case(&d.name));
                if dup {
                    // a second definition of a name of the same scope: the whole pass decides
                    let item = format!("({} {} {})", d.name_ix, d.suffix.map(ty_name).unwrap_or("none"), sx);
                    let list = |s: Scope, extra: Option<&String>| -> Option<String> {
                        let mut ds = vec![];
                        for x in sc.accepted(s) {
                            ds.push(format!("({} {} {})", x.name_ix, x.suffix.map(ty_name).unwrap_or("none"), x.sexp.clone()?));
                        }
                        if let Some(e) = extra {
                            ds.push(e.clone());
                        }
                        Some(format!("({})", ds.join(" ")))
                    };
                    let global = scope == Scope::Global;
                    let req = if global {
                        list(Scope::Global, Some(&item)).map(|g| format!("(const.run {} ())", g))
                    } else {
                        match (list(Scope::Global, None), list(Scope::Sub, Some(&item))) {
                            (Some(g), Some(s)) => Some(format!("(const.run {} {})", g, s)),
                            _ => None,
                        }
                    };
                    if let (Some(request), Some(want)) = (req, want.clone()) {
                        asks.push(Ask {
                            request,
                            expect: Box::new(move |a| {
                                let inner = a.strip_prefix('(').and_then(|s| s.strip_suffix(')')).unwrap_or(a);
                                let (pre, rest) = split_two(inner);
                                let (_conv, sub) = split_two(rest);
                                let got = if global { pre } else { sub };
                                if got == "inexact" || got == want { None } else { Some((want.clone(), a.to_owned())) }
                            }),
                            signature: "declare:duplicate".into(),
                            input: input.clone(),
                        });
                    }
                } else if let Some(want) = want {
                    let global = scope == Scope::Global;
                    let rejected = matches!(outcome, Outcome::Rejected(_));
                    asks.push(Ask {
                        request: format!("(const.declare {} {} {} {})", loc, glob, d.suffix.map(ty_name).unwrap_or("none"), sx),
                        expect: Box::new(move |a| {
                            // `(<pre> <conv>)`: a rejected global definition is rejected by the pre-linter
                            let inner = a.strip_prefix('(').and_then(|s| s.strip_suffix(')')).unwrap_or(a);
                            let (pre, conv) = split_two(inner);
                            let got = if global && rejected { pre } else { conv };
                            if got == "inexact" || got == want { None } else { Some((want.clone(), a.to_owned())) }
                        }),
                        signature: format!("declare:{}:{}", d.suffix.map(ty_name).unwrap_or("bare"), d.shape),
                        input: input.clone(),
                    });
                } else {
                    inexact_candidates += 1;
                }
            } else {
                inexact_candidates += 1;
            }

            // (b) rejected with an arithmetic error <=> the run-time form raises it
            check_runtime_form(&mut rep, &sc, &d, &etext, scope);

            sc.decls.push(d);
        }

        // duplicates are only interesting as rejections: drop nothing, the rejected ones are not in `accepted`
        whole_scenario(&mut rep, &mut asks, &sc);
        uses(&mut rep, &mut asks, &sc, &mut rng);
        metamorphic(&mut rep, &sc);
        core_pair(&mut rep, &mut asks, &sc);
        proc_pair(&mut rep, &mut asks, &sc);
    }

    // ask the model
    let answers = ask(&asks.iter().map(|a| a.request.clone()).collect::<Vec<_>>());
    let mut inexact = 0u64;
    for (a, ans) in asks.iter().zip(answers.iter()) {
        if a.signature == "inlproc:match" {
            // `(<match> <wf named> <wf inlined> <agreement>)`: how often the theorem's hypotheses were evaluated to true
            let f: Vec<&str> = ans.trim_matches(|c| c == '(' || c == ')').split_whitespace().collect();
            if f.len() == 4 {
                rep.bump(&format!("proc-pair.trees-match.{}", f[0]));
                rep.bump(&format!("proc-pair.premise-progWfB.{}{}", f[1], f[2]));
                rep.bump(&format!("proc-pair.ref-runs.{}", f[3]));
            }
        }
        if ans == "inexact" {
            inexact += 1;
            continue;
        }
        if let Some((want, got)) = (a.expect)(ans) {
            rep.fail(Failure {
                kind: Kind::ModelVsImpl,
                signature: a.signature.clone(),
                input: a.input.clone(),
                implementation: want,
                expected: format!("model: {}", got),
                note: a.request.clone(),
            });
        }
    }
    rep.bump_by("model.requests", asks.len() as u64);
    rep.bump_by("model.inexact-not-compared", inexact + inexact_candidates);
    rep.notes.push(format!(
        "{} scenarios; every definition is compared at three levels: eval_const directly, through lint (value of the literal a use becomes / rejection kind), and CONST-vs-inlined program runs; model answers `inexact` (float results outside the exact domain) are counted, not compared; the implementation-vs-property comparisons do not depend on the model",
        scenarios
    ));
    rep.finish();
}

fn split_two(s: &str) -> (&str, &str) {
    // two S-expressions side by side
    let b = s.as_bytes();
    let mut depth = 0i32;
    for (i, c) in b.iter().enumerate() {
        match c {
            b'(' => depth += 1,
            b')' => depth -= 1,
            b' ' if depth == 0 => return (&s[..i], &s[i + 1..]),
            _ => {}
        }
    }
    (s, "")
}

/// Rejected for Overflow / Division by zero ⇔ evaluating the expression at run time raises 6 / 11.
fn check_runtime_form(rep: &mut Report, sc: &Scenario, d: &Decl, etext: &str, scope: Scope) {
    let stmt = match d.suffix {
        None => format!("PRINT {}", etext),
        Some(q) => format!("V9{} = {}", ty_char(q), etext),
    };
    let (gx, sx) = match scope {
        Scope::Global => (vec![stmt.clone()], vec![]),
        Scope::Sub => (vec![sc.call()], vec![stmt.clone()]),
    };
    let rejected_kind = match &d.outcome {
        Outcome::Rejected(k) => Some(k.clone()),
        Outcome::Ok(_) => None,
    };
    // accepted definitions are covered by the named-vs-inlined runs; here: the rejected ones, and a
    // sample of the accepted ones for the converse direction
    if rejected_kind.is_none() && d.name_ix % 3 != 0 {
        return;
    }
    let text = sc.program(Mode::Named, None, &gx, &sx, &[], &[]);
    let r = run(&text);
    let runtime: String = match &r {
        Err(()) => "panic".into(),
        Ok(Err(FrontEndError::Lint(e))) => format!("lint-{}", lint_err_name(&e.element)),
        Ok(Err(FrontEndError::Parse(_))) => "parse".into(),
        Ok(Ok(rr)) => match (&rr.result, rr.last_error_code) {
            (Ok(()), _) => "ok".into(),
            (Err(_), Some(6)) => "overflow".into(),
            (Err(_), Some(11)) => "divisionByZero".into(),
            (Err(_), Some(13)) => "typeMismatch".into(),
            (Err(_), c) => format!("error-{:?}", c),
        },
    };
    rep.bump(&format!("runtime-form.{}.{}", rejected_kind.as_deref().map(|k| k.split(' ').next().unwrap_or("")).unwrap_or("accepted"), runtime));
    let lint_side = rejected_kind.clone().unwrap_or_else(|| "accepted".into());
    let agree = match (lint_side.as_str(), runtime.as_str()) {
        ("accepted", "ok") => true,
        ("overflow", "overflow") | ("divisionByZero", "divisionByZero") => true,
        // the run-time form is itself rejected by the checker: no run to compare with
        ("typeMismatch", "lint-typeMismatch") | ("typeMismatch", "typeMismatch") => true,
        ("invalidConstant", _) | ("duplicateDefinition", _) => true,
        (l, r) if r.starts_with("lint-") && l != "accepted" => true,
        _ => false,
    };
    if !agree {
        rep.fail(Failure {
            kind: Kind::ImplVsProperty,
            signature: format!("reject:{}:{}:const={}:run={}", d.suffix.map(ty_name).unwrap_or("bare"), d.shape, lint_side.split(' ').next().unwrap_or(""), runtime),
            input: format!("CONST {} = {}   [context and run-time form:]\n{}", d.decl_name(), etext, text),
            implementation: format!("CONST: {}; run-time form: {}", lint_side, run_summary(&r)),
            expected: "rejected with Overflow / Division by zero exactly when the run-time form raises error 6 / 11; accepted exactly when it runs".into(),
            note: String::new(),
        });
    }
}

/// The whole scenario against `preLint` / `convert`, and `STRING * c` against `stringLength`.
fn whole_scenario(rep: &mut Report, asks: &mut Vec<Ask>, sc: &Scenario) {
    let list = |s: Scope| -> Option<(String, String)> {
        let mut ds = vec![];
        let mut vs = vec![];
        for d in sc.accepted(s) {
            ds.push(format!("({} {} {})", d.name_ix, d.suffix.map(ty_name).unwrap_or("none"), d.sexp.clone()?));
            vs.push(format!("({} {})", d.name_ix, show_variant(d.value().unwrap())?));
        }
        Some((format!("({})", ds.join(" ")), format!("(ok ({}))", vs.join(" "))))
    };
    if let (Some((gd, gv)), Some((sd, sv))) = (list(Scope::Global), list(Scope::Sub)) {
        let want = format!("({} {} {})", gv, gv, sv);
        let input = sc.program(Mode::Named, None, &[], &[], &[], &[]);
        let w = want.clone();
        asks.push(Ask {
            request: format!("(const.run {} {})", gd, sd),
            expect: Box::new(move |a| if a.contains("inexact") || a == w { None } else { Some((w.clone(), a.to_owned())) }),
            signature: "run:scenario".into(),
            input,
        });
        rep.case(None);
    }
    // STRING * c : the pre-linter's map is the only consumer
    let globals = sc.accepted(Scope::Global);
    let mut head = vec![];
    let mut lines = vec![];
    let mut expect = vec![];
    for d in &globals {
        // the last definition of a name wins nothing: names are unique among accepted globals
        if let Some(Variant::VInteger(i)) = d.value() {
            if (1..=2000).contains(i) {
                let sfx = if d.name_ix % 2 == 0 { "" } else { "%" };
                head.push(format!("TYPE T{}\n f AS STRING * {}{}\nEND TYPE", d.name_ix, d.name, sfx));
                lines.push(format!("DIM v{} AS T{}\nPRINT LEN(v{}.f)", d.name_ix, d.name_ix, d.name_ix));
                expect.push((d.name_ix, *i, sfx));
            }
        }
    }
    if expect.is_empty() {
        return;
    }
    let mut tail = head.clone();
    tail.extend(lines);
    let text = sc.program(Mode::Named, None, &[], &[], &[], &tail);
    let r = run(&text);
    let out = match &r {
        Ok(Ok(rr)) if rr.result.is_ok() => String::from_utf8_lossy(&rr.stdout).to_string(),
        _ => String::new(),
    };
    let got: Vec<String> = out.split("\r\n").filter(|l| !l.is_empty()).map(|l| l.trim().to_owned()).collect();
    let want: Vec<String> = expect.iter().map(|(_, i, _)| i.to_string()).collect();
    rep.case(Some(format!("strlen {:?}", want)));
    rep.bump("strlen.programs");
    if got != want {
        rep.fail(Failure {
            kind: Kind::ImplVsProperty,
            signature: "strlen:int".into(),
            input: text.clone(),
            implementation: run_summary(&r),
            expected: format!("lengths {:?}", want),
            note: "a TYPE element STRING * c must get the value of the INTEGER constant c".into(),
        });
    }
    if let Some((gv, _)) = sc.env_sexp(Scope::Global) {
        for (ix, i, sfx) in expect {
            let w = i.to_string();
            asks.push(Ask {
                request: format!("(const.strlen {} {} {})", gv, ix, if sfx.is_empty() { "none" } else { "int" }),
                expect: Box::new(move |a| if a == w { None } else { Some((w.clone(), a.to_owned())) }),
                signature: "strlen".into(),
                input: text.clone(),
            });
        }
    }
}

/// Uses of constants with every suffix, at both levels, against `useRef`.
fn uses(rep: &mut Report, asks: &mut Vec<Ask>, sc: &Scenario, rng: &mut Rng) {
    for scope in [Scope::Global, Scope::Sub] {
        let visible: Vec<&Decl> = sc.decls.iter().filter(|d| d.value().is_some() && (d.scope == Scope::Global || scope == Scope::Sub)).collect();
        if visible.is_empty() {
            continue;
        }
        for _ in 0..2 {
            let d = visible[rng.below(visible.len() as u64) as usize];
            let sfx = if rng.chance(1, 4) { None } else { Some(*rng.pick(&ALL_TYS)) };
            let u = format!("PRINT {}{}", d.name, sfx.map(|q| ty_char(q).to_string()).unwrap_or_default());
            let (gx, sx) = match scope {
                Scope::Global => (vec![u.clone()], vec![]),
                Scope::Sub => (vec![], vec![u.clone()]),
            };
            let text = sc.program(Mode::Named, None, &gx, &sx, &[], &[]);
            let got = match front(&text) {
                Front::Ok(p) => {
                    let (g, s) = printed(&p);
                    let e = if scope == Scope::Global { g.last().cloned() } else { s.last().cloned() };
                    match e.as_ref().and_then(literal_value) {
                        Some(v) => match show_variant(&v) {
                            Some(s) => format!("(lit {})", s),
                            None => continue,
                        },
                        None => format!("not-a-literal {:?}", e),
                    }
                }
                Front::Lint(LintError::DuplicateDefinition, _) => "none".to_owned(),
                Front::Lint(e, _) => format!("lint {:?}", e),
                Front::Parse(e) => format!("parse {}", e),
                Front::Panic => "PANIC".to_owned(),
            };
            rep.case(Some(format!("use {:?} {} {:?}", scope, text, sfx.map(ty_name))));
            rep.bump(&format!("use.{}.{}", if scope == Scope::Global { "global" } else { "sub" }, if got == "none" { "rejected" } else { "literal" }));
            if let Some((loc, glob)) = sc.env_sexp(scope) {
                let w = got.clone();
                asks.push(Ask {
                    request: format!("(const.use {} {} {} {})", loc, glob, d.name_ix, sfx.map(ty_name).unwrap_or("none")),
                    expect: Box::new(move |a| if a == w { None } else { Some((w.clone(), a.to_owned())) }),
                    signature: format!("use:{}", sfx.map(ty_name).unwrap_or("bare")),
                    input: text,
                });
            }
        }
    }
}

/// Named program vs inlined program.
fn metamorphic(rep: &mut Report, sc: &Scenario) {
    // textual inlining must not capture names: a global constant that stays in the inlined program
    // (converting suffix) and is hidden by a local constant of the same name would change meaning
    // inside the SUB; such scenarios are compared at the other levels only
    let capture = sc.accepted(Scope::Sub).iter().any(|l| {
        sc.accepted(Scope::Global).iter().any(|g| g.name.eq_ignore_ascii_case(&l.name) && !inlineable(g, &sc.decls))
    });
    if capture {
        rep.bump("metamorphic.skipped-name-capture");
        return;
    }
    let mut progs = vec![];
    for mode in [Mode::Named, Mode::Inlined] {
        let mut gx = vec![];
        let mut sx = vec![];
        for (i, d) in sc.decls.iter().enumerate() {
            let Some(v) = d.value() else { continue };
            let is_str = matches!(v, Variant::VString(_));
            let named_use = match (i % 2 == 0, tag_of(v)) {
                (true, Some(q)) => format!("{}{}", d.name, ty_char(q)),
                _ => d.name.clone(),
            };
            let lines: Vec<String> = if inlineable(d, &sc.decls) {
                let u = if mode == Mode::Named { named_use } else { format!("({})", render(&d.expr, Mode::Inlined, &sc.decls)) };
                if d.scope == Scope::Global {
                    probes(&u, is_str, i)
                } else {
                    // inside the SUB: no error handler, only probes that cannot fail
                    let mut v = vec![format!("PRINT \"#{}\"", i), format!("PRINT {}", u)];
                    if is_str {
                        v.push(format!("PRINT LEN({}); {} + \"x\"", u, u));
                    } else {
                        v.push(format!("PRINT {} / 3; {} = {}", u, u, u));
                        v.push(format!("D# = {} : PRINT D#", u));
                    }
                    v
                }
            } else if let Some(q) = d.suffix {
                // a converting suffix (or an expansion too long to inline): the constant stays in both programs;
                // the inlined program stores the expression into a variable of the suffix's type
                if !d.natural && mode == Mode::Inlined {
                    let var = format!("W{}{}", i, ty_char(q));
                    vec![
                        format!("PRINT \"#{}\"", i),
                        format!("{} = ({})", var, render(&d.expr, Mode::Inlined, &sc.decls)),
                        format!("PRINT {}", var),
                    ]
                } else {
                    vec![format!("PRINT \"#{}\"", i), format!("PRINT {}", named_use)]
                }
            } else {
                vec![format!("PRINT \"#{}\"", i), format!("PRINT {}", named_use)]
            };
            // a global constant hidden by a local one of the same name cannot be named inside the SUB,
            // and a local definition is not visible at global level
            if d.scope == Scope::Global {
                gx.extend(lines);
            } else {
                sx.extend(lines);
            }
        }
        let head = vec!["ON ERROR GOTO H".to_owned()];
        let mut tail = vec![sc.call(), "END".to_owned(), "H:".to_owned(), "PRINT \"E\"; ERR".to_owned(), "RESUME NEXT".to_owned()];
        tail.push(HELPERS.trim_end().to_owned());
        progs.push(sc.program(mode, None, &gx, &sx, &head, &tail));
    }
    let rn = run(&progs[0]);
    let ri = run(&progs[1]);
    let out = |r: &Result<Result<RunResult, FrontEndError>, ()>| match r {
        Ok(Ok(rr)) => Some((String::from_utf8_lossy(&rr.stdout).to_string(), rr.result.is_ok())),
        _ => None,
    };
    rep.case(Some(progs[0].clone()));
    rep.bump("metamorphic.programs");
    match (out(&rn), out(&ri)) {
        (Some((on, okn)), Some((oi, oki))) => {
            let sn = segments(&on);
            let si = segments(&oi);
            let mut reported = false;
            for (i, d) in sc.decls.iter().enumerate() {
                if d.value().is_none() {
                    continue;
                }
                let key = i.to_string();
                let (a, b) = (sn.get(&key), si.get(&key));
                rep.bump(&format!("metamorphic.compared.{}", if inlineable(d, &sc.decls) { "inlined" } else if !d.natural { "converting-suffix" } else { "kept" }));
                if a != b {
                    let first_same = match (a, b) {
                        (Some(a), Some(b)) => a.split('|').next() == b.split('|').next(),
                        _ => false,
                    };
                    let what = if !d.natural { "suffix" } else if first_same { "type" } else { "value" };
                    rep.fail(Failure {
                        kind: Kind::ImplVsProperty,
                        signature: format!("{}:{}:{}", what, d.suffix.map(ty_name).unwrap_or("bare"), d.shape),
                        input: format!("CONST {} = {}\n[named program]\n{}\n[inlined program]\n{}", d.decl_name(), render(&d.expr, Mode::Named, &sc.decls), progs[0], progs[1]),
                        implementation: format!("named: {:?}", a),
                        expected: format!("inlined: {:?}", b),
                        note: "output of the probes of this constant (segments separated by |)".into(),
                    });
                    reported = true;
                }
            }
            if !reported && (on != oi || okn != oki) {
                rep.fail(Failure {
                    kind: Kind::ImplVsProperty,
                    signature: "inline:program-behaviour".into(),
                    input: format!("[named program]\n{}\n[inlined program]\n{}", progs[0], progs[1]),
                    implementation: run_summary(&rn),
                    expected: run_summary(&ri),
                    note: "the two programs differ outside the per-constant segments".into(),
                });
            }
        }
        _ => {
            rep.fail(Failure {
                kind: Kind::ImplVsProperty,
                signature: "inline:front-end".into(),
                input: format!("[named program]\n{}\n[inlined program]\n{}", progs[0], progs[1]),
                implementation: run_summary(&rn),
                expected: run_summary(&ri),
                note: "one of the two programs is rejected by the front end or panics".into(),
            });
        }
    }
}

/// The linted tree of a core program as the Lean driver reads it. `Statement::Const` stays in the linted
/// program but generates no instructions (`instruction_generator/statement.rs`): it is dropped here, as the
/// core language of `RbModel.Ast` has no such statement.
fn core_ast_without_const(text: &str) -> Option<String> {
    let t = text.to_owned();
    catch_unwind(move || {
        let p = parse_main_str(t).ok()?;
        let (linted, _ctx) = lint(p).ok()?;
        let kept: Program =
            linted.into_iter().filter(|gs| !matches!(gs.element, GlobalStatement::Statement(Statement::Const(_)))).collect();
        rb_harness::ast_sx::program(&kept)
    })
    .ok()
    .flatten()
}

/// The statement-level theorem's tie (`const_inline_exec` / `const_inline_run`): a core-language program
/// (assignment, PRINT, IF, SELECT CASE, WHILE, DO, FOR) that uses global constants, in two layouts with
/// identical positions — uses by name, padded with blanks, and uses replaced by `(e)` — goes through the
/// real parser and linter; the two linted trees must match (`ConstProg.matchP`, evaluated by the driver:
/// the literal a use became against the reference semantics' value of the parenthesised expression), the
/// reference semantics must give for the named program what the real interpreter gives, and the real
/// interpreter must give the same for both programs, positions of errors included.
fn core_pair(rep: &mut Report, asks: &mut Vec<Ask>, sc: &Scenario) {
    let cands: Vec<(usize, &Decl)> = sc
        .decls
        .iter()
        .enumerate()
        .filter(|(_, d)| d.scope == Scope::Global && inlineable(d, &sc.decls) && d.inl_len <= 90)
        .collect();
    let nums: Vec<&(usize, &Decl)> = cands.iter().filter(|(_, d)| !matches!(d.value(), Some(Variant::VString(_)))).collect();
    let strs: Vec<&(usize, &Decl)> = cands.iter().filter(|(_, d)| matches!(d.value(), Some(Variant::VString(_)))).collect();
    if nums.is_empty() {
        return;
    }
    let mut texts = vec![];
    for mode in [Mode::Named, Mode::Inlined] {
        // the use of a constant, both layouts equally long
        let u = |c: &(usize, &Decl)| -> String {
            let (i, d) = *c;
            let named = match (i % 2 == 0, d.value().and_then(tag_of)) {
                (true, Some(q)) => format!("{}{}", d.name, ty_char(q)),
                _ => d.name.clone(),
            };
            let inl = format!("({})", render(&d.expr, Mode::Inlined, &sc.decls));
            let w = named.len().max(inl.len());
            format!("{:w$}", if mode == Mode::Named { named } else { inl }, w = w)
        };
        let n = |k: usize| u(nums[k % nums.len()]);
        let mut t = String::new();
        for d in sc.accepted(Scope::Global) {
            t.push_str(&format!("CONST {} = {}\n", d.decl_name(), render(&d.expr, Mode::Named, &sc.decls)));
        }
        t.push_str(&format!("PRINT {} ; {} , {} * 2\n", n(0), n(1), n(2)));
        if let Some(sd) = strs.first() {
            t.push_str(&format!("T$ = {} + \"x\"\nPRINT T$; {}\nIF {} < \"b\" THEN\nPRINT \"lt\"\nEND IF\n", u(sd), u(sd), u(sd)));
        }
        t.push_str(&format!("IF {} > 1 THEN\nPRINT \"y\"\nELSE\nPRINT -{}\nEND IF\n", n(0), n(1)));
        t.push_str(&format!(
            "SELECT CASE {}\nCASE {}\nPRINT \"a\"\nCASE IS > {}\nPRINT \"b\"\nCASE {} TO {}\nPRINT \"c\"\nCASE ELSE\nPRINT \"d\"\nEND SELECT\n",
            n(1), n(2), n(0), n(0), n(1)
        ));
        t.push_str(&format!("WHILE X% < 2\nX% = X% + 1\nD# = {} * X%\nPRINT D#\nWEND\n", n(2)));
        t.push_str(&format!("DO\nY% = Y% + 1\nLOOP UNTIL Y% >= 2 OR {} = {}\n", n(0), n(1)));
        t.push_str(&format!("FOR I% = 1 TO 2\nS! = S! + {}\nNEXT\nPRINT S!\n", n(1)));
        t.push_str(&format!("FOR J! = {} * 0 TO {} * 0 + 2 STEP {} * 0 + 1\nPRINT J!\nNEXT\n", n(0), n(0), n(2)));
        t.push_str(&format!("L& = {}\nPRINT L&\nA% = {} + 1\nPRINT A%\n", n(0), n(1)));
        texts.push(t);
    }
    rep.case(Some(texts[0].clone()));
    rep.bump("core-pair.programs");
    let on = rb_harness::refrun::run_real(&texts[0], b"", 2_000_000);
    let oi = rb_harness::refrun::run_real(&texts[1], b"", 2_000_000);
    if on.outcome == "budget" || oi.outcome == "budget" {
        rep.bump("core-pair.budget-exhausted");
    } else if on != oi {
        rep.fail(Failure {
            kind: Kind::ImplVsProperty,
            signature: "inlprog:run".into(),
            input: format!("[named program]\n{}\n[inlined program]\n{}", texts[0], texts[1]),
            implementation: format!("named: {} {:?}", on.outcome, String::from_utf8_lossy(&on.out)),
            expected: format!("inlined: {} {:?}", oi.outcome, String::from_utf8_lossy(&oi.out)),
            note: "same statements, same positions; uses of constants by name vs replaced by (e)".into(),
        });
    }
    let (an, ai) = (core_ast_without_const(&texts[0]), core_ast_without_const(&texts[1]));
    let (Some(an), Some(ai)) = (an, ai) else {
        rep.bump("core-pair.outside-core-or-rejected");
        return;
    };
    let input = format!("[named program]\n{}\n[inlined program]\n{}", texts[0], texts[1]);
    asks.push(Ask {
        request: format!("(const.inlprog {} {})", an, ai),
        expect: Box::new(|a| if a == "t" || a == "inexact" { None } else { Some(("the linted trees match".to_owned(), a.to_owned())) }),
        signature: "inlprog:match".into(),
        input: input.clone(),
    });
    // the reference semantics on the named program = the real run (C01's tie, on these programs)
    let want = on.clone();
    // how PRINT writes floats of 8+ significant digits is C16's / C01's subject (the reference semantics prints
    // the exact decimal): with such constants around only the outcome (kind, code, position) is compared
    let big_float = nums.iter().any(|(_, d)| match d.value() {
        Some(Variant::VSingle(f)) => f.abs() >= 8388608.0 || (f.fract() != 0.0 && f.abs() >= 100.0),
        Some(Variant::VDouble(f)) => f.abs() >= 8388608.0 || (f.fract() != 0.0 && f.abs() >= 100.0),
        Some(Variant::VLong(l)) => l.abs() >= 8388608,
        _ => false,
    });
    asks.push(Ask {
        request: format!("(ref.run 20000 {})", an),
        expect: Box::new(move |a| match rb_harness::refrun::parse_ref_answer(a) {
            None => Some((format!("{} {:?}", want.outcome, String::from_utf8_lossy(&want.out)), a.to_owned())),
            Some((o, _, _)) if o == "inexact" => None,
            Some((o, out, _)) => {
                if o == want.outcome && (big_float || out == want.out) {
                    None
                } else {
                    Some((format!("{} {:?}", want.outcome, String::from_utf8_lossy(&want.out)), format!("{} {:?}", o, String::from_utf8_lossy(&out))))
                }
            }
        }),
        signature: "inlprog:ref".into(),
        input,
    });
}

/// The linted tree of a program with procedures as `RbModel.Proc.Syntax` reads it (`proc_sx`; a `CONST` statement
/// becomes `comment`), or None if rejected / outside the procedures layer.
fn proc_ast(text: &str) -> Option<String> {
    rb_harness::proc_sx::src_and_code(text).map(|(pp, _code)| pp.program)
}

/// fuel of the reference semantics for the named program, and the surplus `δ` of the inlined one
const PROC_FUEL: u64 = 4000;
const PROC_SLACK: u64 = 400;

/// The tie of `const_inline_run_proc` (procedures layer): uses of constants inside SUB / FUNCTION bodies, in argument
/// lists of SUB calls and of FUNCTION calls inside expressions, as by-value arguments next to by-reference ones.
fn proc_pair(rep: &mut Report, asks: &mut Vec<Ask>, sc: &Scenario) {
    let cands: Vec<(usize, &Decl)> = sc
        .decls
        .iter()
        .enumerate()
        .filter(|(_, d)| d.scope == Scope::Global && inlineable(d, &sc.decls) && d.inl_len <= 90)
        .collect();
    let nums: Vec<&(usize, &Decl)> = cands.iter().filter(|(_, d)| !matches!(d.value(), Some(Variant::VString(_)))).collect();
    let strs: Vec<&(usize, &Decl)> = cands.iter().filter(|(_, d)| matches!(d.value(), Some(Variant::VString(_)))).collect();
    if nums.is_empty() {
        return;
    }
    // SUB-level constants (used inside SUB SUBT only): none if the textual inlining could capture a name
    let capture = sc.accepted(Scope::Sub).iter().any(|l| {
        sc.accepted(Scope::Global).iter().any(|g| g.name.eq_ignore_ascii_case(&l.name) && !inlineable(g, &sc.decls))
    });
    let locals: Vec<(usize, &Decl)> = if capture {
        vec![]
    } else {
        sc.decls
            .iter()
            .enumerate()
            .filter(|(_, d)| {
                d.scope == Scope::Sub && inlineable(d, &sc.decls) && d.inl_len <= 90 && !matches!(d.value(), Some(Variant::VString(_)))
            })
            .collect()
    };
    let mut texts = vec![];
    for mode in [Mode::Named, Mode::Inlined] {
        // the use of a constant, both layouts equally long
        let u = |c: &(usize, &Decl)| -> String {
            let (i, d) = *c;
            let named = match (i % 2 == 0, d.value().and_then(tag_of)) {
                (true, Some(q)) => format!("{}{}", d.name, ty_char(q)),
                _ => d.name.clone(),
            };
            let inl = format!("({})", render(&d.expr, Mode::Inlined, &sc.decls));
            let w = named.len().max(inl.len());
            format!("{:w$}", if mode == Mode::Named { named } else { inl }, w = w)
        };
        let n = |k: usize| u(nums[k % nums.len()]);
        let mut t = String::new();
        for d in sc.accepted(Scope::Global) {
            t.push_str(&format!("CONST {} = {}\n", d.decl_name(), render(&d.expr, Mode::Named, &sc.decls)));
        }
        // main module: argument lists of FUNCTION calls inside expressions, of SUB calls (with and without CALL),
        // by-value next to by-reference, nested calls, PRINT lists
        t.push_str("A% = 1\n");
        t.push_str(&format!("E# = F#({}, A%) + {}\nPRINT E#; A%\n", n(0), n(1)));
        t.push_str(&format!("P {}, A%, ({})\nCALL P({}, A%, {})\nPRINT A%\n", n(1), n(2), n(0), n(2)));
        t.push_str(&format!("PRINT G#({}) ; G#(F#({}, A%))\n", n(0), n(2)));
        if let Some(sd) = strs.first() {
            t.push_str(&format!("T$ = H$({})\nPRINT T$; H$({} + \"q\")\n", u(sd), u(sd)));
        }
        t.push_str(&format!("Q {}\nQ {}\nSUBT\n", n(2), n(0)));
        // by-value conversion to INTEGER: may overflow (error 6 at the argument, in both programs)
        t.push_str(&format!("R {}\nR {}\nPRINT \"end\"\n", n(0), n(1)));
        // procedure bodies
        t.push_str(&format!(
            "SUB P (x#, y%, z#)\nIF x# > {} THEN\ny% = y% + 1\nELSE\ny% = y% - 1\nEND IF\nPRINT x# + {}; z#\n",
            n(0), n(2)
        ));
        t.push_str(&format!("SELECT CASE {}\nCASE {}\nPRINT \"a\"\nCASE IS > {}\nPRINT \"b\"\nCASE ELSE\nPRINT \"c\"\nEND SELECT\n", n(1), n(1), n(0)));
        t.push_str(&format!("Q {}\nFOR I% = 1 TO 2\nW# = W# + {}\nNEXT\nPRINT W#\nEND SUB\n", n(0), n(1)));
        t.push_str(&format!("SUB Q (v#) STATIC\nV# = V# + v# + {}\nPRINT V#\nEND SUB\n", n(2)));
        t.push_str("SUB R (i%)\nPRINT i%\nEND SUB\n");
        t.push_str("SUB SUBT\n");
        for d in sc.accepted(Scope::Sub) {
            t.push_str(&format!("CONST {} = {}\n", d.decl_name(), render(&d.expr, Mode::Named, &sc.decls)));
        }
        for c in locals.iter().take(3) {
            t.push_str(&format!("PRINT {} ; G#({})\n", u(c), u(c)));
        }
        t.push_str("PRINT \"t\"\nEND SUB\n");
        t.push_str(&format!("FUNCTION F# (a#, b%)\nb% = b% + 1\nF# = a# * 2 + {}\nEND FUNCTION\n", n(1)));
        t.push_str(&format!(
            "FUNCTION G# (a#)\nIF a# = {} THEN\nG# = {}\nEXIT FUNCTION\nEND IF\nG# = a# - {}\nEND FUNCTION\n",
            n(0), n(1), n(2)
        ));
        if let Some(sd) = strs.first() {
            t.push_str(&format!("FUNCTION H$ (s$)\nH$ = s$ + {} + \"x\"\nEND FUNCTION\n", u(sd)));
        }
        texts.push(t);
    }
    rep.case(Some(texts[0].clone()));
    rep.bump("proc-pair.programs");
    if !locals.is_empty() {
        rep.bump("proc-pair.with-sub-level-constants");
    }
    let on = rb_harness::refrun::run_real(&texts[0], b"", 2_000_000);
    let oi = rb_harness::refrun::run_real(&texts[1], b"", 2_000_000);
    rep.bump(&format!("proc-pair.real-outcome.{}", on.outcome.split(' ').next().unwrap_or("?")));
    if std::env::var("VERIF_C14_SHOW").is_ok() && !on.outcome.starts_with("normal") {
        eprintln!("=== {}\n{}", on.outcome, texts[0]);
    }
    if on.outcome == "budget" || oi.outcome == "budget" {
        rep.bump("proc-pair.budget-exhausted");
    } else if on != oi {
        rep.fail(Failure {
            kind: Kind::ImplVsProperty,
            signature: "inlproc:run".into(),
            input: format!("[named program]\n{}\n[inlined program]\n{}", texts[0], texts[1]),
            implementation: format!("named: {} {:?}", on.outcome, String::from_utf8_lossy(&on.out)),
            expected: format!("inlined: {} {:?}", oi.outcome, String::from_utf8_lossy(&oi.out)),
            note: "same statements, same positions; uses of constants (main module, procedure bodies, argument lists) by name vs replaced by (e)".into(),
        });
    }
    let (Some(an), Some(ai)) = (proc_ast(&texts[0]), proc_ast(&texts[1])) else {
        rep.bump("proc-pair.outside-layer-or-rejected");
        return;
    };
    rep.bump("proc-pair.serialised");
    let input = format!("[named program]\n{}\n[inlined program]\n{}", texts[0], texts[1]);
    asks.push(Ask {
        request: format!("(const.inlproc {} {} {} {})", PROC_SLACK, PROC_FUEL, an, ai),
        expect: Box::new(|a| {
            // `(<match> <wf named> <wf inlined> <agreement of the two Proc.Ref runs>)`
            let inner = a.strip_prefix('(').and_then(|s| s.strip_suffix(')')).unwrap_or(a);
            let f: Vec<&str> = inner.split_whitespace().collect();
            let ok = f.len() == 4
                && (f[0] == "t" || f[0] == "inexact")
                && f[1] == "t"
                && f[2] == "t"
                && (f[3] == "same" || f[3] == "inexact" || (f[0] == "inexact" && f[3] != "differ"));
            if ok { None } else { Some(("(t t t same): the linted trees match, both satisfy progWfB, the two Proc.Ref runs agree".to_owned(), a.to_owned())) }
        }),
        signature: "inlproc:match".into(),
        input: input.clone(),
    });
    // the reference semantics on each tree = the real run of that text (the C03 tie, on these programs)
    let big_float = nums.iter().map(|c| c.1).chain(locals.iter().map(|c| c.1)).any(|d| match d.value() {
        Some(Variant::VSingle(f)) => f.abs() >= 8388608.0 || (f.fract() != 0.0 && f.abs() >= 100.0),
        Some(Variant::VDouble(f)) => f.abs() >= 8388608.0 || (f.fract() != 0.0 && f.abs() >= 100.0),
        Some(Variant::VLong(l)) => l.abs() >= 8388608,
        _ => false,
    });
    for (which, ast, want, fuel) in [("named", an, on, PROC_FUEL), ("inlined", ai, oi, PROC_FUEL + PROC_SLACK)] {
        if want.outcome == "budget" {
            continue;
        }
        asks.push(Ask {
            request: format!("(proc.ref {} {})", fuel, ast),
            expect: Box::new(move |a| match rb_harness::refrun::parse_ref_answer(a) {
                None => Some((format!("{} {:?}", want.outcome, String::from_utf8_lossy(&want.out)), a.to_owned())),
                Some((o, _, _)) if o == "inexact" => None,
                Some((o, out, _)) => {
                    // how PRINT writes floats of 8+ significant digits is C16's subject: with such constants around only
                    // the outcome (kind, code, position) is compared
                    if o == want.outcome && (big_float || out == want.out) {
                        None
                    } else {
                        Some((format!("{} {:?}", want.outcome, String::from_utf8_lossy(&want.out)), format!("{} {:?}", o, String::from_utf8_lossy(&out))))
                    }
                }
            }),
            signature: format!("inlproc:ref-{}", which),
            input: input.clone(),
        });
    }
}
