//! C11 — every diagnostic names the right place in the source.
//!
//! Fault injection: generated accepted programs (nesting <= 5, call depth <= 4, random blank lines, comments,
//! colon-joined statements, indentation; rendered with LF / CRLF / CR / mixed line endings) with ONE fault at a
//! chosen statement.  The harness knows the character offsets of every statement in the rendered text; the
//! expected row and column interval are those offsets mapped through the row/column function (Rust reference,
//! cross-checked with the Lean model through the driver).  The implementation's ParseErrorPos / LintErrorPos /
//! RuntimeErrorPos must carry the statement's row and a column inside the statement's text; for run-time errors
//! the rows after the first must be the rows of the active call sites, innermost first, ending in the main module.
//! The VM's `stacktrace` bookkeeping is also compared with the Lean model (`RbModel.RowCol.reported`) on the
//! executed instruction sequence.

use rb_harness::driver::ask;
use rb_harness::json::J;
use rb_harness::report::{Failure, Kind, Report};
use rb_harness::rng::Rng;
use rb_harness::rowcol;
use rb_harness::sx;
use rusty_basic::instruction_generator::Instruction;
use rusty_basic::interpreter::verif::{FrontEndError, Snapshot, compile, run_instructions};
use std::cell::RefCell;
use std::rc::Rc;

#[derive(Clone, Copy, Debug, PartialEq, Eq)]
enum FaultKind {
    Syntax,
    TypeMismatch,
    UndefinedLabel,
    ArgCount,
    DivZero,
    Subscript,
    Overflow,
    BuiltIn,
    /// a wrong-typed argument of a built-in statement or function (static)
    ArgType,
}

const KINDS: &[FaultKind] = &[
    FaultKind::Syntax,
    FaultKind::TypeMismatch,
    FaultKind::UndefinedLabel,
    FaultKind::ArgCount,
    FaultKind::ArgType,
    FaultKind::DivZero,
    FaultKind::Subscript,
    FaultKind::Overflow,
    FaultKind::BuiltIn,
];

impl FaultKind {
    fn name(self) -> &'static str {
        match self {
            FaultKind::Syntax => "syntax",
            FaultKind::TypeMismatch => "type-mismatch",
            FaultKind::UndefinedLabel => "undefined-label",
            FaultKind::ArgCount => "argument-count",
            FaultKind::ArgType => "argument-type",
            FaultKind::DivZero => "division-by-zero",
            FaultKind::Subscript => "subscript-out-of-range",
            FaultKind::Overflow => "overflow",
            FaultKind::BuiltIn => "built-in-failure",
        }
    }

    fn is_runtime(self) -> bool {
        matches!(self, FaultKind::DivZero | FaultKind::Subscript | FaultKind::Overflow | FaultKind::BuiltIn)
    }
}

#[derive(Clone, Debug, PartialEq)]
enum Tag {
    None,
    Fault,
    /// call made from procedure level `k` (0 = main module) into level `k + 1`
    Call(usize),
    /// the call procedure level `k` makes to itself (direct recursion through one call site)
    Rec(usize),
}

#[derive(Clone, Debug)]
struct Item {
    text: String,
    /// must stand alone on its line (block headers and footers, procedure lines)
    alone: bool,
    tag: Tag,
}

fn simple(t: impl Into<String>) -> Item {
    Item { text: t.into(), alone: false, tag: Tag::None }
}

fn alone(t: impl Into<String>) -> Item {
    Item { text: t.into(), alone: true, tag: Tag::None }
}

fn filler(rng: &mut Rng, uniq: &mut usize) -> Item {
    *uniq += 1;
    let k = rng.below(8);
    simple(match k {
        0 => format!("V{} = V{} + 1", *uniq % 5, *uniq % 3),
        1 => "PRINT \"a\"; 1".to_owned(),
        2 => format!("S{}$ = \"x\" + \"y\"", *uniq % 4),
        3 => format!("V{}% = 3 * 4 - 2", *uniq % 5),
        4 => "PRINT".to_owned(),
        5 => format!("V{}# = 1.5", *uniq % 5),
        6 => format!("IF V{} > 99 THEN PRINT \"big\"", *uniq % 5),
        _ => format!("L{}& = 100000", *uniq % 3),
    })
}

/// The fault statement (and the statements that must run before it, in the same block).
fn fault_items(rng: &mut Rng, kind: FaultKind) -> Vec<Item> {
    let mut pre: Vec<Item> = vec![];
    let text: String = match kind {
        FaultKind::Syntax => (*rng.pick(&[
            "Q = 1 1",
            "Q = )",
            "Q = 1 +* 2",
            "Q == 1",
            "FOR = 1 TO 2",
            "DIM 5",
            "Q = (1 + 2))",
            "PRINT 1 +",
            "Q = 1 ! 2",
            "GOTO",
            "Q = \"abc",
            "IF Q THEN GOTO 1 2",
            "Q = (1 + 2",
            "FOR I = 1 TO",
        ]))
        .to_owned(),
        FaultKind::TypeMismatch => (*rng.pick(&[
            "Q = \"a\" * 2",
            "Q = 1 - \"a\"",
            "Q = 3 / \"b\"",
            "Q = -\"a\"",
            "Q = 2 + (\"a\" * 3)",
        ]))
        .to_owned(),
        FaultKind::UndefinedLabel => (*rng.pick(&["GOTO Nowhere9", "GOSUB Nowhere9", "IF ZZ = 0 THEN GOTO Nowhere9"])).to_owned(),
        FaultKind::ArgCount => (*rng.pick(&["Q = LEN(\"a\", \"b\")", "Q$ = CHR$(65, 66)", "Q$ = MID$(\"abc\")", "Q = VAL()", "PRINT UCASE$(\"a\", \"b\")"])).to_owned(),
        // (after a wave-12 seed: the checker of COLOR / LOCATE reported a wrong-typed argument at the position of the
        // parser's synthetic first argument, row 1 col 1) every one is refused by the checker with the position of the
        // offending argument on the unchanged tree
        FaultKind::ArgType => (*rng.pick(&[
            "LOCATE S9$, 2",
            "COLOR , S9$",
            "LOCATE 1, 2, S9$",
            "COLOR S9$",
            "LOCATE , S9$",
            "Q$ = CHR$(\"a\")",
            "Q$ = MID$(\"abc\", \"x\")",
            "Q$ = UCASE$(5)",
            "Q$ = SPACE$(\"a\")",
            "Q = VAL(5)",
            "OPEN 5 FOR INPUT AS #1",
            "VIEW PRINT \"a\" TO 2",
            "WIDTH \"a\"",
            "Q$ = STRING$(\"a\", \"b\")",
            "Q = INSTR(1, 2)",
            "Q$ = LEFT$(5, 1)",
            "Q$ = RIGHT$(\"a\", \"b\")",
            "KILL 5",
            "NAME 5 AS \"b\"",
            "ENVIRON 5",
            "Q$ = LTRIM$(5)",
            "Q = EOF(\"a\")",
            "Q$ = STR$(\"a\")",
            "Q = CVD(5)",
            "Q$ = MKD$(\"a\")",
            "Q = PEEK(\"a\")",
            "POKE \"a\", 1",
            "DEF SEG = \"a\"",
            "Q = LBOUND(5)",
            "LINE INPUT #1, Q",
            "GET #1, \"a\"",
            "FIELD #1, \"a\" AS F$",
            "LSET Q = \"a\"",
        ]))
        .to_owned(),
        FaultKind::DivZero => (*rng.pick(&["Q = 1 / ZZ", "Q% = 7 \\ ZZ%", "Q% = 7 MOD ZZ%", "PRINT 10 / ZZ", "Q = (V1 + 2) / (ZZ * 3)"])).to_owned(),
        FaultKind::Subscript => {
            pre.push(simple("DIM Arr9(3)"));
            (*rng.pick(&["Arr9(7) = 1", "Q = Arr9(4)", "PRINT Arr9(-1)", "Arr9(ZZ - 1) = 2"])).to_owned()
        }
        FaultKind::Overflow => {
            pre.push(simple("OV& = 40000"));
            (*rng.pick(&["OI% = OV&", "OI% = OV& + 1", "OI% = OV& * 2"])).to_owned()
        }
        FaultKind::BuiltIn => (*rng.pick(&["ENVIRON \"oops\"", "Q$ = CHR$(ZZ - 1)", "Q$ = MID$(\"abc\", ZZ)"])).to_owned(),
    };
    pre.push(Item { text, alone: false, tag: Tag::Fault });
    pre
}

/// Syntax faults that cut a statement short: the parser reports the place where the missing token was
/// expected, which may be the column directly after the statement's last character.
fn is_truncation(stmt: &str) -> bool {
    matches!(stmt, "GOTO" | "PRINT 1 +" | "Q = \"abc" | "Q = (1 + 2" | "FOR I = 1 TO")
}

/// Wraps `payload` in `nest` blocks that execute their body exactly once, with fillers around.
fn body(rng: &mut Rng, uniq: &mut usize, nest: usize, payload: Vec<Item>, returns: bool) -> Vec<Item> {
    let mut inner = payload;
    for _ in 0..nest {
        *uniq += 1;
        let u = *uniq;
        let mut block: Vec<Item> = vec![];
        let before = rng.below(3);
        let after = rng.below(3);
        let mut content: Vec<Item> = vec![];
        for _ in 0..before {
            content.push(filler(rng, uniq));
        }
        content.extend(inner);
        for _ in 0..after {
            content.push(filler(rng, uniq));
        }
        match rng.below(7) {
            0 => {
                block.push(alone("IF ZZ = 0 THEN"));
                block.extend(content);
                block.push(alone("END IF"));
            }
            1 => {
                block.push(alone("IF ZZ = 1 THEN"));
                block.push(filler(rng, uniq));
                block.push(alone(if rng.chance(1, 2) { "ELSE" } else { "ELSEIF ZZ = 0 THEN" }));
                block.extend(content);
                block.push(alone("END IF"));
            }
            2 => {
                block.push(alone(format!("FOR I{} = 1 TO 1", u)));
                block.extend(content);
                block.push(alone(if rng.chance(1, 2) { "NEXT".to_owned() } else { format!("NEXT I{}", u) }));
            }
            3 => {
                block.push(alone(format!("WHILE W{} = 0", u)));
                block.extend(content);
                block.push(simple(format!("W{} = 1", u)));
                block.push(alone("WEND"));
            }
            4 => {
                block.push(alone("DO"));
                block.extend(content);
                block.push(alone("LOOP UNTIL ZZ = 0"));
            }
            5 => {
                block.push(alone(format!("DO WHILE D{} = 0", u)));
                block.extend(content);
                block.push(simple(format!("D{} = 1", u)));
                block.push(alone("LOOP"));
            }
            _ => {
                block.push(alone("SELECT CASE ZZ"));
                if rng.chance(1, 2) {
                    block.push(alone("CASE 5"));
                    block.push(filler(rng, uniq));
                }
                block.push(alone(if rng.chance(1, 2) { "CASE 0" } else { "CASE ELSE" }));
                block.extend(content);
                block.push(alone("END SELECT"));
            }
        }
        inner = block;
    }
    let _ = returns;
    let mut out = vec![];
    for _ in 0..rng.below(4) {
        out.push(filler(rng, uniq));
    }
    out.extend(inner);
    for _ in 0..rng.below(3) {
        out.push(filler(rng, uniq));
    }
    out
}

struct Program {
    items: Vec<Item>,
    depth: usize,
    nest_total: usize,
    /// per procedure level k (index k - 1): how many times it calls itself before it goes on (0 = not recursive)
    rec: Vec<usize>,
}

/// A program with `depth` nested procedure calls; the payload (fault or nothing) sits in the innermost level.
fn program(rng: &mut Rng, kind: FaultKind, inject: bool, depth: usize) -> Program {
    let mut uniq = 0usize;
    let mut items: Vec<Item> = vec![];
    // procedures: level k (1-based) is a SUB or a FUNCTION
    let is_fn: Vec<bool> = (0..depth).map(|_| rng.chance(1, 2)).collect();
    for k in 1..=depth {
        items.push(alone(if is_fn[k - 1] {
            format!("DECLARE FUNCTION F{}% (N%)", k)
        } else {
            format!("DECLARE SUB P{} (N%)", k)
        }));
    }
    let mut nest_total = 0;
    let mut bodies: Vec<Vec<Item>> = vec![];
    for level in 0..=depth {
        let payload: Vec<Item> = if level == depth {
            // the fault-free twin has the same items, with a harmless statement in the fault's place
            let mut frng = Rng(rng.next_u64());
            let mut v = fault_items(&mut frng, kind);
            if !inject {
                for it in v.iter_mut() {
                    if it.tag == Tag::Fault {
                        it.text = "Q = 1".to_owned();
                    }
                }
            }
            v
        } else {
            let k = level + 1;
            let text = if is_fn[k - 1] {
                match rng.below(3) {
                    0 => format!("R{}% = F{}%({})", k, k, k),
                    1 => format!("PRINT F{}%({})", k, k),
                    _ => format!("R{}% = 1 + F{}%({} + 1) * 2", k, k, k),
                }
            } else if rng.chance(1, 2) {
                format!("P{} {}", k, k)
            } else {
                format!("P{} {} + N% * 0", k, k).replace("N%", if level == 0 { "ZZ" } else { "N%" })
            };
            vec![Item { text, alone: false, tag: Tag::Call(level) }]
        };
        let nest = rng.below(6) as usize; // 0..=5
        nest_total = nest_total.max(nest);
        bodies.push(body(rng, &mut uniq, nest, payload, true));
    }
    // direct recursion (after a wave-7 seed that dropped repeated frames from the reported call sites): a third
    // of the procedures first call themselves 1..3 times through ONE call site (the argument grows by 100 per
    // activation) and only the innermost activation goes on to the payload
    let rec: Vec<usize> = (0..depth).map(|_| if rng.chance(1, 3) { 1 + rng.below(3) as usize } else { 0 }).collect();
    for k in 1..=depth {
        let r = rec[k - 1];
        if r > 0 {
            let text = if is_fn[k - 1] { format!("R{}% = F{}%(N% + 100)", k, k) } else { format!("P{} N% + 100", k) };
            let mut b = vec![alone(format!("IF N% < {} THEN", 100 * r)), Item { text, alone: false, tag: Tag::Rec(k) }, alone("ELSE")];
            b.extend(bodies[k].clone());
            b.push(alone("END IF"));
            bodies[k] = b;
        }
    }
    items.extend(bodies[0].clone());
    if rng.chance(1, 2) {
        items.push(simple("END"));
    }
    // a third of the procedures are STATIC (their activation records are entered by a different instruction);
    // a recursive one is not (the activations of a STATIC procedure share its parameter)
    let is_static: Vec<bool> = (0..depth).map(|k| rec[k] == 0 && rng.chance(1, 3)).collect();
    for k in 1..=depth {
        let st = if is_static[k - 1] { " STATIC" } else { "" };
        if is_fn[k - 1] {
            items.push(alone(format!("FUNCTION F{}% (N%){}", k, st)));
            items.extend(bodies[k].clone());
            items.push(simple(format!("F{}% = N% + 1", k)));
            items.push(alone("END FUNCTION"));
        } else {
            items.push(alone(format!("SUB P{} (N%){}", k, st)));
            items.extend(bodies[k].clone());
            items.push(alone("END SUB"));
        }
    }
    Program { items, depth, nest_total, rec }
}

/// How the first (handled) error is handled.
#[derive(Clone, Copy, Debug, PartialEq, Eq)]
enum Mode {
    /// ON ERROR GOTO Handler … RESUME Recovered (a module-level label: the procedures are left)
    ResumeLabel,
    /// ON ERROR GOTO Handler … RESUME NEXT (continues after the failing statement, inside the procedure)
    ResumeNext,
    /// ON ERROR GOTO Handler … the handler repairs the cause … RESUME (re-executes the failing statement)
    Resume,
    /// ON ERROR RESUME NEXT (no handler)
    OnErrorResumeNext,
}

/// Where the second, unhandled fault is.
#[derive(Clone, Copy, Debug, PartialEq, Eq)]
enum Place {
    /// at the module level, after the first call chain is over
    Module,
    /// inside a different chain of procedures, called later from the module level
    OtherProc,
    /// in the same innermost procedure, after the handled fault (the first chain is still active)
    SameProc,
}

const MODES: &[Mode] = &[Mode::ResumeLabel, Mode::ResumeNext, Mode::Resume, Mode::OnErrorResumeNext];

impl Mode {
    fn name(self) -> &'static str {
        match self {
            Mode::ResumeLabel => "resume-label",
            Mode::ResumeNext => "resume-next",
            Mode::Resume => "resume",
            Mode::OnErrorResumeNext => "on-error-resume-next",
        }
    }
}

impl Place {
    fn name(self) -> &'static str {
        match self {
            Place::Module => "module-level",
            Place::OtherProc => "other-procedure",
            Place::SameProc => "same-procedure",
        }
    }
}

/// A program with a history: a first error inside `d1` nested procedures is handled (`mode`), then a second,
/// unhandled fault of kind `kind` happens at `place`.  The tags mark the second fault and the call sites that
/// are active when it happens.
fn history_program(rng: &mut Rng, kind: FaultKind, inject: bool, d1: usize, d2: usize, mode: Mode, place: Place) -> Program {
    let mut uniq = 1000usize;
    let mut items: Vec<Item> = vec![];
    for k in 1..=d1 {
        items.push(alone(format!("DECLARE SUB A{} (N%)", k)));
    }
    if place == Place::OtherProc {
        for k in 1..=d2 {
            items.push(alone(format!("DECLARE SUB B{} (N%)", k)));
        }
    }
    items.push(alone("DIM SHARED DZ"));
    items.push(alone("DIM SHARED HV&"));
    items.push(alone("DIM SHARED ES$"));
    items.push(simple("HV& = 40000"));
    items.push(simple("ES$ = \"oops\""));
    items.push(alone(if mode == Mode::OnErrorResumeNext { "ON ERROR RESUME NEXT" } else { "ON ERROR GOTO Handler" }));
    // the second fault (or its harmless twin)
    let mut frng = Rng(rng.next_u64());
    let mut second = fault_items(&mut frng, kind);
    if !inject {
        for it in second.iter_mut() {
            if it.tag == Tag::Fault {
                it.text = "Q = 1".to_owned();
            }
        }
    }
    let mut nest_total = 0;
    let mut nest = |rng: &mut Rng, max: u64| {
        let n = rng.below(max + 1) as usize;
        nest_total = nest_total.max(n);
        n
    };
    // module level, part 1: the call into the first chain (not inside blocks when RESUME jumps to a label)
    let call_a = Item { text: "A1 1".into(), alone: false, tag: if place == Place::SameProc { Tag::Call(0) } else { Tag::None } };
    let n = if mode == Mode::ResumeLabel { 0 } else { nest(rng, 3) };
    items.extend(body(rng, &mut uniq, n, vec![call_a], true));
    if mode == Mode::ResumeLabel {
        items.push(alone("Recovered:"));
    }
    items.push(alone("ON ERROR GOTO 0"));
    // module level, part 2
    match place {
        Place::Module => {
            let n = nest(rng, 3);
            items.extend(body(rng, &mut uniq, n, second.clone(), true));
        }
        Place::OtherProc => {
            let n = nest(rng, 3);
            let call_b = Item { text: "B1 1".into(), alone: false, tag: Tag::Call(0) };
            items.extend(body(rng, &mut uniq, n, vec![call_b], true));
        }
        Place::SameProc => {
            items.push(filler(rng, &mut uniq));
        }
    }
    items.push(simple("END"));
    if mode != Mode::OnErrorResumeNext {
        items.push(alone("Handler:"));
        // the handler repairs the cause of the first error (needed by RESUME, harmless otherwise)
        items.push(simple("DZ = 1"));
        items.push(simple("HV& = 1"));
        items.push(simple("ES$ = \"A=B\""));
        items.push(alone(match mode {
            Mode::ResumeLabel => "RESUME Recovered",
            Mode::ResumeNext => "RESUME NEXT",
            _ => "RESUME",
        }));
    }
    // the first chain; its innermost procedure raises the first error
    let first_fault = simple(*rng.pick(&["Q = 1 / DZ", "HI% = HV&", "ENVIRON ES$", "Q% = 7 MOD DZ"]));
    for k in 1..=d1 {
        items.push(alone(format!("SUB A{} (N%)", k)));
        let payload: Vec<Item> = if k < d1 {
            vec![Item {
                text: format!("A{} {}", k + 1, k + 1),
                alone: false,
                tag: if place == Place::SameProc { Tag::Call(k) } else { Tag::None },
            }]
        } else {
            let mut v = vec![first_fault.clone()];
            if place == Place::SameProc {
                v.push(filler(rng, &mut uniq));
                // from here on errors are not handled any more
                v.push(alone("ON ERROR GOTO 0"));
                v.extend(second.clone());
            }
            v
        };
        let n = nest(rng, 3);
        items.extend(body(rng, &mut uniq, n, payload, true));
        items.push(alone("END SUB"));
    }
    if place == Place::OtherProc {
        for k in 1..=d2 {
            items.push(alone(format!("SUB B{} (N%)", k)));
            let payload: Vec<Item> = if k < d2 {
                vec![Item { text: format!("B{} {}", k + 1, k + 1), alone: false, tag: Tag::Call(k) }]
            } else {
                second.clone()
            };
            let n = nest(rng, 3);
            items.extend(body(rng, &mut uniq, n, payload, true));
            items.push(alone("END SUB"));
        }
    }
    let depth = match place {
        Place::Module => 0,
        Place::OtherProc => d2,
        Place::SameProc => d1,
    };
    Program { items, depth, nest_total, rec: vec![] }
}

struct Rendered {
    text: String,
    /// character offsets [start, end) of every item
    spans: Vec<(usize, usize)>,
    eol_style: &'static str,
}

fn open_string(t: &str) -> bool {
    t.matches('"').count() % 2 == 1
}

fn render(rng: &mut Rng, items: &[Item]) -> Rendered {
    let style = rng.below(4);
    let eol_style = ["LF", "CRLF", "CR", "mixed"][style as usize];
    let mut text: Vec<char> = vec![];
    let mut spans = vec![(0usize, 0usize); items.len()];
    let eol = |rng: &mut Rng, text: &mut Vec<char>| {
        let s = match style {
            0 => "\n",
            1 => "\r\n",
            2 => "\r",
            _ => *rng.pick(&["\n", "\r\n", "\r"]),
        };
        text.extend(s.chars());
    };
    let mut i = 0;
    while i < items.len() {
        // noise lines before
        if rng.chance(1, 4) {
            for _ in 0..1 + rng.below(2) {
                match rng.below(4) {
                    0 => text.extend("' a comment: with colon".chars()),
                    1 => text.extend("    ".chars()),
                    2 => text.extend("  ' remark".chars()),
                    _ => {}
                }
                eol(rng, &mut text);
            }
        }
        for _ in 0..rng.below(9) {
            text.push(' ');
        }
        // a run of simple statements joined by colons
        let mut n = 1;
        if !items[i].alone {
            while n < 3 && i + n < items.len() && !items[i + n].alone && !open_string(&items[i + n - 1].text) && rng.chance(1, 3) {
                // a single-line IF swallows what follows it on the line: keep it last
                if items[i + n - 1].text.starts_with("IF ") {
                    break;
                }
                n += 1;
            }
        }
        for j in 0..n {
            if j > 0 {
                text.extend((*rng.pick(&[": ", " : ", ":", ":  "])).chars());
            }
            let start = text.len();
            text.extend(items[i + j].text.chars());
            spans[i + j] = (start, text.len());
        }
        let last = &items[i + n - 1];
        if open_string(&last.text) {
            // an unterminated string literal runs to the end of the line: nothing may follow it
        } else if !last.alone && rng.chance(1, 6) && !last.text.contains('"') {
            text.extend("  ' note".chars());
        } else if rng.chance(1, 8) {
            text.extend("  ".chars());
        }
        i += n;
        if i < items.len() || rng.chance(3, 4) {
            eol(rng, &mut text);
        }
    }
    Rendered { text: text.into_iter().collect(), spans, eol_style }
}

fn positions_in_debug(s: &str) -> Vec<(u32, u32)> {
    let mut out = vec![];
    let mut rest = s;
    while let Some(k) = rest.find("Position { row: ") {
        rest = &rest[k + "Position { row: ".len()..];
        let row: String = rest.chars().take_while(|c| c.is_ascii_digit()).collect();
        if let Some(k2) = rest.find("col: ") {
            let r2 = &rest[k2 + 5..];
            let col: String = r2.chars().take_while(|c| c.is_ascii_digit()).collect();
            out.push((row.parse().unwrap_or(0), col.parse().unwrap_or(0)));
        }
    }
    out
}

enum Diag {
    Accepted,
    Parse((u32, u32), String),
    Lint((u32, u32), String),
    /// positions of the RuntimeErrorPos, error, (events before the failing instruction, fault sexp)
    Runtime(Vec<(u32, u32)>, String, Option<(String, String)>),
    Panic,
}

fn run(text: &str, observe: bool) -> Diag {
    let t = text.to_owned();
    let r = std::panic::catch_unwind(move || match compile(&t) {
        Err(FrontEndError::Parse(e)) => Diag::Parse((e.pos.row(), e.pos.col()), format!("{:?}", e.element)),
        Err(FrontEndError::Lint(e)) => Diag::Lint((e.pos.row(), e.pos.col()), format!("{:?}", e.element)),
        Ok((igr, udt)) => {
            // what the bookkeeping sees of each instruction
            // (event, kind): kind 1 = built-in (fails with the stacktrace's copy), 2 = RESUME label
            let evs: Vec<(String, u8)> = igr
                .instructions
                .iter()
                .map(|ip| {
                    let p = ip.pos;
                    match &ip.element {
                        Instruction::PushStack | Instruction::PushStaticStack(_) => (format!("(push {} {})", p.row(), p.col()), 0),
                        Instruction::PopStack => ("pop".to_owned(), 0),
                        Instruction::BuiltInSub(_) | Instruction::BuiltInFunction(_) => ("other".to_owned(), 1),
                        Instruction::ResumeLabel(_) => ("clear".to_owned(), 2),
                        _ => ("other".to_owned(), 0),
                    }
                })
                .collect();
            let trace: Rc<RefCell<Vec<(usize, u32, u32, Vec<(u32, u32)>)>>> = Rc::new(RefCell::new(vec![]));
            let trace2 = trace.clone();
            let observer = Box::new(move |s: &Snapshot| {
                let mut t = trace2.borrow_mut();
                if t.len() < 20_000 {
                    t.push((s.pc, s.row, s.col, s.stacktrace.clone()));
                }
            });
            let res = run_instructions(igr, udt, b"", 100_000, if observe { Some(observer) } else { None }, false);
            match res.result {
                Ok(()) => Diag::Accepted,
                Err(e) => {
                    let dbg = format!("{:?}", e);
                    let err = format!("{:?}", e.err());
                    let tail = dbg.strip_prefix(&format!("ErrorEnvelope({}, ", err)).unwrap_or(&dbg).to_owned();
                    let t = trace.borrow();
                    let model = if !t.is_empty() && t.len() < 20_000 {
                        let (pc, row, col, _) = &t[t.len() - 1];
                        // a built-in that is not followed by the next instruction failed and its error was
                        // handled: `abandon_failed_call` drops its stacktrace entry
                        let before: Vec<String> = (0..t.len() - 1)
                            .map(|j| {
                                let pc_j = t[j].0;
                                if evs[pc_j].1 == 1 && t[j + 1].0 != pc_j + 1 { "drop".to_owned() } else { evs[pc_j].0.clone() }
                            })
                            .collect();
                        let fault = if evs[*pc].1 == 1 { "builtin".to_owned() } else { format!("(instr {} {})", row, col) };
                        Some((sx::list(before), fault))
                    } else {
                        None
                    };
                    Diag::Runtime(positions_in_debug(&tail), err, model)
                }
            }
        }
    });
    r.unwrap_or(Diag::Panic)
}


/// What one worker thread collects (replayed into the report by `main`).
#[derive(Default)]
struct Out {
    cases: Vec<String>,
    bumps: Vec<String>,
    samples: Vec<String>,
    failures: Vec<Failure>,
    reqs: Vec<String>,
    expects: Vec<(String, String, String)>,
    base_rejected: usize,
}

impl Out {
    fn case(&mut self, c: Option<String>) {
        self.cases.push(c.unwrap_or_default());
    }
    fn bump(&mut self, k: &str) {
        self.bumps.push(k.to_owned());
    }
    fn sample(&mut self, j: J) {
        if let J::Str(s) = j {
            self.samples.push(s);
        }
    }
    fn fail(&mut self, f: Failure) {
        // keep memory bounded: the report keeps a few per signature anyway
        if self.failures.iter().filter(|g| g.signature == f.signature).count() < 3 {
            self.failures.push(f);
        } else {
            self.bumps.push(format!("failures-dropped.{}", f.signature));
        }
    }
}

fn run_cases(seed: u64, cases: Vec<usize>) -> Out {
    let mut out = Out::default();
    for case in cases {
        let kind = KINDS[case % KINDS.len()];
        let depth = (case / KINDS.len()) % 5;
        // same structure with and without the fault: generate twice from the same generator state
        let mut rng = Rng(seed.wrapping_add((case as u64 + 1).wrapping_mul(0x9E37_79B9_7F4A_7C15)));
        rng.next_u64();
        let mut g1 = rng.clone();
        let mut g2 = rng.clone();
        rng.next_u64();
        // every third case has a history: a first, handled error inside nested procedures, then the fault
        let history: Option<(Mode, Place, usize, usize)> = if case % 3 == 2 {
            let h = case / 3;
            let mode = MODES[h % MODES.len()];
            let place = match (h / MODES.len()) % 3 {
                0 => Place::Module,
                1 => Place::OtherProc,
                _ => if mode == Mode::ResumeLabel { Place::OtherProc } else { Place::SameProc },
            };
            Some((mode, place, 1 + (h / 12) % 3, 1 + (h / 36) % 3))
        } else {
            None
        };
        // the checked fault of a history case is a run-time fault
        let kind = match history {
            Some(_) if !kind.is_runtime() => [FaultKind::DivZero, FaultKind::Subscript, FaultKind::Overflow, FaultKind::BuiltIn][(case / 3) % 4],
            _ => kind,
        };
        let sig = match history {
            Some((m, p, ..)) => format!("history({},{}):", m.name(), p.name()),
            None => String::new(),
        };
        let (faulty, base) = match history {
            Some((mode, place, d1, d2)) => (
                history_program(&mut g1, kind, true, d1, d2, mode, place),
                history_program(&mut g2, kind, false, d1, d2, mode, place),
            ),
            None => (program(&mut g1, kind, true, depth), program(&mut g2, kind, false, depth)),
        };
        let mut l1 = Rng(rng.next_u64());
        let mut l2 = l1.clone();
        let rf = render(&mut l1, &faulty.items);
        let rb = render(&mut l2, &base.items);

        // the fault-free program must be accepted and run to its end
        match run(&rb.text, false) {
            Diag::Accepted => {}
            other => {
                out.base_rejected += 1;
                let what = match other {
                    Diag::Parse(p, e) => format!("parse error {} at {:?}", e, p),
                    Diag::Lint(p, e) => format!("lint error {} at {:?}", e, p),
                    Diag::Runtime(p, e, _) => format!("runtime error {} at {:?}", e, p),
                    _ => "panic".to_owned(),
                };
                out.fail(Failure {
                    kind: Kind::ImplVsProperty,
                    signature: format!("{}base-program-not-accepted:{}", sig, rb.eol_style),
                    input: rb.text.clone(),
                    implementation: what,
                    expected: "accepted and run without error".into(),
                    note: "the generator's fault-free program was not accepted (layout or generator problem)".into(),
                });
                continue;
            }
        }

        let chars: Vec<char> = rf.text.chars().collect();
        let (pos, _) = rowcol::human_positions(&chars);
        let fi = faulty.items.iter().position(|it| it.tag == Tag::Fault).expect("fault item");
        let (fs, fe) = rf.spans[fi];
        let (frow, fc0) = pos[fs];
        let (frow_end, fc1) = pos[fe - 1];
        assert_eq!(frow, frow_end);
        // call sites, innermost first
        let mut call_rows: Vec<u32> = vec![];
        for level in (0..faulty.depth).rev() {
            // the activations of a recursive callee entered through its own call site come first
            let r = faulty.rec.get(level).copied().unwrap_or(0);
            if r > 0 {
                let ri = faulty.items.iter().position(|it| it.tag == Tag::Rec(level + 1)).expect("recursive call item");
                for _ in 0..r {
                    call_rows.push(pos[rf.spans[ri].0].0);
                }
                out.bump(&format!("recursion.depth-{}", r));
            }
            let ci = faulty.items.iter().position(|it| it.tag == Tag::Call(level)).expect("call item");
            call_rows.push(pos[rf.spans[ci].0].0);
        }
        // the oracle's row/col function is the proved one: cross-check the Rust reference with the driver
        out.reqs.push(format!("(rowcol.position {} {})", sx::chars(&rf.text), fs));
        out.expects.push((format!("({} {})", frow, fc0), "model:position(statement start)".into(), rf.text.clone()));
        out.reqs.push(format!("(rowcol.human {} {})", sx::chars(&rf.text), fe - 1));
        out.expects.push((format!("({} {})", frow, fc1), "model:human(statement end)".into(), rf.text.clone()));

        let stmt = &faulty.items[fi].text;
        if let Some((m, p, d1, _)) = history {
            out.bump(&format!("history.mode.{}", m.name()));
            out.bump(&format!("history.second-fault.{}", p.name()));
            out.bump(&format!("history.first-chain-depth.{}", d1));
        } else {
            out.bump("history.none");
        }
        out.case(Some(format!(
            "{}{}|d{}|n{}|{}|{}|r{}",
            sig,
            kind.name(),
            faulty.depth,
            faulty.nest_total,
            rf.eol_style,
            stmt,
            frow
        )));
        out.bump(&format!("fault.{}", kind.name()));
        out.bump(&format!("call-depth.{}", faulty.depth));
        out.bump(&format!("nesting.{}", faulty.nest_total));
        out.bump(&format!("eol.{}", rf.eol_style));
        out.bump(if frow <= 10 { "fault-row.1-10" } else if frow <= 30 { "fault-row.11-30" } else { "fault-row.31+" });
        if case < 3 {
            out.sample(J::s(format!("[{} depth {}] {}", kind.name(), faulty.depth, rf.text)));
        }

        let describe = |stage: &str, p: (u32, u32), e: &str| format!("{} error {} at ({}, {})", stage, e, p.0, p.1);
        let expected = format!(
            "row {} and a column in {}..={} (statement {:?}){}",
            frow,
            fc0,
            fc1 + if kind == FaultKind::Syntax && is_truncation(stmt) {
                1 + chars[fe..].iter().take_while(|c| **c == ' ').count() as u32
            } else {
                0
            },
            stmt,
            if kind.is_runtime() { format!(", then call-site rows {:?}", call_rows) } else { String::new() }
        );
        // a statement cut short: the missing token is expected after the blanks that follow the statement
        let blanks_after = chars[fe..].iter().take_while(|c| **c == ' ').count() as u32;
        let slack = if kind == FaultKind::Syntax && is_truncation(stmt) { 1 + blanks_after } else { 0 };
        if slack >= 1 {
            out.bump("syntax.truncated-statement(column up to where the missing token was expected)");
        }
        let check_pos = |out: &mut Out, stage: &str, p: (u32, u32), e: &str| {
            if p.0 != frow {
                out.fail(Failure {
                    kind: Kind::ImplVsProperty,
                    signature: format!("{}{}:{}:wrong-row", sig, kind.name(), stage),
                    input: rf.text.clone(),
                    implementation: describe(stage, p, e),
                    expected: expected.clone(),
                    note: "the diagnostic must carry the row of the offending statement".into(),
                });
            } else if p.1 < fc0 || p.1 > fc1 + slack {
                out.fail(Failure {
                    kind: Kind::ImplVsProperty,
                    signature: if p.1 == fc1 + slack + 1 {
                        // exactly one column past the statement's last character
                        format!("{}{}:{}:column-one-past-statement", sig, kind.name(), stage)
                    } else {
                        format!("{}{}:{}:column-outside-statement", sig, kind.name(), stage)
                    },
                    input: rf.text.clone(),
                    implementation: describe(stage, p, e),
                    expected: expected.clone(),
                    note: "the diagnostic must carry a column inside the offending statement's text".into(),
                });
            }
        };
        match run(&rf.text, kind.is_runtime()) {
            Diag::Accepted => out.fail(Failure {
                kind: Kind::ImplVsProperty,
                signature: format!("{}{}:no-diagnostic", sig, kind.name()),
                input: rf.text.clone(),
                implementation: "program ran to its end without any error".into(),
                expected: expected.clone(),
                note: "the injected fault was not reported at all".into(),
            }),
            Diag::Panic => out.fail(Failure {
                kind: Kind::ImplVsProperty,
                signature: format!("{}{}:panic", sig, kind.name()),
                input: rf.text.clone(),
                implementation: "panic".into(),
                expected: expected.clone(),
                note: "panic instead of a diagnostic".into(),
            }),
            Diag::Parse(p, e) => {
                out.bump("stage.parse");
                check_pos(&mut out, "parse", p, &e)
            }
            Diag::Lint(p, e) => {
                out.bump("stage.lint");
                check_pos(&mut out, "lint", p, &e)
            }
            Diag::Runtime(ps, e, model) => {
                out.bump("stage.runtime");
                if ps.is_empty() {
                    out.fail(Failure {
                        kind: Kind::ImplVsProperty,
                        signature: format!("{}{}:runtime:no-position", sig, kind.name()),
                        input: rf.text.clone(),
                        implementation: format!("runtime error {} without positions", e),
                        expected: expected.clone(),
                        note: "RuntimeErrorPos carries no position".into(),
                    });
                    continue;
                }
                check_pos(&mut out, "runtime", ps[0], &e);
                let got_rows: Vec<u32> = ps[1..].iter().map(|p| p.0).collect();
                if got_rows != call_rows {
                    out.fail(Failure {
                        kind: Kind::ImplVsProperty,
                        signature: format!("{}{}:runtime:call-sites", sig, kind.name()),
                        input: rf.text.clone(),
                        implementation: format!("runtime error {} positions {:?}", e, ps),
                        expected: expected.clone(),
                        note: "after the error position: rows of the active call sites, innermost first, ending in the main module".into(),
                    });
                }
                if let Some((events, fault)) = model {
                    out.reqs.push(format!("(rowcol.reported {} {})", events, fault));
                    out.expects.push((
                        sx::list(ps.iter().map(|(r, c)| format!("({} {})", r, c))),
                        "model:reported".into(),
                        rf.text.clone(),
                    ));
                }
            }
        }
        }
    out
}

fn main() {
    std::panic::set_hook(Box::new(|_| {}));
    let mut rng = Rng::from_env();
    let mut rep = Report::new(
        "C11",
        "accepted generated programs (procedure call depth 0..4, block nesting 0..5 per body, random indentation, blank \
         lines, comment lines, trailing comments, colon-joined statements, LF / CRLF / CR / mixed endings) x one injected \
         fault of 8 kinds (syntax, type mismatch, undefined label, argument count, division by zero, subscript out of \
         range, overflow, failing built-in) at the innermost level; expectation: the statement's row and a column inside \
         the statement's text (for syntax faults that cut a statement short: up to the column where the missing token was \
         expected, i.e. past the blanks that follow the statement); for run-time errors the remaining positions are the \
         rows of the active call sites, innermost first; class = (fault kind, call depth, nesting, line ending, \
         fault statement, row). The fault-free base program of every case must be accepted and run (trivial cases: none). \
         Row/col table: all texts of length <= 6 over {a, CR, LF} (class = text).",
    );
    let thorough = rep.is_thorough();

    // the table itself (the oracle's foundation): exhaustive part + random
    let small = rowcol::texts_up_to(&['a', '\r', '\n'], 6);
    rowcol::compare_tables(&mut rep, &small, "exhaustive<=6");
    rep.exhaustive_parts.push(format!(
        "create_row_col_view and StringView::position at every index: all {} texts of length <= 6 over {{a, CR, LF}}",
        small.len()
    ));
    let long: Vec<String> = (0..if thorough { 1000 } else { 100 }).map(|_| rowcol::random_text(&mut rng, 1500)).collect();
    rowcol::compare_tables(&mut rep, &long, "random-long");

    let n_cases = if thorough { 16_000 } else { 960 };
    let threads = std::thread::available_parallelism().map(|n| n.get()).unwrap_or(4).clamp(2, 8);
    let seed = rng.next_u64();
    let mut handles = vec![];
    for t in 0..threads {
        let cases: Vec<usize> = (0..n_cases).filter(|c| c % threads == t).collect();
        handles.push(std::thread::Builder::new().stack_size(64 << 20).spawn(move || run_cases(seed, cases)).expect("spawn"));
    }
    let mut driver_reqs: Vec<String> = vec![];
    let mut driver_expect: Vec<(String, String, String)> = vec![];
    let mut base_rejected = 0;
    let t_cases = std::time::Instant::now();
    for h in handles {
        let out = h.join().expect("case thread");
        for c in out.cases {
            rep.case(if c.is_empty() { None } else { Some(c) });
        }
        for b in out.bumps {
            rep.bump(&b);
        }
        for s in out.samples {
            rep.sample(J::s(s));
        }
        for f in out.failures {
            rep.fail(f);
        }
        driver_reqs.extend(out.reqs);
        driver_expect.extend(out.expects);
        base_rejected += out.base_rejected;
    }
    if base_rejected > 0 {
        rep.notes.push(format!("{} fault-free base programs were not accepted", base_rejected));
    }
    let t_driver = std::time::Instant::now();
    let answers = ask(&driver_reqs);
    rep.notes.push(format!(
        "{} cases on {} threads in {:.1} s; {} driver requests in {:.1} s",
        n_cases,
        threads,
        t_driver.duration_since(t_cases).as_secs_f64(),
        driver_reqs.len(),
        t_driver.elapsed().as_secs_f64()
    ));
    for (k, a) in answers.iter().enumerate() {
        let (want, sig, input) = &driver_expect[k];
        if a != want {
            rep.fail(Failure {
                kind: Kind::ModelVsImpl,
                signature: sig.clone(),
                input: format!("{} [program: {:?}]", driver_reqs[k].chars().take(300).collect::<String>(), input),
                implementation: want.clone(),
                expected: a.clone(),
                note: "Lean model (RbModel.RowCol) vs harness reference / real VM bookkeeping".into(),
            });
        }
    }
    rep.finish();
}
