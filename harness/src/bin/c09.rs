//! C09 — letter case, spacing, comments and line endings never change a program's meaning.
//!
//! (a) direct correspondence: `cmp_str`, `hash_str`, `CaseInsensitiveString` (Eq/Hash), `Keyword::try_from`,
//!     `any_token()` and `char_to_alphabet_index` (through `TypeResolverImpl`) against the Lean model
//!     `RbModel.Lex` and against the property itself (reference implementations written here);
//! (b) the metamorphic part on the implementation: corpus programs x layout transformations, comparing the
//!     parse tree with positions erased, the lint verdict and the run-time behaviour.

use std::collections::BTreeSet;
use std::hash::{Hash, Hasher};
use std::panic::{AssertUnwindSafe, catch_unwind};

use rb_harness::driver::ask;
use rb_harness::json::J;
use rb_harness::report::{Failure, Kind, Report};
use rb_harness::rng::Rng;
use rb_harness::sx;
use rusty_basic::interpreter::verif::run_in_memory;
use rusty_common::{CaseInsensitiveString, cmp_str, hash_str};
use rusty_linter::core::{TypeResolver, TypeResolverImpl};
use rusty_parser::tokens::{TokenType, any_token};
use rusty_parser::verif::create_string_tokenizer;
use rusty_parser::{DefType, Keyword, LetterRange, TypeQualifier};
use rusty_pc::{InputTrait, Parser, ParserErrorTrait};

// =================================================================================================
// (a) direct correspondence
// =================================================================================================

/// Records the bytes a `Hash` implementation feeds to the hasher.
#[derive(Default)]
struct Rec(Vec<u8>);
impl Hasher for Rec {
    fn finish(&self) -> u64 {
        0
    }
    fn write(&mut self, bytes: &[u8]) {
        self.0.extend_from_slice(bytes);
    }
}

fn ord_name(o: std::cmp::Ordering) -> &'static str {
    match o {
        std::cmp::Ordering::Less => "lt",
        std::cmp::Ordering::Equal => "eq",
        std::cmp::Ordering::Greater => "gt",
    }
}

fn fold(s: &str) -> Vec<u8> {
    s.bytes().map(|b| b.to_ascii_uppercase()).collect()
}

fn default_hash<T: Hash>(t: &T) -> u64 {
    let mut h = std::collections::hash_map::DefaultHasher::new();
    t.hash(&mut h);
    h.finish()
}

fn check_common(rep: &mut Report, rng: &mut Rng) {
    // letters of both cases, the neighbours of the letter ranges, a digit, a non-ASCII character
    let alphabet: Vec<&str> = vec!["A", "a", "B", "b", "Z", "z", "[", "@", "`", "{", "0"];
    let mut strings: Vec<String> = vec![String::new()];
    for a in &alphabet {
        strings.push(a.to_string());
        for b in &alphabet {
            strings.push(format!("{}{}", a, b));
        }
    }
    let n_exhaustive = strings.len();
    let mut pairs: Vec<(String, String)> = vec![];
    for a in &strings {
        for b in &strings {
            pairs.push((a.clone(), b.clone()));
        }
    }
    rep.exhaustive_parts.push(format!(
        "cmp_str / hash_str / CaseInsensitiveString Eq+Hash over all {} ordered pairs of the {} strings of length <= 2 over {:?}",
        pairs.len(),
        n_exhaustive,
        alphabet
    ));
    // random longer strings, some being case variants of each other, some with non-ASCII characters
    let pool: Vec<char> = "AaBbYyZz[@`{09_ .$é".chars().collect();
    let n_random = if rep.is_thorough() { 200_000 } else { 20_000 };
    for _ in 0..n_random {
        let len = rng.range(0, 9) as usize;
        let a: String = (0..len).map(|_| *rng.pick(&pool)).collect();
        let b: String = match rng.below(4) {
            0 => a.to_ascii_lowercase(),
            1 => a.chars().map(|c| if rng.chance(1, 2) { c.to_ascii_uppercase() } else { c.to_ascii_lowercase() }).collect(),
            2 => {
                let mut b: Vec<char> = a.chars().collect();
                if !b.is_empty() {
                    let i = rng.below(b.len() as u64) as usize;
                    b[i] = *rng.pick(&pool);
                }
                b.into_iter().collect()
            }
            _ => {
                let len = rng.range(0, 9) as usize;
                (0..len).map(|_| *rng.pick(&pool)).collect()
            }
        };
        pairs.push((a, b));
    }
    let mut reqs: Vec<String> = Vec::with_capacity(pairs.len() * 2);
    for (a, b) in &pairs {
        reqs.push(format!("(lex.cmp {} {})", sx::bytes(a.as_bytes()), sx::bytes(b.as_bytes())));
        reqs.push(format!("(lex.hash {})", sx::bytes(a.as_bytes())));
    }
    let answers = ask(&reqs);
    for (k, (a, b)) in pairs.iter().enumerate() {
        rep.case(if a.is_empty() && b.is_empty() { None } else { Some(format!("c{:?}/{:?}", a, b)) });
        let fa = fold(a);
        let fb = fold(b);
        rep.bump(if fa == fb {
            if a == b { "common.identical" } else { "common.case-variants" }
        } else {
            "common.different"
        });
        let input = format!("cmp_str({:?}, {:?})", a, b);
        let got = catch_unwind(|| cmp_str(a, b)).map(ord_name).unwrap_or("panic");
        // property: the order of the case-folded byte strings (shorter prefix first)
        let spec = ord_name(fa.cmp(&fb));
        if got != spec {
            rep.fail(Failure {
                kind: Kind::ImplVsProperty,
                signature: "cmp_str".into(),
                input: input.clone(),
                implementation: got.into(),
                expected: spec.into(),
                note: "cmp_str must order strings by their ASCII-upper-cased bytes".into(),
            });
        }
        if answers[2 * k] != got {
            rep.fail(Failure {
                kind: Kind::ModelVsImpl,
                signature: "model:cmpStr".into(),
                input: input.clone(),
                implementation: got.into(),
                expected: answers[2 * k].clone(),
                note: "RbModel.Lex.cmpStr".into(),
            });
        }
        // hash stream
        let mut ra = Rec::default();
        hash_str(a, &mut ra);
        let mut rb = Rec::default();
        hash_str(b, &mut rb);
        if ra.0 != fa {
            rep.fail(Failure {
                kind: Kind::ImplVsProperty,
                signature: "hash_str".into(),
                input: format!("hash_str({:?})", a),
                implementation: format!("{:?}", ra.0),
                expected: format!("{:?}", fa),
                note: "hash_str must feed exactly the upper-cased bytes".into(),
            });
        }
        let m_hash = sx::bytes(&ra.0);
        if answers[2 * k + 1] != m_hash {
            rep.fail(Failure {
                kind: Kind::ModelVsImpl,
                signature: "model:hashStr".into(),
                input: format!("hash_str({:?})", a),
                implementation: m_hash,
                expected: answers[2 * k + 1].clone(),
                note: "RbModel.Lex.hashStr".into(),
            });
        }
        // CaseInsensitiveString: Eq identifies exactly the case variants, Hash agrees with Eq
        let ca = CaseInsensitiveString::from(a.as_str());
        let cb = CaseInsensitiveString::from(b.as_str());
        let eq = ca == cb;
        if eq != (fa == fb) {
            rep.fail(Failure {
                kind: Kind::ImplVsProperty,
                signature: "CaseInsensitiveString:eq".into(),
                input: format!("{:?} == {:?}", a, b),
                implementation: eq.to_string(),
                expected: (fa == fb).to_string(),
                note: "Eq must hold exactly for case variants".into(),
            });
        }
        let mut ha = Rec::default();
        ca.hash(&mut ha);
        let mut hb = Rec::default();
        cb.hash(&mut hb);
        if eq && (ha.0 != hb.0 || default_hash(&ca) != default_hash(&cb)) {
            rep.fail(Failure {
                kind: Kind::ImplVsProperty,
                signature: "CaseInsensitiveString:hash".into(),
                input: format!("hash({:?}) vs hash({:?})", a, b),
                implementation: format!("{:?} / {:?}", ha.0, hb.0),
                expected: "equal values must hash alike".into(),
                note: "Hash must be consistent with Eq".into(),
            });
        }
        if ha.0 != ra.0 {
            rep.fail(Failure {
                kind: Kind::ImplVsProperty,
                signature: "CaseInsensitiveString:hash".into(),
                input: format!("hash({:?})", a),
                implementation: format!("{:?}", ha.0),
                expected: format!("{:?}", ra.0),
                note: "CaseInsensitiveString::hash must be hash_str of its text".into(),
            });
        }
    }
    rep.sample(J::s(format!("{} -> {}", reqs[2 * 40], answers[2 * 40])));
}

fn token_kind_name(t: TokenType) -> &'static str {
    match t {
        TokenType::Eol => "eol",
        TokenType::Whitespace => "ws",
        TokenType::Digits => "digits",
        TokenType::GreaterEquals => "ge",
        TokenType::Greater => "gt",
        TokenType::LessEquals => "le",
        TokenType::Less => "lt",
        TokenType::Equals => "eq",
        TokenType::NotEquals => "ne",
        TokenType::Keyword => "keyword",
        TokenType::Identifier => "ident",
        TokenType::OctDigits => "oct",
        TokenType::HexDigits => "hex",
        TokenType::Symbol => "symbol",
    }
}

/// The real tokenizer: repeated `any_token()` until the end of input. `(kind, number of characters)`.
fn real_tokens(text: &str) -> Vec<(String, usize)> {
    let r = catch_unwind(AssertUnwindSafe(|| {
        let mut input = create_string_tokenizer(text.to_owned());
        let mut parser = any_token();
        let mut out: Vec<(String, usize)> = vec![];
        loop {
            if input.is_eof() {
                break;
            }
            match parser.parse(&mut input) {
                Ok(tok) => {
                    out.push((token_kind_name(TokenType::from_token(&tok)).to_owned(), tok.as_str().chars().count()));
                }
                Err(e) => {
                    if e.is_soft() {
                        out.push(("soft-error".to_owned(), 0));
                    } else if format!("{:?}", e).contains("IdentifierTooLong") {
                        out.push(("errTooLong".to_owned(), 0));
                    } else {
                        out.push((format!("error:{:?}", e), 0));
                    }
                    break;
                }
            }
            if out.len() > 10_000 {
                break;
            }
        }
        out
    }));
    r.unwrap_or_else(|_| vec![("panic".to_owned(), 0)])
}

fn tokens_sexp(toks: &[(String, usize)]) -> String {
    sx::list(toks.iter().map(|(k, n)| format!("({} {})", k, n)))
}

fn check_tokenizer(rep: &mut Report, rng: &mut Rng) {
    let mut texts: Vec<String> = vec![];
    // exhaustive short strings over a class-covering alphabet
    let alpha: Vec<char> = "Pp9 \t\r\n&HhOo-<>=.$\"':%é".chars().collect();
    for a in &alpha {
        texts.push(a.to_string());
        for b in &alpha {
            texts.push(format!("{}{}", a, b));
            for c in &alpha {
                texts.push(format!("{}{}{}", a, b, c));
            }
        }
    }
    rep.exhaustive_parts.push(format!(
        "any_token() vs RbModel.Lex.lex over all {} strings of length 1..3 over {:?}",
        texts.len(),
        alpha.iter().collect::<String>()
    ));
    // random strings made of lexically interesting pieces
    let pieces: Vec<&str> = vec![
        "PRINT", "print", "PrInT", "DIM", "dim", "IF", "then", "ELSE", "ElseIf", "GoSub", "STRING", "string$", "DIM.", "dim9",
        "x", "Ab1", "a.b", "N%", "&H", "&h", "&O", "&o", "&H-", "1F", "ff", "17", "8", "0", "-", " ", "  ", "\t", " \t ", "\r\n",
        "\n", "\r", "\r\r\n", "<", ">", "=", "<>", "<=", ">=", "=<", ".", "$", "#", "!", "\"", "'", ":", ",", ";", "(", ")", "é", "_",
        "abcdefghijklmnopqrstuvwxyzabcdefghijklmn", "abcdefghijklmnopqrstuvwxyzabcdefghijklmno", "A1234567890123456789012345678901234567890",
    ];
    let n_random = if rep.is_thorough() { 200_000 } else { 12_000 };
    for _ in 0..n_random {
        let n = rng.range(1, 7);
        let mut s = String::new();
        for _ in 0..n {
            let p: &&str = rng.pick(&pieces[..]);
            s.push_str(p);
        }
        texts.push(s);
    }
    // every keyword in three spellings, followed by each kind of neighbour
    let kws = keyword_names();
    for k in &kws {
        for sp in [k.to_ascii_uppercase(), k.to_ascii_lowercase(), k.clone()] {
            for after in ["", " ", "$", ".", "1", "x", "(", "\n", "%"] {
                texts.push(format!("{}{}", sp, after));
            }
        }
    }
    let reqs: Vec<String> = texts.iter().map(|t| format!("(lex.tokens {})", sx::chars(t))).collect();
    let answers = ask(&reqs);
    for (k, t) in texts.iter().enumerate() {
        rep.case(Some(format!("t{:?}", t)));
        let real = real_tokens(t);
        for (kind, _) in &real {
            rep.bump(&format!("token.{}", kind.split(':').next().unwrap_or("?")));
        }
        let real_s = tokens_sexp(&real);
        if real_s != answers[k] {
            rep.fail(Failure {
                kind: Kind::ModelVsImpl,
                signature: "model:lex".into(),
                input: format!("tokens of {:?}", t),
                implementation: real_s.clone(),
                expected: answers[k].clone(),
                note: "RbModel.Lex.lex vs repeated any_token()".into(),
            });
        }
        // the property on the implementation: the tokenizer is blind to letter case
        for (name, variant) in [("upper", t.to_ascii_uppercase()), ("lower", t.to_ascii_lowercase())] {
            let v = real_tokens(&variant);
            if v != real {
                rep.fail(Failure {
                    kind: Kind::ImplVsProperty,
                    signature: "tokenizer:case".into(),
                    input: format!("tokens of {:?} vs its {}-case copy {:?}", t, name, variant),
                    implementation: tokens_sexp(&v),
                    expected: real_s.clone(),
                    note: "token boundaries and kinds must not depend on letter case".into(),
                });
            }
        }
        // the property on the implementation: each EOL spelling is one token, a blank run is one token
        if t.chars().all(|c| c == ' ' || c == '\t') && real != vec![("ws".to_owned(), t.chars().count())] {
            rep.fail(Failure {
                kind: Kind::ImplVsProperty,
                signature: "tokenizer:blank-run".into(),
                input: format!("tokens of {:?}", t),
                implementation: real_s.clone(),
                expected: format!("((ws {}))", t.chars().count()),
                note: "a run of blanks/tabs is one Whitespace token".into(),
            });
        }
    }
    // the property on the implementation: the tokenizer splits at blank / end-of-line boundaries (theorem lex_append)
    let n_split = if rep.is_thorough() { 40_000 } else { 4_000 };
    let mut n_split_done = 0u64;
    for _ in 0..n_split {
        let pre = texts[rng.below(texts.len() as u64) as usize].clone();
        let suf_tail = texts[rng.below(texts.len() as u64) as usize].clone();
        let b = *rng.pick(&['\r', '\n', ' ', '\t']);
        let suf = format!("{}{}", b, suf_tail);
        let last = pre.chars().last();
        let merges = match last {
            Some(l) => ((l == ' ' || l == '\t') && (b == ' ' || b == '\t')) || (l == '\r' && b == '\n'),
            None => false,
        };
        let tp = real_tokens(&pre);
        if merges || tp.iter().any(|(k, _)| k != "eol" && k != "ws" && k.len() > 7 && k != "keyword") {
            continue; // errTooLong / error in pre, or the excluded merging boundary
        }
        n_split_done += 1;
        rep.case(Some(format!("a{:?}|{:?}", pre, suf)));
        let whole = real_tokens(&format!("{}{}", pre, suf));
        let mut parts = tp.clone();
        parts.extend(real_tokens(&suf));
        if whole != parts {
            rep.fail(Failure {
                kind: Kind::ImplVsProperty,
                signature: "tokenizer:append".into(),
                input: format!("tokens of {:?} ++ {:?}", pre, suf),
                implementation: tokens_sexp(&whole),
                expected: tokens_sexp(&parts),
                note: "at a blank / end-of-line boundary the tokens of the whole are the tokens of the parts".into(),
            });
        }
    }
    rep.bump_by("token.append-splits", n_split_done);
    for (t, want) in [("\r\n", "((eol 2))"), ("\r", "((eol 1))"), ("\n", "((eol 1))"), ("\n\r", "((eol 1) (eol 1))"), ("\r\r\n", "((eol 1) (eol 2))")] {
        let real_s = tokens_sexp(&real_tokens(t));
        rep.case(Some(format!("eol{:?}", t)));
        if real_s != want {
            rep.fail(Failure {
                kind: Kind::ImplVsProperty,
                signature: "tokenizer:eol".into(),
                input: format!("tokens of {:?}", t),
                implementation: real_s,
                expected: want.into(),
                note: "CR LF, lone CR and lone LF are one Eol token each".into(),
            });
        }
    }
    rep.sample(J::s(format!("{} -> {}", reqs[reqs.len() - 5], answers[answers.len() - 5])));
}

/// The keyword names, read back through the public API from the extracted table's source of truth
/// (`Keyword::as_str` of every keyword that `try_from` finds for the names in keyword.rs).
fn keyword_names() -> Vec<String> {
    let src = std::fs::read_to_string("/repo/rusty_parser/src/core/keyword.rs").unwrap_or_default();
    let mut names = vec![];
    if let Some(start) = src.find("keyword_enum!(pub enum Keyword") {
        for line in src[start..].lines().skip(1) {
            let l = line.trim();
            if l.starts_with("});") {
                break;
            }
            let n = l.trim_end_matches(',');
            if !n.is_empty() && n.chars().all(|c| c.is_ascii_alphabetic()) {
                if let Ok(k) = Keyword::try_from(n) {
                    names.push(k.as_str().to_owned());
                }
            }
        }
    }
    names
}

fn check_keywords(rep: &mut Report, rng: &mut Rng) {
    let names = keyword_names();
    let mut words: Vec<String> = vec![];
    for n in &names {
        words.push(n.clone());
        words.push(n.to_ascii_uppercase());
        words.push(n.to_ascii_lowercase());
        for _ in 0..3 {
            words.push(n.chars().map(|c| if rng.chance(1, 2) { c.to_ascii_uppercase() } else { c.to_ascii_lowercase() }).collect());
        }
        words.push(format!("{}S", n));
        words.push(n[..n.len() - 1].to_owned());
        words.push(format!("{}@", n));
        words.push(format!("{}`", &n[..n.len() - 1]));
    }
    words.extend(["", "A", "ZZZZ", "[", "{", "a", "Élan", "PRINT ", "print1"].iter().map(|s| s.to_string()));
    let reqs: Vec<String> = words.iter().map(|w| format!("(lex.kw {})", sx::bytes(w.as_bytes()))).collect();
    let answers = ask(&reqs);
    rep.exhaustive_parts.push(format!(
        "Keyword::try_from over all {} keywords in upper, lower, table and random case, plus near misses",
        names.len()
    ));
    for (k, w) in words.iter().enumerate() {
        rep.case(Some(format!("k{:?}", w)));
        let real = catch_unwind(|| Keyword::try_from(w.as_str()).ok().map(|k| k as usize));
        let real_s = match real {
            Ok(Some(i)) => i.to_string(),
            Ok(None) => "none".to_owned(),
            Err(_) => "panic".to_owned(),
        };
        rep.bump(if real_s == "none" { "keyword.miss" } else { "keyword.hit" });
        // property: found iff some table entry equals the word up to ASCII case (and then it is that entry)
        let spec = names
            .iter()
            .position(|n| n.eq_ignore_ascii_case(w))
            .map(|i| i.to_string())
            .unwrap_or("none".to_owned());
        if real_s != spec {
            rep.fail(Failure {
                kind: Kind::ImplVsProperty,
                signature: "Keyword::try_from".into(),
                input: format!("Keyword::try_from({:?})", w),
                implementation: real_s.clone(),
                expected: spec,
                note: "keyword lookup must be exactly case-insensitive table membership".into(),
            });
        }
        if real_s != answers[k] {
            rep.fail(Failure {
                kind: Kind::ModelVsImpl,
                signature: "model:kwLookup".into(),
                input: format!("Keyword::try_from({:?})", w),
                implementation: real_s,
                expected: answers[k].clone(),
                note: "RbModel.Lex.kwLookup (binary search over the extracted table)".into(),
            });
        }
    }
}

fn check_deftype(rep: &mut Report) {
    let reqs: Vec<String> = (0u32..128).map(|c| format!("(lex.alpha {})", c)).collect();
    let answers = ask(&reqs);
    rep.exhaustive_parts.push("char_to_alphabet_index (through TypeResolverImpl::set/char_to_qualifier) over all 128 ASCII characters".into());
    for c in 0u32..128 {
        let ch = char::from_u32(c).unwrap();
        rep.case(Some(format!("d{}", c)));
        rep.bump(if ch.is_ascii_alphabetic() { "deftype.letter" } else { "deftype.non-letter" });
        let real = catch_unwind(|| {
            let mut r = TypeResolverImpl::new();
            r.set(&DefType::new(TypeQualifier::DollarString, vec![LetterRange::Single(ch)]));
            let hit: Vec<usize> = (0..26usize)
                .filter(|i| r.char_to_qualifier((b'A' + *i as u8) as char) == TypeQualifier::DollarString)
                .collect();
            // the lower-case query letter must see the same table
            let hit_lower: Vec<usize> = (0..26usize)
                .filter(|i| r.char_to_qualifier((b'a' + *i as u8) as char) == TypeQualifier::DollarString)
                .collect();
            (hit, hit_lower)
        });
        let real_s = match &real {
            Ok((h, hl)) if h.len() == 1 && h == hl => h[0].to_string(),
            Ok((h, hl)) => format!("{:?}/{:?}", h, hl),
            Err(_) => "none".to_owned(),
        };
        let spec = if ch.is_ascii_alphabetic() { ((ch.to_ascii_uppercase() as u8) - b'A').to_string() } else { "none".to_owned() };
        if real_s != spec {
            rep.fail(Failure {
                kind: Kind::ImplVsProperty,
                signature: "char_to_alphabet_index".into(),
                input: format!("DEFSTR {:?}", ch),
                implementation: real_s.clone(),
                expected: spec,
                note: "DEFtype letters of either case select the same slot".into(),
            });
        }
        if real_s != answers[c as usize] {
            rep.fail(Failure {
                kind: Kind::ModelVsImpl,
                signature: "model:charToAlphabetIndex".into(),
                input: format!("DEFSTR {:?}", ch),
                implementation: real_s,
                expected: answers[c as usize].clone(),
                note: "RbModel.Lex.charToAlphabetIndex".into(),
            });
        }
    }
}

/// FIELD / LSET / GET / PUT with the variable names spelled in different case: same behaviour as with one spelling.
fn check_field_case(rep: &mut Report) {
    let program = |f1: &str, f2: &str, l1: &str, l2: &str, p1: &str, p2: &str| {
        format!(
            "OPEN \"c09fld.txt\" FOR RANDOM AS #1 LEN = 15\nFIELD #1, 10 AS {}$, 5 AS {}$\nLSET {}$ = \"Nikos\"\nLSET {}$ = \"Geo\"\nPUT #1, 1\nLSET {}$ = \"x\"\nGET #1, 1\nPRINT {}$; \"|\"; {}$; \"|\"\nCLOSE\n",
            f1, f2, l1, l2, l1, p1, p2
        )
    };
    let run = |text: &str| -> String {
        match catch_unwind(|| run_in_memory(text, b"", 100_000, None, false)) {
            Ok(Ok(r)) => format!("{:?} | {}", String::from_utf8_lossy(&r.stdout), if r.result.is_ok() { "ok".to_owned() } else { canon_debug(&format!("{:?}", r.result)) }),
            Ok(Err(e)) => format!("front-end {:?}", e),
            Err(_) => "panic".to_owned(),
        }
    };
    let base_text = program("FirstName", "LastName", "FirstName", "LastName", "FirstName", "LastName");
    let base = run(&base_text);
    let spellings = [
        ("firstname", "LASTNAME", "FIRSTNAME", "lastname", "FirstName", "LastName"),
        ("FIRSTNAME", "lastname", "firstName", "LastName", "FIRSTNAME", "LASTNAME"),
        ("FirstName", "LastName", "FIRSTNAME", "LASTNAME", "firstname", "lastname"),
    ];
    for (f1, f2, l1, l2, p1, p2) in spellings {
        let text = program(f1, f2, l1, l2, p1, p2);
        rep.case(Some(format!("f{}", text)));
        rep.bump("field.case-variant");
        let got = run(&text);
        if got != base || !base.ends_with("| ok") {
            rep.fail(Failure {
                kind: Kind::ImplVsProperty,
                signature: "field:case".into(),
                input: format!("original {:?} transformed {:?}", base_text, text),
                implementation: got,
                expected: base.clone(),
                note: "FIELD / LSET / GET / PUT must find their variables whatever the case of the spelling".into(),
            });
        }
    }
}

/// Only NAMES are limited to 40 characters. Long words inside string literals, comments and (quoted) DATA items are
/// accepted and are nothing but text; a word of more than 40 characters in a name position is rejected there.
fn check_long_words(rep: &mut Report) {
    let mk = |n: usize| -> String { "abcdefghijklmnopqrstuvwxyz0123456789.".chars().cycle().take(n).collect() };
    // (a) text positions: the program with the long word = the program with a short word, up to that text
    let text_templates: Vec<&str> = vec![
        "T$ = \"{W}\"\nPRINT T$; LEN(T$)\n",
        "PRINT \"x {W} y\" ' {W} in a comment too\n",
        "' {W}\nPRINT 1\n",
        "PRINT 1 '{W}\nPRINT 2\n",
        "DATA \"{W}\", 5\nREAD X$, Y\nPRINT X$; Y\n",
        "IF 1 THEN PRINT \"{W}\" ELSE PRINT \"no\" ' {W}\n",
        "TYPE T ' {W}\n  A AS INTEGER ' {W}\nEND TYPE\nDIM v AS T\nPRINT v.A\n",
        "SELECT CASE 1 ' {W}\nCASE 1 ' {W}\nPRINT \"{W}\"\nEND SELECT\n",
    ];
    let short = "w9.w";
    for tpl in &text_templates {
        let base_text = tpl.replace("{W}", short);
        let base = observe(&base_text, true);
        for n in [40usize, 41, 42, 80, 300] {
            let w = mk(n);
            let text = tpl.replace("{W}", &w);
            rep.case(Some(format!("L{}", text)));
            rep.bump("long-word.text-position");
            let got = observe(&text, true);
            let unlong = |x: &str| x.replace(&w, short);
            let mut expected = base.clone();
            // LEN of the literal is the one legitimate difference
            let got_n = Obs { parse: unlong(&got.parse), lint: unlong(&got.lint), run: unlong(&got.run).replace(&format!(" {} ", n), &format!(" {} ", short.len())) };
            expected.run = expected.run.clone();
            if got_n != expected || !got.parse.starts_with("ok") {
                rep.fail(Failure {
                    kind: Kind::ImplVsProperty,
                    signature: "long-word:text".into(),
                    input: format!("original {:?} transformed {:?}", base_text, text),
                    implementation: shorten(&format!("{:?}", got_n), 400),
                    expected: shorten(&format!("{:?}", expected), 400),
                    note: "a long word inside a string literal, a comment or a quoted DATA item is text: accepted, same program otherwise".into(),
                });
            }
        }
    }
    // (b) name positions: rejected with IdentifierTooLong exactly when the model says the identifier token is too long
    let name_templates: Vec<&str> = vec![
        "{W} = 1\n",
        "{W}% = 1\n",
        "PRINT {W}\n",
        "PRINT 1 + {W}$\n",
        "GOTO {W}\n{W}:\n",
        "x = 1\n{W}:\n",
        "SUB {W}\nEND SUB\n",
        "FUNCTION {W}\nEND FUNCTION\n",
        "DECLARE SUB {W} ()\n",
        "TYPE {W}\n  A AS INTEGER\nEND TYPE\n",
        "TYPE T\n  {W} AS INTEGER\nEND TYPE\n",
        "DIM A AS {W}\n",
        "DIM {W}\n",
        "DIM {W}(1 TO 2)\n",
        "CONST {W} = 1\n",
        "FOR {W} = 1 TO 2\nNEXT\n",
        "SUB S ({W})\nEND SUB\n",
        "{W} 1, 2\n",
        "x = {W}(1)\n",
        "INPUT {W}\n",
        "ON ERROR GOTO {W}\n",
    ];
    let mut texts: Vec<String> = vec![];
    for tpl in &name_templates {
        for n in [39usize, 40, 41, 42, 64] {
            // names without dots where dots are not allowed: use letters and digits only
            let w: String = "abcdefghijklmnopqrstuvwxyz0123456789".chars().cycle().take(n).collect();
            texts.push(tpl.replace("{W}", &w));
        }
    }
    let reqs: Vec<String> = texts.iter().map(|t| format!("(lex.longnames {})", sx::chars(t))).collect();
    let answers = ask(&reqs);
    rep.exhaustive_parts.push(format!(
        "name limit: {} name positions x lengths 39, 40, 41, 42, 64 (real parser vs RbModel.Lex.nameTooLong); long words of 40..300 characters in {} text positions",
        name_templates.len(),
        text_templates.len()
    ));
    for (k, text) in texts.iter().enumerate() {
        rep.case(Some(format!("N{}", text)));
        rep.bump("long-word.name-position");
        let real = match catch_unwind(|| rusty_parser::parse_main_str(text.clone())) {
            Ok(Ok(_)) => "accepted".to_owned(),
            Ok(Err(e)) => {
                if format!("{:?}", e.element).contains("IdentifierTooLong") { "too-long".to_owned() } else { "accepted".to_owned() /* other error, not the limit */ }
            }
            Err(_) => "panic".to_owned(),
        };
        let model = if answers[k] == "()" { "accepted" } else { "too-long" };
        if real != model {
            rep.fail(Failure {
                kind: Kind::ModelVsImpl,
                signature: "model:nameTooLong".into(),
                input: format!("{:?}", text),
                implementation: real.clone(),
                expected: format!("{} {}", model, answers[k]),
                note: "RbModel.Lex.nameTooLong on the identifier tokens in name position".into(),
            });
        }
        let spec = if text.split(|c: char| !(c.is_ascii_alphanumeric() || c == '.')).any(|w| w.len() > 40 && w.chars().next().map(|c| c.is_ascii_alphabetic()).unwrap_or(false)) { "too-long" } else { "accepted" };
        if real != spec {
            rep.fail(Failure {
                kind: Kind::ImplVsProperty,
                signature: "name-limit".into(),
                input: format!("{:?}", text),
                implementation: real,
                expected: spec.into(),
                note: "a name of more than 40 characters is rejected with IdentifierTooLong, one of 40 is not".into(),
            });
        }
    }
}

/// `common_separator` is private; it is observed through the parser: `X = 1 <sep> Y = 2` has two
/// statements iff the model's `commonSeparator` consumes `<sep>` completely.
fn check_separator(rep: &mut Report) {
    let alpha = [' ', '\t', '\r', '\n', ':'];
    let mut seps: Vec<String> = vec![String::new()];
    let mut frontier = vec![String::new()];
    for _ in 0..4 {
        let mut next = vec![];
        for s in &frontier {
            for c in alpha {
                let t = format!("{}{}", s, c);
                // at most one colon, and none after an end of line (`EOL :` is a separator followed by an
                // empty statement and a second separator, which one `common_separator` call does not cover)
                let colon_after_eol = t.find(':').map(|p| t[..p].contains(['\r', '\n'])).unwrap_or(false);
                if t.matches(':').count() <= 1 && !colon_after_eol {
                    next.push(t);
                }
            }
        }
        seps.extend(next.iter().cloned());
        frontier = next;
    }
    let reqs: Vec<String> = seps.iter().map(|s| format!("(lex.sep {} {})", sx::chars(s), sx::chars("Y = 2"))).collect();
    let answers = ask(&reqs);
    rep.exhaustive_parts.push(format!(
        "separator: `X = 1<sep>Y = 2` parsed by the real parser vs RbModel.Lex.commonSeparator over all {} strings <sep> of length <= 4 over blank, tab, CR, LF, ':' (at most one colon, none after an end of line)",
        seps.len()
    ));
    for (k, s) in seps.iter().enumerate() {
        rep.case(if s.is_empty() { None } else { Some(format!("s{:?}", s)) });
        let text = format!("X = 1{}Y = 2", s);
        let real = catch_unwind(|| rusty_parser::parse_main_str(text.clone()));
        let real_s = match real {
            Ok(Ok(p)) if p.len() == 2 => "all",
            Ok(Ok(_)) => "other-shape",
            Ok(Err(_)) => "rejected",
            Err(_) => "panic",
        };
        rep.bump(&format!("separator.{}", real_s));
        let model = &answers[k];
        let agree = (real_s == "all") == (model == "all");
        if !agree {
            rep.fail(Failure {
                kind: Kind::ModelVsImpl,
                signature: "model:commonSeparator".into(),
                input: format!("{:?}", text),
                implementation: real_s.into(),
                expected: model.clone(),
                note: "two statements iff the model separator consumes <sep> completely".into(),
            });
        }
        // property: ws* (EOL | ':') (ws | EOL)*
        let t = s.trim_start_matches([' ', '\t']);
        let spec = match t.chars().next() {
            Some(c) if c == ':' || c == '\r' || c == '\n' => t[1..].chars().all(|c| c != ':'),
            _ => false,
        };
        if spec != (real_s == "all") {
            rep.fail(Failure {
                kind: Kind::ImplVsProperty,
                signature: "separator".into(),
                input: format!("{:?}", text),
                implementation: real_s.into(),
                expected: if spec { "all".into() } else { "rejected".into() },
                note: "a separator is ws* (EOL | ':') (ws | EOL)*".into(),
            });
        }
    }
}

// =================================================================================================
// (b) metamorphic part
// =================================================================================================

#[derive(Clone, Copy, PartialEq, Eq, Debug)]
enum SegKind {
    Word,
    Number,
    Ws,
    Eol,
    Str,
    Comment,
    Sym,
}

#[derive(Clone, Debug)]
struct Seg {
    kind: SegKind,
    text: String,
}

/// An independent, deliberately simple scanner (not the code under test): words, numbers, blank runs,
/// ends of line, string literals (to the closing quote or the end of the line), comments (to the end of the line).
fn scan(text: &str) -> Vec<Seg> {
    let cs: Vec<char> = text.chars().collect();
    let mut i = 0;
    let mut out = vec![];
    while i < cs.len() {
        let c = cs[i];
        let start = i;
        let kind;
        if c == '\r' || c == '\n' {
            i += 1;
            if c == '\r' && i < cs.len() && cs[i] == '\n' {
                i += 1;
            }
            kind = SegKind::Eol;
        } else if c == ' ' || c == '\t' {
            while i < cs.len() && (cs[i] == ' ' || cs[i] == '\t') {
                i += 1;
            }
            kind = SegKind::Ws;
        } else if c.is_ascii_alphabetic() {
            while i < cs.len() && (cs[i].is_ascii_alphanumeric() || cs[i] == '.') {
                i += 1;
            }
            kind = SegKind::Word;
        } else if c.is_ascii_digit() {
            while i < cs.len() && cs[i].is_ascii_digit() {
                i += 1;
            }
            kind = SegKind::Number;
        } else if c == '"' {
            i += 1;
            while i < cs.len() && cs[i] != '"' && cs[i] != '\r' && cs[i] != '\n' {
                i += 1;
            }
            if i < cs.len() && cs[i] == '"' {
                i += 1;
            }
            kind = SegKind::Str;
        } else if c == '\'' {
            while i < cs.len() && cs[i] != '\r' && cs[i] != '\n' {
                i += 1;
            }
            kind = SegKind::Comment;
        } else {
            i += 1;
            kind = SegKind::Sym;
        }
        out.push(Seg { kind, text: cs[start..i].iter().collect() });
    }
    out
}

fn render(segs: &[Seg]) -> String {
    segs.iter().map(|s| s.text.as_str()).collect()
}

/// Index ranges of the lines (segments between Eol segments; the Eol segment is not part of the range).
fn lines(segs: &[Seg]) -> Vec<(usize, usize)> {
    let mut out = vec![];
    let mut start = 0;
    for (i, s) in segs.iter().enumerate() {
        if s.kind == SegKind::Eol {
            out.push((start, i));
            start = i + 1;
        }
    }
    out.push((start, segs.len()));
    out
}

fn line_has_word(segs: &[Seg], l: (usize, usize), words: &[&str]) -> bool {
    segs[l.0..l.1]
        .iter()
        .any(|s| s.kind == SegKind::Word && words.iter().any(|w| s.text.eq_ignore_ascii_case(w)))
}

fn line_of(ls: &[(usize, usize)], idx: usize) -> (usize, usize) {
    *ls.iter().find(|l| idx >= l.0 && idx <= l.1).unwrap()
}

/// A line made of simple statements only (assignments and PRINTs), where replacing the newline after/before
/// it by a colon is certainly meaning-preserving in QBasic: no IF/ELSE/block keywords, no DATA, no comment,
/// no label or line number, starts with PRINT or `name [suffix] =`.
fn simple_line(segs: &[Seg], l: (usize, usize)) -> bool {
    let body: Vec<&Seg> = segs[l.0..l.1].iter().filter(|s| s.kind != SegKind::Ws).collect();
    if body.is_empty() {
        return false;
    }
    if body.iter().any(|s| s.kind == SegKind::Comment) {
        return false;
    }
    const BLOCK: &[&str] = &[
        "IF", "THEN", "ELSE", "ELSEIF", "END", "FOR", "NEXT", "WHILE", "WEND", "DO", "LOOP", "SELECT", "CASE", "SUB", "FUNCTION",
        "TYPE", "DATA", "DECLARE", "DEF", "DEFINT", "DEFLNG", "DEFSNG", "DEFDBL", "DEFSTR", "DIM", "REDIM", "CONST", "ON", "GOTO",
        "GOSUB", "RETURN", "RESUME", "EXIT", "STATIC", "SHARED", "REM", "AS",
    ];
    if line_has_word(segs, l, BLOCK) {
        return false;
    }
    // split at top-level colons: every part must be PRINT ... or name [suffix] = ...
    let mut parts: Vec<Vec<&Seg>> = vec![vec![]];
    for s in body {
        if s.kind == SegKind::Sym && s.text == ":" {
            parts.push(vec![]);
        } else {
            parts.last_mut().unwrap().push(s);
        }
    }
    parts.iter().all(|p| {
        if p.is_empty() || p[0].kind != SegKind::Word {
            return false;
        }
        if p[0].text.eq_ignore_ascii_case("PRINT") {
            return true;
        }
        if p[0].text.contains('.') {
            return false;
        }
        let mut j = 1;
        if j < p.len() && p[j].kind == SegKind::Sym && ["%", "&", "!", "#", "$"].contains(&p[j].text.as_str()) {
            j += 1;
        }
        j < p.len() && p[j].kind == SegKind::Sym && p[j].text == "="
    })
}

#[derive(Clone, Copy, PartialEq, Eq, Debug)]
enum Tr {
    Case,
    Blanks,
    BlankLines,
    Comment,
    TrailingBlank,
    Eol,
    NewlineToColon,
    ColonToNewline,
}

const ALL_TR: &[Tr] = &[Tr::NewlineToColon, Tr::ColonToNewline, Tr::Case, Tr::Blanks, Tr::BlankLines, Tr::TrailingBlank, Tr::Comment, Tr::Eol];

impl Tr {
    fn name(&self) -> &'static str {
        match self {
            Tr::Case => "case",
            Tr::Blanks => "blanks",
            Tr::BlankLines => "blank-lines",
            Tr::Comment => "trailing-comment",
            Tr::TrailingBlank => "trailing-blank",
            Tr::Eol => "eol-convention",
            Tr::NewlineToColon => "newline-to-colon",
            Tr::ColonToNewline => "colon-to-newline",
        }
    }
}

/// Eligible sites (segment indices) of a transformation; `excluded` counts sites left out by caution.
fn sites(segs: &[Seg], tr: Tr, excluded: &mut u64) -> Vec<usize> {
    let ls = lines(segs);
    let mut out = vec![];
    match tr {
        Tr::Case => {
            for (i, s) in segs.iter().enumerate() {
                if s.kind == SegKind::Word {
                    // DATA lines may hold unquoted text
                    if line_has_word(segs, line_of(&ls, i), &["DATA"]) {
                        *excluded += 1;
                    } else {
                        out.push(i);
                    }
                }
            }
        }
        Tr::Blanks => {
            for (i, s) in segs.iter().enumerate() {
                if s.kind == SegKind::Ws {
                    if line_has_word(segs, line_of(&ls, i), &["DATA"]) {
                        *excluded += 1;
                    } else {
                        out.push(i);
                    }
                }
            }
        }
        Tr::BlankLines | Tr::Eol => {
            for (i, s) in segs.iter().enumerate() {
                if s.kind == SegKind::Eol {
                    out.push(i);
                }
            }
        }
        Tr::Comment => {
            for (k, l) in ls.iter().enumerate() {
                // the Eol segment that ends line k is at index l.1 (if any)
                if l.1 < segs.len() {
                    let has_comment = segs[l.0..l.1].iter().any(|s| s.kind == SegKind::Comment);
                    let unterminated_str =
                        segs[l.0..l.1].iter().any(|s| s.kind == SegKind::Str && (s.text.len() < 2 || !s.text.ends_with('"')));
                    // single-line IF: a trailing comment becomes the (empty) ELSE block of the tree
                    let single_line_if = segs[l.0..l.1]
                        .iter()
                        .position(|s| s.kind == SegKind::Word && s.text.eq_ignore_ascii_case("THEN"))
                        .map(|p| segs[l.0 + p + 1..l.1].iter().any(|s| s.kind != SegKind::Ws))
                        .unwrap_or(false);
                    if has_comment || unterminated_str || single_line_if || line_has_word(segs, *l, &["DATA"]) {
                        *excluded += 1;
                    } else {
                        out.push(l.1);
                    }
                }
                let _ = k;
            }
        }
        Tr::TrailingBlank => {
            for l in ls.iter() {
                if l.1 < segs.len() && l.1 > l.0 {
                    let has_comment = segs[l.0..l.1].iter().any(|s| s.kind == SegKind::Comment);
                    let unterminated_str =
                        segs[l.0..l.1].iter().any(|s| s.kind == SegKind::Str && (s.text.len() < 2 || !s.text.ends_with('"')));
                    let ends_in_ws = segs[l.1 - 1].kind == SegKind::Ws;
                    if has_comment || unterminated_str || ends_in_ws || line_has_word(segs, *l, &["DATA"]) {
                        *excluded += 1;
                    } else {
                        out.push(l.1);
                    }
                }
            }
        }
        Tr::NewlineToColon => {
            for k in 0..ls.len().saturating_sub(1) {
                let eol_idx = ls[k].1;
                if simple_line(segs, ls[k]) && simple_line(segs, ls[k + 1]) {
                    out.push(eol_idx);
                } else {
                    *excluded += 1;
                }
            }
        }
        Tr::ColonToNewline => {
            for (i, s) in segs.iter().enumerate() {
                if s.kind == SegKind::Sym && s.text == ":" {
                    if simple_line(segs, line_of(&ls, i)) {
                        out.push(i);
                    } else {
                        *excluded += 1;
                    }
                }
            }
        }
    }
    out
}

fn apply(segs: &[Seg], tr: Tr, chosen: &[usize], rng: &mut Rng) -> Vec<Seg> {
    let mut out: Vec<Seg> = segs.to_vec();
    for &i in chosen {
        let s = &mut out[i];
        match tr {
            Tr::Case => {
                let mode = rng.below(3);
                s.text = s
                    .text
                    .chars()
                    .map(|c| match mode {
                        0 => c.to_ascii_uppercase(),
                        1 => c.to_ascii_lowercase(),
                        _ => {
                            if rng.chance(1, 2) {
                                c.to_ascii_uppercase()
                            } else {
                                c.to_ascii_lowercase()
                            }
                        }
                    })
                    .collect();
            }
            Tr::Blanks => {
                let n = rng.range(1, 4);
                s.text = (0..n).map(|_| if rng.chance(1, 4) { '\t' } else { ' ' }).collect();
            }
            Tr::BlankLines => {
                let e = first_eol(&s.text);
                s.text = match rng.below(3) {
                    0 => format!("{}{}", s.text, e),
                    1 => format!("{}  \t{}", s.text, e),
                    _ => format!("{}{}{}", s.text, e, e),
                };
            }
            Tr::Comment => {
                let c = *rng.pick(&[
                    " ' a Comment: PRINT \"x\"",
                    "'",
                    "\t' IF then",
                    " 'don't",
                    " ' abcdefghijklmnopqrstuvwxyzabcdefghijklmnopqrstuvwxyz0123456789 is a long word",
                    "'Pneumonoultramicroscopicsilicovolcanoconiosis.and.then.some.more",
                ]);
                s.text = format!("{}{}", c, s.text);
            }
            Tr::TrailingBlank => {
                let c = *rng.pick(&[" ", "  ", "\t", " \t"]);
                s.text = format!("{}{}", c, s.text);
            }
            Tr::Eol => {
                let to = *rng.pick(&["\n", "\r\n", "\r"]);
                s.text = replace_eols(&s.text, to);
            }
            Tr::NewlineToColon => {
                s.kind = SegKind::Sym;
                s.text = (*rng.pick(&[":", " : ", ": "])).to_owned();
            }
            Tr::ColonToNewline => {
                s.kind = SegKind::Eol;
                s.text = "\n".to_owned();
            }
        }
    }
    out
}

fn first_eol(t: &str) -> String {
    if let Some(p) = t.find(['\r', '\n']) {
        let rest = &t[p..];
        if rest.starts_with("\r\n") { "\r\n".into() } else { rest[..1].to_owned() }
    } else {
        "\n".into()
    }
}

fn replace_eols(t: &str, to: &str) -> String {
    let cs: Vec<char> = t.chars().collect();
    let mut out = String::new();
    let mut i = 0;
    while i < cs.len() {
        if cs[i] == '\r' {
            i += 1;
            if i < cs.len() && cs[i] == '\n' {
                i += 1;
            }
            out.push_str(to);
        } else if cs[i] == '\n' {
            i += 1;
            out.push_str(to);
        } else {
            out.push(cs[i]);
            i += 1;
        }
    }
    out
}

// ---- observation -------------------------------------------------------------------------------

/// Removes `Position { row: .., col: .. }`, upper-cases the text of `CaseInsensitiveString("..")`,
/// and drops comment nodes, working on the `Debug` rendering.
fn canon_debug(d: &str) -> String {
    let cs: Vec<char> = d.chars().collect();
    let mut out = String::with_capacity(d.len());
    let mut i = 0;
    let starts = |i: usize, pat: &str| -> bool {
        let p: Vec<char> = pat.chars().collect();
        i + p.len() <= cs.len() && cs[i..i + p.len()] == p[..]
    };
    // returns the index just after the closing quote of the Debug string literal starting at `i` (cs[i] == '"')
    let skip_str = |mut i: usize| -> usize {
        i += 1;
        while i < cs.len() && cs[i] != '"' {
            if cs[i] == '\\' {
                i += 1;
            }
            i += 1;
        }
        i + 1
    };
    while i < cs.len() {
        if starts(i, "Position { row: ") {
            while i < cs.len() && cs[i] != '}' {
                i += 1;
            }
            i += 1;
            out.push('@');
        } else if starts(i, "CaseInsensitiveString(\"") {
            let q = i + "CaseInsensitiveString(".len();
            let e = skip_str(q);
            out.push_str("CIS(");
            out.extend(cs[q..e.min(cs.len())].iter().map(|c| c.to_ascii_uppercase()));
            i = e;
        } else if starts(i, "Range('") || starts(i, "Single('") {
            // DEFtype letters: `char_to_alphabet_index` folds case (theorem deftype_fold)
            while i < cs.len() && cs[i] != ')' {
                out.push(cs[i].to_ascii_uppercase());
                i += 1;
            }
        } else if starts(i, "StringLiteral(\"") {
            // FIELD and LSET carry the spelled name of their variable as a string literal directly in front of
            // the variable itself; it is an identifier, not text (the run-time lookup folds case, see check_field_case)
            let q = i + "StringLiteral(".len();
            let e = skip_str(q).min(cs.len());
            let lit: String = cs[q + 1..e.saturating_sub(1).max(q + 1)].iter().collect();
            let mut j = e;
            let mut is_name_copy = false;
            let pre = "), pos: Position { row: ";
            if starts(j, pre) {
                j += pre.chars().count();
                while j < cs.len() && cs[j] != '}' {
                    j += 1;
                }
                let mid = "} }, Positioned { element: Variable(Name { bare_name: CaseInsensitiveString(\"";
                if starts(j, mid) {
                    j += mid.chars().count();
                    let name: String = cs[j..].iter().take_while(|c| **c != '"').collect();
                    is_name_copy = !lit.is_empty() && name.eq_ignore_ascii_case(&lit);
                }
            }
            if is_name_copy {
                out.extend(cs[i..e].iter().map(|c| c.to_ascii_uppercase()));
            } else {
                out.extend(cs[i..e].iter());
            }
            i = e;
        } else if starts(i, "Comment(\"") {
            let q = i + "Comment(".len();
            i = skip_str(q);
            out.push_str("Comment(");
        } else if starts(i, "comments: [") {
            // skip to the matching bracket (strings may contain brackets)
            let mut j = i + "comments: [".len();
            let mut depth = 1;
            while j < cs.len() && depth > 0 {
                if cs[j] == '"' {
                    j = skip_str(j);
                    continue;
                }
                if cs[j] == '[' {
                    depth += 1;
                } else if cs[j] == ']' {
                    depth -= 1;
                }
                j += 1;
            }
            out.push_str("comments: []");
            i = j;
        } else if cs[i] == '"' {
            let e = skip_str(i);
            out.extend(cs[i..e.min(cs.len())].iter());
            i = e;
        } else {
            out.push(cs[i]);
            i += 1;
        }
    }
    // drop comment statements together with their list separators
    for pat in ["Positioned { element: Statement(Comment()), pos: @ }", "Positioned { element: Comment(), pos: @ }"] {
        out = out.replace(&format!("{}, ", pat), "");
        out = out.replace(&format!(", {}", pat), "");
        out = out.replace(pat, "");
    }
    out
}

/// Error messages may echo the offending token (`Token { kind: 9, text: \"IntEGER\" }`): the echo is source
/// text, not meaning; keep the kind, drop the text.
fn strip_token_echo(msg: &str) -> String {
    let mut out = String::new();
    let mut rest = msg;
    while let Some(p) = rest.find("text: \\\"") {
        out.push_str(&rest[..p]);
        out.push_str("text: _");
        let after = &rest[p + "text: \\\"".len()..];
        match after.find("\\\"") {
            Some(q) => rest = &after[q + 2..],
            None => {
                rest = "";
            }
        }
    }
    out.push_str(rest);
    out
}

#[derive(Clone, PartialEq, Eq, Debug)]
struct Obs {
    parse: String,
    lint: String,
    run: String,
}

const NEEDS_DEVICE: &[&str] = &[
    "INPUT", "OPEN", "CLOSE", "KILL", "NAME", "INKEY", "ENVIRON", "COMMAND", "TIMER", "RANDOMIZE", "RND", "SHELL", "FIELD", "GET",
    "PUT", "EOF", "LOF", "LINE", "SLEEP", "FILES", "LSET", "WIDTH", "VIEW", "LOCATE", "COLOR", "CLS", "POS", "CSRLIN", "SCREEN",
    "LPOS", "CHDIR", "MKDIR", "RMDIR",
];

fn observe(text: &str, with_run: bool) -> Obs {
    let parsed = catch_unwind(|| rusty_parser::parse_main_str(text.to_owned()));
    let (parse, program) = match parsed {
        Ok(Ok(p)) => (format!("ok {}", canon_debug(&format!("{:?}", p))), Some(p)),
        Ok(Err(e)) => (format!("err {}", strip_token_echo(&canon_debug(&format!("{:?}", e.element)))), None),
        Err(_) => ("panic".to_owned(), None),
    };
    let mut lint = "-".to_owned();
    let mut run = "-".to_owned();
    if let Some(p) = program {
        let linted = catch_unwind(AssertUnwindSafe(|| rusty_linter::core::lint(p)));
        let lint_ok;
        match linted {
            Ok(Ok(_)) => {
                lint = "ok".to_owned();
                lint_ok = true;
            }
            Ok(Err(e)) => {
                lint = format!("err {}", canon_debug(&format!("{:?}", e.element)));
                lint_ok = false;
            }
            Err(_) => {
                lint = "panic".to_owned();
                lint_ok = false;
            }
        }
        if lint_ok && with_run {
            run = match catch_unwind(|| run_in_memory(text, b"", 60_000, None, false)) {
                Ok(Ok(r)) => {
                    if r.budget_exhausted {
                        "budget".to_owned()
                    } else {
                        format!(
                            "{:?} | {}",
                            String::from_utf8_lossy(&r.stdout),
                            match &r.result {
                                Ok(()) => "ok".to_owned(),
                                Err(e) => format!("err {}", canon_debug(&format!("{:?}", e))),
                            }
                        )
                    }
                }
                Ok(Err(e)) => format!("front-end {}", canon_debug(&format!("{:?}", e)).chars().take(80).collect::<String>()),
                Err(_) => "panic".to_owned(),
            };
        }
    }
    Obs { parse, lint, run }
}

// ---- corpus ------------------------------------------------------------------------------------

fn walk_rs(dir: &std::path::Path, out: &mut Vec<std::path::PathBuf>) {
    if let Ok(rd) = std::fs::read_dir(dir) {
        let mut entries: Vec<_> = rd.flatten().map(|e| e.path()).collect();
        entries.sort();
        for p in entries {
            if p.is_dir() {
                if p.file_name().map(|n| n == "target" || n == ".git").unwrap_or(false) {
                    continue;
                }
                walk_rs(&p, out);
            } else if p.extension().map(|e| e == "rs").unwrap_or(false) {
                out.push(p);
            }
        }
    }
}

/// String literals of a Rust source file: raw `r#"…"#` / `r"…"` and ordinary `"…"` (escapes decoded).
fn rust_literals(src: &str) -> Vec<String> {
    let cs: Vec<char> = src.chars().collect();
    let mut out = vec![];
    let mut i = 0;
    while i < cs.len() {
        let c = cs[i];
        if c == '/' && i + 1 < cs.len() && cs[i + 1] == '/' {
            while i < cs.len() && cs[i] != '\n' {
                i += 1;
            }
        } else if c == '\'' {
            // char literal or lifetime: skip a possible char literal
            if i + 2 < cs.len() && cs[i + 1] == '\\' {
                i += 2;
                while i < cs.len() && cs[i] != '\'' {
                    i += 1;
                }
                i += 1;
            } else if i + 2 < cs.len() && cs[i + 2] == '\'' {
                i += 3;
            } else {
                i += 1;
            }
        } else if c == 'r' && i + 1 < cs.len() && (cs[i + 1] == '"' || cs[i + 1] == '#') && (i == 0 || !cs[i - 1].is_alphanumeric()) {
            let mut j = i + 1;
            let mut hashes = 0;
            while j < cs.len() && cs[j] == '#' {
                hashes += 1;
                j += 1;
            }
            if j < cs.len() && cs[j] == '"' {
                j += 1;
                let start = j;
                let mut end = None;
                while j < cs.len() {
                    if cs[j] == '"' && (0..hashes).all(|h| j + 1 + h < cs.len() && cs[j + 1 + h] == '#') {
                        end = Some(j);
                        break;
                    }
                    j += 1;
                }
                if let Some(e) = end {
                    out.push(cs[start..e].iter().collect());
                    i = e + 1 + hashes;
                } else {
                    i = cs.len();
                }
            } else {
                i += 1;
            }
        } else if c == '"' {
            let mut j = i + 1;
            let mut s = String::new();
            while j < cs.len() && cs[j] != '"' {
                if cs[j] == '\\' && j + 1 < cs.len() {
                    j += 1;
                    match cs[j] {
                        'n' => s.push('\n'),
                        'r' => s.push('\r'),
                        't' => s.push('\t'),
                        '0' => s.push('\0'),
                        '\\' => s.push('\\'),
                        '"' => s.push('"'),
                        '\'' => s.push('\''),
                        '\n' => {
                            while j + 1 < cs.len() && cs[j + 1].is_whitespace() {
                                j += 1;
                            }
                        }
                        other => {
                            s.push('\\');
                            s.push(other);
                        }
                    }
                    j += 1;
                } else {
                    s.push(cs[j]);
                    j += 1;
                }
            }
            out.push(s);
            i = j + 1;
        } else {
            i += 1;
        }
    }
    out
}

const BUILT_IN: &[&str] = &[
    "PRINT \"Hello, world\"",
    "a = 1\nb = 2\nPRINT a + b\n",
    "A$ = \"mixed Case\"\nB$ = a$\nprint A$; b$\n",
    "FOR i% = 1 TO 3\n  PRINT i%\nNEXT i%\n",
    "DEFINT A-Z\nx = 5\nIF x > 3 THEN PRINT \"big\" ELSE PRINT \"small\"\n",
    "IF 1 < 2 THEN\n  PRINT \"yes\"\nELSEIF 2 < 1 THEN\n  PRINT \"no\"\nELSE\n  PRINT \"maybe\"\nEND IF\n",
    "DECLARE SUB Hello (n$)\nHello \"you\"\nSUB Hello (n$)\n  PRINT \"Hello, \"; n$\nEND SUB\n",
    "DECLARE FUNCTION Add% (a%, b%)\nPRINT Add%(1, 2)\nFUNCTION Add% (a%, b%)\n  Add% = a% + b%\nEND FUNCTION\n",
    "SELECT CASE 2\nCASE 1\n  PRINT \"one\"\nCASE 2 TO 3\n  PRINT \"two\"\nCASE ELSE\n  PRINT \"other\"\nEND SELECT\n",
    "TYPE Card\n  Suit AS STRING * 9\n  Value AS INTEGER\nEND TYPE\nDIM c AS Card\nc.Value = 3\nPRINT c.value\n",
    "x = 1: y = 2: PRINT x; y\nPRINT x + y: PRINT x * y\n",
    "i = 0\nWHILE i < 3\n  i = i + 1\nWEND\nPRINT i\n",
    "DO\n  n = n + 1\nLOOP UNTIL n >= 2\nPRINT n\n",
    "GOTO skip\nPRINT \"not printed\"\nskip:\nPRINT \"after\"\n",
    "10 PRINT \"ten\"\n20 GOTO 40\n30 PRINT \"thirty\"\n40 PRINT \"forty\"\n",
    "DEFSTR s\nDEFINT i-k\nsName = \"x\"\nIndex = 3\nPRINT sname; INDEX\n",
    "PRINT &HFF; &h1f; &O17; &o7\n",
    "CONST Pi = 3.14\nPRINT pi\n",
    "DIM A(1 TO 3) AS INTEGER\nA(2) = 7\nPRINT a(2); UBOUND(a)\n",
    "ON ERROR GOTO handler\nx = 1 / 0\nPRINT \"resumed\"\nEND\nhandler:\nPRINT \"error\"; ERR\nRESUME NEXT\n",
    "GOSUB work\nPRINT \"back\"\nEND\nwork:\nPRINT \"working\"\nRETURN\n",
    "PRINT \"a ' not a comment\" ' a comment\nPRINT \"b\" 'another\n",
    "PRINT 1 <> 2; 1 <= 2; 1 >= 2; 1 = 2\n",
    "x$ = \"keep  Two  blanks\"\nPRINT x$; LEN(x$)\n",
    "T$ = \"abcdefghijklmnopqrstuvwxyzabcdefghijklmno\"\nPRINT T$ ' abcdefghijklmnopqrstuvwxyzabcdefghijklmnop\nPRINT LEN(t$)\n",
    "' abcdefghijklmnopqrstuvwxyzabcdefghijklmnopqrstuvwxyz01234567890123456789\nDATA \"abcdefghijklmnopqrstuvwxyzabcdefghijklmno\", 2\nREAD a$, b\nPRINT a$; b\n",
    "abcdefghijklmnopqrstuvwxyzabcdefghijklmno = 1\n",
    "PRINT \"unterminated\n",
    "IF x THEN\nPRINT 1\n",
    "PRINT 1 +\n",
    "x = = 1\n",
    "NEXT\n",
    "PRINT undefined$(1)\n",
    "a$ = 1\n",
    "Foo 1, 2\n",
];

// ---- driver ------------------------------------------------------------------------------------

fn shorten(s: &str, n: usize) -> String {
    if s.chars().count() <= n { s.to_owned() } else { format!("{}…", s.chars().take(n).collect::<String>()) }
}

fn first_difference(a: &Obs, b: &Obs) -> Option<(&'static str, String, String)> {
    if a.parse != b.parse {
        // both accepted / both rejected with the same message?
        return Some(("parse", a.parse.clone(), b.parse.clone()));
    }
    if a.lint != b.lint {
        return Some(("lint", a.lint.clone(), b.lint.clone()));
    }
    if a.run != b.run {
        return Some(("run", a.run.clone(), b.run.clone()));
    }
    None
}

fn check_metamorphic(rep: &mut Report, rng: &mut Rng) {
    let t0 = std::time::Instant::now();
    let thorough = rep.is_thorough();
    // ---- corpus
    let mut candidates: Vec<(String, String)> = vec![]; // (origin, text)
    for b in BUILT_IN {
        candidates.push(("built-in".into(), b.to_string()));
    }
    if let Ok(rd) = std::fs::read_dir("/repo/fixtures") {
        let mut files: Vec<_> = rd.flatten().map(|e| e.path()).collect();
        files.sort();
        for p in files {
            if p.extension().map(|e| e.eq_ignore_ascii_case("bas")).unwrap_or(false) {
                if let Ok(bytes) = std::fs::read(&p) {
                    candidates.push(("fixture".into(), String::from_utf8_lossy(&bytes).into_owned()));
                }
            }
        }
    }
    let mut rs_files = vec![];
    if let Ok(rd) = std::fs::read_dir("/repo") {
        let mut crates: Vec<_> = rd.flatten().map(|e| e.path().join("src")).filter(|p| p.is_dir()).collect();
        crates.sort();
        for c in crates {
            walk_rs(&c, &mut rs_files);
        }
    }
    for f in &rs_files {
        if let Ok(src) = std::fs::read_to_string(f) {
            for lit in rust_literals(&src) {
                if lit.len() >= 3 && lit.len() <= 4000 && lit.chars().any(|c| c.is_ascii_alphabetic()) {
                    candidates.push(("test-literal".into(), lit));
                }
            }
        }
    }
    let mut seen: BTreeSet<String> = BTreeSet::new();
    let mut accepted: Vec<(String, String)> = vec![];
    let mut rejected: Vec<(String, String)> = vec![];
    for (origin, text) in candidates {
        if !seen.insert(text.clone()) {
            continue;
        }
        let o = observe(&text, false);
        if o.parse.starts_with("ok") && o.lint == "ok" {
            accepted.push((origin, text));
        } else if o.parse != "panic" {
            rejected.push((origin, text));
        }
    }
    let n_rejected_all = rejected.len();
    // a sample of the rejected ones (all built-ins/fixtures, random test literals)
    let keep_rejected = if thorough { 1500 } else { 250 };
    let mut rej_sample: Vec<(String, String)> = vec![];
    let mut rest: Vec<(String, String)> = vec![];
    for r in rejected {
        if r.0 != "test-literal" { rej_sample.push(r) } else { rest.push(r) }
    }
    while rej_sample.len() < keep_rejected && !rest.is_empty() {
        let i = rng.below(rest.len() as u64) as usize;
        rej_sample.push(rest.swap_remove(i));
    }
    rep.notes.push(format!(
        "metamorphic corpus: {} accepted programs (parse+lint ok) and {} of {} rejected texts, harvested at run time from {} Rust files of /repo, /repo/fixtures/*.BAS and {} built-in programs",
        accepted.len(),
        rej_sample.len(),
        n_rejected_all,
        rs_files.len(),
        BUILT_IN.len()
    ));
    rep.bump_by("corpus.accepted", accepted.len() as u64);
    rep.bump_by("corpus.rejected-sampled", rej_sample.len() as u64);

    let mut programs: Vec<(String, String, bool)> = vec![];
    for (o, t) in accepted {
        programs.push((o, t, true));
    }
    for (o, t) in rej_sample {
        programs.push((o, t, false));
    }
    let subsets_per_tr = if thorough { 6 } else { 1 };
    let deadline = std::time::Duration::from_secs(if thorough { 700 } else { 60 });
    let mut excluded_sites = 0u64;
    let mut skipped_run = 0u64;
    let mut model_reqs: Vec<String> = vec![];
    let mut model_meta: Vec<(String, String)> = vec![];
    let mut n_prog_done = 0u64;
    // deterministic shuffle so that a time cut does not always drop the same tail
    for i in (1..programs.len()).rev() {
        let j = rng.below(i as u64 + 1) as usize;
        programs.swap(i, j);
    }
    // position grids first (never dropped by the time cut): many same-kind one-line constructs at random columns
    // over 30-120 rows; whatever the generator derives from a statement's (row, column) must not make a
    // re-layout (blanks, newline <-> colon, blank lines) change the run
    for _ in 0..(if thorough { 40 } else { 5 }) {
        programs.insert(0, ("grid".to_owned(), rb_harness::gen_prog::grid(rng), true));
    }
    for (origin, text, is_accepted) in &programs {
        if t0.elapsed() > deadline {
            break;
        }
        n_prog_done += 1;
        let segs = scan(text);
        debug_assert_eq!(&render(&segs), text);
        let code_words: Vec<&Seg> = segs.iter().filter(|s| s.kind == SegKind::Word).collect();
        let needs_device = code_words.iter().any(|s| NEEDS_DEVICE.iter().any(|w| s.text.eq_ignore_ascii_case(w)));
        let mut with_run = *is_accepted && !needs_device;
        let base = observe(text, with_run);
        if with_run && (base.run == "budget" || base.run == "panic") {
            with_run = false;
            skipped_run += 1;
        } else if *is_accepted && !with_run {
            skipped_run += 1;
        }
        let base = if with_run { base } else { observe(text, false) };
        rep.bump(&format!("program.{}.{}", origin, if *is_accepted { "accepted" } else { "rejected" }));

        // variants: per transformation all sites + random subsets; then all transformations at once
        let mut variants: Vec<(String, Vec<Seg>, Tr, Vec<usize>)> = vec![];
        for &tr in ALL_TR {
            let st = sites(&segs, tr, &mut excluded_sites);
            if st.is_empty() {
                continue;
            }
            rep.bump_by(&format!("sites.{}", tr.name()), st.len() as u64);
            variants.push((format!("{}:all", tr.name()), apply(&segs, tr, &st, rng), tr, st.clone()));
            if st.len() > 1 {
                for _ in 0..subsets_per_tr {
                    let sub: Vec<usize> = st.iter().cloned().filter(|_| rng.chance(1, 2)).collect();
                    if !sub.is_empty() && sub.len() < st.len() {
                        variants.push((format!("{}:subset", tr.name()), apply(&segs, tr, &sub, rng), tr, sub));
                    }
                }
            }
        }
        // all at once: sites are computed on the original segments; every transformation keeps the segment
        // list's shape (one segment in, one segment out), so indices stay valid and a site is only used while
        // its segment still has the kind the transformation expects
        {
            let mut cur = segs.clone();
            let mut any = false;
            for &tr in ALL_TR {
                let mut dummy = 0;
                let st: Vec<usize> = sites(&segs, tr, &mut dummy)
                    .into_iter()
                    .filter(|&i| cur[i].kind == segs[i].kind && (tr == Tr::Case || tr == Tr::Blanks || cur[i].text == segs[i].text || segs[i].kind == SegKind::Eol))
                    .collect();
                if !st.is_empty() {
                    let sub: Vec<usize> = st.iter().cloned().filter(|_| rng.chance(2, 3)).collect();
                    if !sub.is_empty() {
                        any = true;
                        cur = apply(&cur, tr, &sub, rng);
                    }
                }
            }
            if any {
                variants.push(("all-at-once".into(), cur, Tr::Case, vec![]));
            }
        }
        let mut single_tr_failed = false;
        for (vname, vsegs, tr, chosen) in variants {
            let vtext = render(&vsegs);
            if vtext == *text {
                continue;
            }
            let obs = observe(&vtext, with_run);
            rep.case(Some(format!("m{}|{}", vname, vtext)));
            rep.bump(&format!("variant.{}", vname));
            if model_reqs.len() < 4000 && text.len() < 600 && vname != "all-at-once" && matches!(tr, Tr::Case | Tr::Blanks | Tr::Eol | Tr::BlankLines | Tr::TrailingBlank) {
                // the model's normal form must not see these transformations either (ties `norm` to the
                // transformations actually applied, including the splitting at arbitrary prefixes that is not proved)
                model_reqs.push(format!("(lex.norm {})", sx::chars(text)));
                model_reqs.push(format!("(lex.norm {})", sx::chars(&vtext)));
                model_meta.push((vname.clone(), format!("{:?} vs {:?}", text, vtext)));
            }
            if let Some((what, b, v)) = first_difference(&base, &obs) {
                if vname == "all-at-once" && single_tr_failed {
                    // already reported through the single transformation(s)
                    continue;
                }
                single_tr_failed = true;
                // shrink: a single changed segment that already makes the difference; the statement it sits in names the finding
                let _ = (&chosen, tr);
                let mut minimal = vtext.clone();
                let mut tag = "multi".to_owned();
                let ls = lines(&segs);
                let changed: Vec<usize> = (0..segs.len()).filter(|&i| segs[i].text != vsegs[i].text).collect();
                for &site in &changed {
                    let single = if changed.len() == 1 {
                        vtext.clone()
                    } else {
                        let mut one = segs.clone();
                        one[site] = vsegs[site].clone();
                        render(&one)
                    };
                    let differs = changed.len() == 1 || first_difference(&base, &observe(&single, with_run)).is_some();
                    if differs {
                        minimal = single;
                        let l = line_of(&ls, site);
                        let w = segs[l.0..l.1.min(segs.len())]
                            .iter()
                            .find(|s| s.kind == SegKind::Word)
                            .map(|s| s.text.to_ascii_uppercase())
                            .unwrap_or("-".to_owned());
                        tag = if ["DEFINT", "DEFLNG", "DEFSNG", "DEFDBL", "DEFSTR"].contains(&w.as_str()) { "DEFtype".to_owned() } else { w };
                        break;
                    }
                }
                rep.fail(Failure {
                    kind: Kind::ImplVsProperty,
                    signature: format!("meta:{}:{}:{}", vname.split(':').next().unwrap(), what, tag),
                    input: format!("original {:?} transformed {:?}", shorten(text, 700), shorten(&minimal, 700)),
                    implementation: shorten(&v, 300),
                    expected: shorten(&b, 300),
                    note: format!("{} differs after the layout transformation {} ({} program from {})", what, vname, if *is_accepted { "accepted" } else { "rejected" }, origin),
                });
            }
        }
    }
    rep.notes.push(format!(
        "metamorphic: {} of {} programs processed within the time budget; {} sites excluded by caution (DATA lines, lines with comments, non-simple lines for newline<->colon); run-time comparison skipped for {} programs (device/keyboard/file/screen use, budget, or panic in the base run)",
        n_prog_done,
        programs.len(),
        excluded_sites,
        skipped_run
    ));
    // model side of the same transformations
    let answers = ask(&model_reqs);
    for (k, (vname, desc)) in model_meta.iter().enumerate() {
        rep.case(Some(format!("n{}", desc)));
        rep.bump("model-norm.compared");
        if answers[2 * k] != answers[2 * k + 1] {
            rep.fail(Failure {
                kind: Kind::ModelVsImpl,
                signature: format!("model:norm:{}", vname.split(':').next().unwrap()),
                input: shorten(desc, 900),
                implementation: shorten(&answers[2 * k + 1], 300),
                expected: shorten(&answers[2 * k], 300),
                note: "RbModel.Lex.norm (lex s) differs between a program and its layout variant".into(),
            });
        }
    }
}

fn main() {
    std::panic::set_hook(Box::new(|_| {}));
    let mut rng = Rng::from_env();
    let mut rep = Report::new(
        "C09",
        "direct part: pairs of strings (class = the pair), token texts (class = the text), keyword spellings, DEFtype letters, \
         separator spellings — trivial only when empty; metamorphic part: (program, transformation, chosen sites) with class = \
         the transformed text, counted only when it differs from the original text",
    );
    check_common(&mut rep, &mut rng);
    check_tokenizer(&mut rep, &mut rng);
    check_keywords(&mut rep, &mut rng);
    check_deftype(&mut rep);
    check_separator(&mut rep);
    check_field_case(&mut rep);
    check_long_words(&mut rep);
    check_metamorphic(&mut rep, &mut rng);
    rep.finish();
}
