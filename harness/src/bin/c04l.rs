//! C04 (phase A of the ARRAYS simulation layer) — programs with arrays of scalars on the real pipeline vs the three Lean
//! models of `lean/RbModel/ArrL/`:
//!   * `arrl.compare`: `RbModel.ArrL.Compile.compile p` = the real instruction list, instruction for instruction
//!     (positions, label names, resolved addresses);
//!   * `arrl.run`: `RbModel.ArrL.Vm.run` on the model-compiled code = real outcome and stdout;
//!   * `arrl.ref`: the big-step reference semantics `RbModel.ArrL.Ref.run` = real outcome and stdout;
//!   * `arrl.wf`: the premise checker `RbModel.ArrL.progWfB` of the simulation theorem `ArrL.compile_correct`
//!     (`lean/Thm/ArrLSim.lean`), counted per program as `theorem-premise.progWfB-true` / `-false`.
//! Usage for debugging: `c04l <file.bas>` prints the three answers for one program.

use rb_harness::arrl_sx;
use rb_harness::driver::ask;
use rb_harness::json::J;
use rb_harness::refrun::{parse_ref_answer, run_real, Observed};
use rb_harness::report::{Failure, Kind, Report};
use rb_harness::rng::Rng;

const FUEL: u64 = 4000;
const BUDGET: u64 = 400_000;

// ------------------------------------------------------------------------------------------------
// dedicated generator

#[derive(Clone, Copy, PartialEq, Debug)]
enum T {
    Int,
    Long,
    Sgl,
    Dbl,
    Str,
}

fn sfx(t: T) -> &'static str {
    match t {
        T::Int => "%",
        T::Long => "&",
        T::Sgl => "!",
        T::Dbl => "#",
        T::Str => "$",
    }
}

#[derive(Clone)]
struct Arr {
    name: String,
    ty: T,
    /// the bounds the generator aimed at (what the DIM evaluates to, unless the DIM is a fault)
    dims: Vec<(i64, i64)>,
}

struct G<'a> {
    rng: &'a mut Rng,
    arrs: Vec<Arr>,
    faults: bool,
    feats: Vec<&'static str>,
    /// FOR counters in scope (INTEGER variables whose value lies inside the loop's range)
    counters: Vec<(String, i64, i64)>,
    depth: u32,
    n_data: usize,
}

// fixed scalars, initialised at the top of every program and never assigned again:
//   I% = 2, J% = 1, K% = -1, L& = 3, M& = 40000, S! = 1.5, R! = -.5, D# = 2.5, Z% = 0
// free scalars (assigned by the program): X%, Y%, P&, Q!, W#, T$, and the FOR counters F0%..F3%

impl<'a> G<'a> {
    fn feat(&mut self, f: &'static str) {
        if !self.feats.contains(&f) {
            self.feats.push(f);
        }
    }

    fn num_ty(&mut self) -> T {
        *self.rng.pick(&[T::Int, T::Int, T::Long, T::Sgl, T::Dbl])
    }

    /// an expression whose value rounds to `t` (mostly), of a random numeric static type
    fn int_expr(&mut self, t: i64) -> String {
        let k = self.rng.below(100);
        match k {
            0..=49 => {
                if t < 0 && self.rng.chance(1, 2) {
                    format!("({})", t)
                } else {
                    format!("{}", t)
                }
            }
            50..=59 => {
                self.feat("subscript:fractional-literal");
                // rounds half away from zero: t.25 -> t ; (t-1).5 -> t for t > 0
                if t >= 1 && self.rng.chance(1, 2) {
                    format!("{}.5", t - 1)
                } else if t >= 0 {
                    format!("{}.25", t)
                } else {
                    format!("-{}.25", -t)
                }
            }
            60..=69 => {
                self.feat("subscript:integer-expression");
                format!("I% + {}", t - 2)
            }
            70..=75 => {
                self.feat("subscript:long");
                format!("L& + {}", t - 3)
            }
            76..=81 => {
                self.feat("subscript:single");
                format!("S! * 2 + {}", t - 3)
            }
            82..=87 => {
                self.feat("subscript:double");
                if self.faults && self.rng.chance(1, 2) { format!("D# + {}", t - 3) } else { format!("D# * 2 + {}", t - 5) }
            }
            88..=93 => {
                // through an element of an INTEGER array (aliasing when it is the same array)
                let ints: Vec<Arr> = self.arrs.iter().filter(|a| a.ty == T::Int && a.dims.len() == 1).cloned().collect();
                if let Some(a) = ints.first() {
                    self.feat("subscript:array-element");
                    let (lo, _) = a.dims[0];
                    return if self.faults { format!("{}({}) + {}", a.name, lo, t) } else { format!("{}({}) * 0 + {}", a.name, lo, t) };
                }
                format!("{}", t)
            }
            _ => {
                if let Some(a) = self.arrs.first().cloned() {
                    self.feat("subscript:lbound");
                    return format!("LBOUND({}) + {}", a.name, t - a.dims[0].0);
                }
                format!("{}", t)
            }
        }
    }

    /// one subscript for dimension (lo, hi): mostly inside, sometimes on / just beyond a face, rarely far out
    fn subscript(&mut self, lo: i64, hi: i64) -> String {
        // a FOR counter in scope whose range lies inside this dimension
        if let Some((name, clo, chi)) = self.counters.last().cloned() {
            if clo >= lo && chi <= hi && self.rng.chance(1, 2) {
                self.feat("subscript:for-counter");
                return name;
            }
        }
        let k = self.rng.below(100);
        let oob = if self.faults { 9 } else { 0 };
        let t = if k < oob {
            self.feat("subscript:outside");
            *self.rng.pick(&[lo - 1, hi + 1, hi + 1, hi + 1, hi + 2, lo - 3])
        } else if k < oob + 25 {
            *self.rng.pick(&[lo, hi])
        } else {
            self.rng.range(lo, hi)
        };
        if self.faults && self.rng.chance(1, 60) {
            self.feat("subscript:beyond-integer");
            return (*self.rng.pick(&["M&", "40000", "M& * 2", "-33000.5", "32767.5", "100000.5#", "99999.5"])).to_owned();
        }
        self.int_expr(t)
    }

    fn element(&mut self, a: &Arr) -> String {
        let mut subs: Vec<String> = a.dims.clone().iter().map(|(lo, hi)| self.subscript(*lo, *hi)).collect();
        if self.faults && self.rng.chance(1, 40) {
            self.feat("wrong-number-of-subscripts");
            if subs.len() > 1 && self.rng.chance(1, 2) {
                subs.pop();
            } else {
                subs.push("1".to_owned());
            }
        }
        format!("{}({})", a.name, subs.join(", "))
    }

    fn pick_arr(&mut self, want: Option<bool>) -> Option<Arr> {
        // want = Some(true): a string array, Some(false): a numeric one
        let c: Vec<Arr> = self.arrs.iter().filter(|a| want.map(|w| (a.ty == T::Str) == w).unwrap_or(true)).cloned().collect();
        if c.is_empty() { None } else { Some(self.rng.pick(&c).clone()) }
    }

    fn lit(&mut self, t: T) -> String {
        match t {
            T::Int => format!("{}", self.rng.range(-3, 12)),
            T::Long => format!("{}", *self.rng.pick(&[0i64, 1, 7, 40000, 70000, -50000, 100000])),
            T::Sgl => (*self.rng.pick(&["0.5", "1.5", "2.25", "4.5", "-0.75"])).to_owned(),
            T::Dbl => (*self.rng.pick(&["0.5#", "1.25#", "2.5#", "-3.5#", "100000.5#"])).to_owned(),
            T::Str => format!("\"{}\"", *self.rng.pick(&["", "x", "ab", "Q r"])),
        }
    }

    fn scalar(&mut self, t: T) -> String {
        match t {
            T::Int => (*self.rng.pick(&["I%", "J%", "K%", "X%", "Y%", "Z%"])).to_owned(),
            T::Long => (*self.rng.pick(&["L&", "P&"])).to_owned(),
            T::Sgl => (*self.rng.pick(&["S!", "R!", "Q!"])).to_owned(),
            T::Dbl => (*self.rng.pick(&["D#", "W#"])).to_owned(),
            T::Str => "T$".to_owned(),
        }
    }

    fn bound_call(&mut self) -> Option<String> {
        let a = self.pick_arr(None)?;
        let f = if self.rng.chance(1, 2) { "LBOUND" } else { "UBOUND" };
        let rank = a.dims.len() as i64;
        Some(match self.rng.below(10) {
            0..=3 => {
                self.feat("bound:no-dimension");
                format!("{}({})", f, a.name)
            }
            4..=5 => {
                self.feat("bound:literal-dimension");
                format!("{}({}, {})", f, a.name, self.rng.range(1, rank))
            }
            6 => {
                self.feat("bound:variable-dimension");
                format!("{}({}, {})", f, a.name, if rank >= 2 { "I%" } else { "J%" })
            }
            7 => {
                self.feat("bound:computed-dimension");
                let d = self.rng.range(1, rank);
                let e = self.int_expr(d);
                format!("{}({}, {})", f, a.name, e)
            }
            8 => {
                self.feat("bound:element-dimension");
                let ints: Vec<Arr> = self.arrs.iter().filter(|x| x.ty == T::Int && x.dims.len() == 1).cloned().collect();
                match ints.first() {
                    Some(x) => format!("{}({}, {}({}) + 1)", f, a.name, x.name, x.dims[0].0),
                    None => format!("{}({}, 1)", f, a.name),
                }
            }
            _ => {
                if self.faults {
                    self.feat("bound:dimension-outside");
                    let d = *self.rng.pick(&["0", "-1", "4", "K%", "M&", "0.4"]);
                    format!("{}({}, {})", f, a.name, d)
                } else {
                    format!("{}({}, 1)", f, a.name)
                }
            }
        })
    }

    /// an expression of static type (roughly) t
    fn expr(&mut self, t: T, depth: u32) -> String {
        if t == T::Str {
            return match self.rng.below(5) {
                0 => self.lit(T::Str),
                1 => "T$".to_owned(),
                2 => {
                    let l = self.lit(T::Str);
                    format!("T$ + {}", l)
                }
                _ => match self.pick_arr(Some(true)) {
                    Some(a) => {
                        self.feat("read:string-element");
                        self.element(&a)
                    }
                    None => self.lit(T::Str),
                },
            };
        }
        let k = self.rng.below(100);
        if depth == 0 || k < 25 {
            return match self.rng.below(10) {
                0..=3 => self.lit(t),
                4..=5 => self.scalar(t),
                _ => {
                    let c: Vec<Arr> = self.arrs.iter().filter(|a| a.ty == t).cloned().collect();
                    match c.first() {
                        Some(_) => {
                            let a = self.rng.pick(&c).clone();
                            self.feat("read:element");
                            self.element(&a)
                        }
                        None => self.lit(t),
                    }
                }
            };
        }
        match k {
            25..=49 => {
                // element of an array of any numeric type (conversion at the use)
                match self.pick_arr(Some(false)) {
                    Some(a) => {
                        self.feat("read:element");
                        self.element(&a)
                    }
                    None => self.lit(t),
                }
            }
            50..=59 => match self.bound_call() {
                Some(b) => b,
                None => self.lit(T::Int),
            },
            60..=84 => {
                let o = *self.rng.pick(&["+", "-", "*", "+", "-"]);
                let l = self.expr(t, depth - 1);
                let t2 = if self.rng.chance(1, 3) { self.num_ty() } else { t };
                let r = self.expr(t2, depth - 1);
                format!("{} {} {}", l, o, r)
            }
            85..=89 => {
                let e = self.expr(t, depth - 1);
                format!("({})", e)
            }
            90..=93 => {
                let e = self.expr(t, depth - 1);
                format!("-{}", e)
            }
            _ => {
                if self.faults && self.rng.chance(1, 3) {
                    self.feat("fault:division");
                    let e = self.expr(t, depth - 1);
                    format!("{} / Z%", e)
                } else {
                    let t2 = self.num_ty();
                    self.scalar(t2)
                }
            }
        }
    }

    fn cond(&mut self) -> String {
        let t = self.num_ty();
        let l = self.expr(t, 1);
        let r = self.expr(t, 1);
        let o = *self.rng.pick(&["<", "<=", "=", ">=", ">", "<>"]);
        format!("{} {} {}", l, o, r)
    }

    fn print_items(&mut self) -> String {
        let n = self.rng.range(1, 3);
        let mut s = String::new();
        for i in 0..n {
            if i > 0 {
                s.push_str(*self.rng.pick(&["; ", ", ", "; "]));
            }
            let t = if self.rng.chance(1, 6) { T::Str } else { self.num_ty() };
            let e = self.expr(t, 1);
            s.push_str(&e);
        }
        if self.rng.chance(1, 8) {
            s.push(';');
        }
        s
    }

    /// prints every element of a (small) array: observes that a store changed nothing else
    fn dump(&mut self, a: &Arr, out: &mut Vec<String>, ind: &str) {
        self.feat("dump-all-elements");
        let base = self.counters.len();
        let mut subs = vec![];
        for (d, _) in a.dims.iter().enumerate() {
            let c = format!("F{}%", base + d);
            if self.rng.chance(1, 3) {
                self.feat("loop:lbound-to-ubound");
                out.push(format!("{}{}FOR {} = LBOUND({}, {}) TO UBOUND({}, {})", ind, "  ".repeat(d), c, a.name, d + 1, a.name, d + 1));
            } else {
                out.push(format!("{}{}FOR {} = {} TO {}", ind, "  ".repeat(d), c, a.dims[d].0, a.dims[d].1));
            }
            subs.push(c);
        }
        out.push(format!("{}{}PRINT {}({});", ind, "  ".repeat(a.dims.len()), a.name, subs.join(", ")));
        for d in (0..a.dims.len()).rev() {
            out.push(format!("{}{}NEXT", ind, "  ".repeat(d)));
        }
        out.push(format!("{}PRINT", ind));
    }

    fn dim_bound(&mut self, v: i64) -> String {
        match self.rng.below(12) {
            0..=6 => format!("{}", v),
            7 => {
                self.feat("dim:computed-bound");
                format!("I% + {}", v - 2)
            }
            8 => {
                self.feat("dim:computed-bound");
                format!("J% * {}", v)
            }
            9 => {
                self.feat("dim:fractional-bound");
                if v >= 0 { format!("{}.25", v) } else { format!("-{}.25", -v) }
            }
            10 => {
                self.feat("dim:long-bound");
                format!("L& + {}", v - 3)
            }
            _ => {
                self.feat("dim:double-bound");
                format!("D# * 2 + {}", v - 5)
            }
        }
    }

    fn dim_text(&mut self, a: &Arr, kw: &str) -> String {
        let mut parts = vec![];
        for (lo, hi) in a.dims.clone() {
            if lo == 0 && self.rng.chance(2, 3) {
                let h = self.dim_bound(hi);
                parts.push(h);
            } else {
                let l = self.dim_bound(lo);
                let h = self.dim_bound(hi);
                parts.push(format!("{} TO {}", l, h));
            }
        }
        format!("{} {}({})", kw, a.name, parts.join(", "))
    }

    fn new_dims(&mut self) -> Vec<(i64, i64)> {
        let rank = *self.rng.pick(&[1usize, 1, 2, 2, 2, 3]);
        let mut dims = vec![];
        for _ in 0..rank {
            let lo = match self.rng.below(6) {
                0..=2 => 0,
                3 => 1,
                4 => self.rng.range(-3, -1),
                _ => self.rng.range(2, 5),
            };
            let max_ext = if rank == 3 { 2 } else { 4 };
            let hi = lo + self.rng.range(0, max_ext);
            dims.push((lo, hi));
        }
        dims
    }

    fn stmt(&mut self, depth: u32, out: &mut Vec<String>, ind: &str) {
        let k = self.rng.below(100);
        let inner = format!("{}  ", ind);
        match k {
            0..=27 => {
                // element assignment, the value of any numeric type (conversion to the element type)
                if let Some(a) = self.pick_arr(None) {
                    let target = self.element(&a);
                    let e = if a.ty == T::Str {
                        self.expr(T::Str, 1)
                    } else {
                        let t = if self.rng.chance(1, 2) { a.ty } else { self.num_ty() };
                        if t != a.ty {
                            self.feat("store:converted");
                        }
                        if self.faults && a.ty == T::Int && self.rng.chance(1, 12) {
                            self.feat("store:overflow");
                            "M& + 1".to_owned()
                        } else {
                            self.expr(t, 2)
                        }
                    };
                    self.feat("store:element");
                    out.push(format!("{}{} = {}", ind, target, e));
                }
            }
            28..=35 => {
                // element-to-element copy, possibly within one array
                if let Some(a) = self.pick_arr(Some(false)) {
                    let b = if self.rng.chance(1, 2) { a.clone() } else { self.pick_arr(Some(false)).unwrap() };
                    let l = self.element(&a);
                    let r = self.element(&b);
                    self.feat("store:element-to-element");
                    out.push(format!("{}{} = {}", ind, l, r));
                }
            }
            36..=41 => {
                // aliasing: A%(A%(i)) = …, the subscript reads the array being written
                let ints: Vec<Arr> = self.arrs.iter().filter(|a| a.ty == T::Int && a.dims.len() == 1).cloned().collect();
                if let Some(a) = ints.first().cloned() {
                    let (lo, hi) = a.dims[0];
                    let i = self.rng.range(lo, hi);
                    let e = self.expr(T::Int, 1);
                    self.feat("store:aliased-subscript");
                    if self.rng.chance(1, 2) {
                        out.push(format!("{}{}({}({}) + {}) = {}", ind, a.name, a.name, i, lo, e));
                    } else {
                        out.push(format!("{}{}({}({})) = {}({}) + 1", ind, a.name, a.name, i, a.name, i));
                    }
                }
            }
            42..=53 => {
                let items = self.print_items();
                out.push(format!("{}PRINT {}", ind, items));
            }
            54..=58 => {
                let t = *self.rng.pick(&[T::Int, T::Int, T::Long, T::Sgl, T::Dbl]);
                let v = match t {
                    T::Int => *self.rng.pick(&["X%", "Y%"]),
                    T::Long => "P&",
                    T::Sgl => "Q!",
                    _ => "W#",
                };
                let e = self.expr(t, 2);
                out.push(format!("{}{} = {}", ind, v, e));
            }
            59..=63 => {
                if let Some(a) = self.pick_arr(None) {
                    self.dump(&a, out, ind);
                }
            }
            64..=71 if depth > 0 && self.counters.len() < 2 => {
                // FOR over (part of) one dimension of an array, the counter as a subscript
                if let Some(a) = self.pick_arr(None) {
                    let d = self.rng.below(a.dims.len() as u64) as usize;
                    let (lo, hi) = a.dims[d];
                    let c = format!("F{}%", self.counters.len());
                    let (from, to) = if self.faults && self.rng.chance(1, 8) { (lo, hi + 1) } else { (lo, hi) };
                    let down = self.rng.chance(1, 5);
                    if down {
                        out.push(format!("{}FOR {} = {} TO {} STEP -1", ind, c, to, from));
                    } else {
                        out.push(format!("{}FOR {} = {} TO {}", ind, c, from, to));
                    }
                    self.feat("loop:for-over-array");
                    self.counters.push((c.clone(), from, to));
                    let n = self.rng.range(1, 3);
                    for _ in 0..n {
                        self.stmt(depth - 1, out, &inner);
                    }
                    self.counters.pop();
                    out.push(format!("{}NEXT", ind));
                }
            }
            72..=77 if depth > 0 => {
                let c = self.cond();
                out.push(format!("{}IF {} THEN", ind, c));
                self.stmt(depth - 1, out, &inner);
                if self.rng.chance(1, 2) {
                    out.push(format!("{}ELSE", ind));
                    self.stmt(depth - 1, out, &inner);
                }
                out.push(format!("{}END IF", ind));
                self.feat("if-on-element");
            }
            78..=82 if depth > 0 => {
                let e = match self.pick_arr(Some(false)) {
                    Some(a) => self.element(&a),
                    None => "X%".to_owned(),
                };
                out.push(format!("{}SELECT CASE {}", ind, e));
                let v = self.lit(T::Int);
                out.push(format!("{}CASE {}", ind, v));
                self.stmt(depth - 1, out, &inner);
                if self.rng.chance(1, 2) {
                    let e2 = self.expr(T::Int, 1);
                    out.push(format!("{}CASE IS > {}", ind, e2));
                    self.stmt(depth - 1, out, &inner);
                }
                out.push(format!("{}CASE ELSE", ind));
                self.stmt(depth - 1, out, &inner);
                out.push(format!("{}END SELECT", ind));
                self.feat("select-on-element");
            }
            83..=86 if depth > 0 => {
                // WHILE with a counter kept in an array element
                let ints: Vec<Arr> = self.arrs.iter().filter(|a| a.ty == T::Int && a.dims.len() == 1).cloned().collect();
                if let Some(a) = ints.first().cloned() {
                    let i = a.dims[0].0;
                    out.push(format!("{}{}({}) = 0", ind, a.name, i));
                    out.push(format!("{}WHILE {}({}) < {}", ind, a.name, i, self.rng.range(1, 3)));
                    self.stmt(0, out, &inner);
                    out.push(format!("{}  {}({}) = {}({}) + 1", ind, a.name, i, a.name, i));
                    out.push(format!("{}WEND", ind));
                    self.feat("while-counter-in-element");
                }
            }
            87..=91 => {
                // READ into an element (one target) or into scalars (several targets)
                if self.n_data > 0 {
                    if self.rng.chance(1, 3) {
                        if let Some(a) = self.pick_arr(Some(false)) {
                            let e = self.element(&a);
                            self.feat("read-statement:element");
                            out.push(format!("{}READ {}", ind, e));
                        }
                    } else if self.rng.chance(1, 2) {
                        // several targets, elements among them: the targets are read one after the other (a later
                        // subscript sees the value an earlier target received)
                        if let Some(a) = self.pick_arr(Some(false)) {
                            let e1 = self.element(&a);
                            let e2 = self.element(&a);
                            self.feat("read-statement:mixed-targets");
                            let ints: Vec<Arr> = self.arrs.iter().filter(|b| b.ty == T::Int && b.dims.len() == 1).cloned().collect();
                            match (ints.first(), self.rng.below(3)) {
                                (Some(b), 0) => {
                                    let (lo, _) = b.dims[0];
                                    self.feat("read-statement:subscript-reads-earlier-target");
                                    out.push(format!("{}READ {}({}), {}({}({}))", ind, b.name, lo, b.name, b.name, lo));
                                }
                                (_, 1) => out.push(format!("{}READ X%, {}, {}", ind, e1, e2)),
                                _ => out.push(format!("{}READ {}, X%, {}", ind, e1, e2)),
                            }
                        }
                    } else {
                        self.feat("read-statement:scalars");
                        out.push(format!("{}READ X%, W#", ind));
                    }
                }
            }
            92..=94 => {
                // the DIM statement runs again: the array is empty again
                if ind.is_empty() {
                    let fresh = Arr { name: format!("N{}%", self.arrs.len()), ty: T::Int, dims: vec![(0, 2)] };
                    out.push(format!("{}FOR G% = 1 TO 2", ind));
                    out.push(format!("{}  DIM {}(2)", ind, fresh.name));
                    out.push(format!("{}  PRINT {}(G%);", ind, fresh.name));
                    out.push(format!("{}  {}(G%) = G% + 4", ind, fresh.name));
                    out.push(format!("{}  PRINT {}(G%)", ind, fresh.name));
                    out.push(format!("{}NEXT", ind));
                    self.arrs.push(fresh);
                    self.feat("dim-runs-again");
                }
            }
            _ => {
                if let Some(b) = self.bound_call() {
                    out.push(format!("{}X% = {}", ind, b));
                    out.push(format!("{}PRINT X%", ind));
                }
            }
        }
    }

    fn program(&mut self) -> String {
        let mut lines: Vec<String> = vec![];
        lines.push("I% = 2: J% = 1: K% = -1: L& = 3: M& = 40000".to_owned());
        lines.push("S! = 1.5: R! = -.5: D# = 2.5: Z% = 0".to_owned());
        if self.rng.chance(2, 3) {
            let n = self.rng.range(1, 5) as usize;
            let items: Vec<String> = (0..n)
                .map(|_| (*self.rng.pick(&["1", "2", "-3", "2.5", "40000", "7", "0.25", "100000", "1.5"])).to_owned())
                .collect();
            self.n_data = n;
            lines.push(format!("DATA {}", items.join(", ")));
        }
        // the arrays
        let n_arr = self.rng.range(1, 4) as usize;
        let tys = [T::Int, T::Long, T::Sgl, T::Dbl, T::Str];
        for k in 0..n_arr {
            let ty = if k == 0 && self.rng.chance(2, 3) { T::Int } else { *self.rng.pick(&tys) };
            let mut dims = self.new_dims();
            if k == 0 && ty == T::Int && self.rng.chance(2, 3) {
                dims.truncate(1);
            }
            let a = Arr { name: format!("A{}{}", k, sfx(ty)), ty, dims };
            let redim = self.rng.chance(1, 8);
            if redim {
                self.feat("redim");
            }
            let text = self.dim_text(&a, if redim { "REDIM" } else { "DIM" });
            self.feat(match a.dims.len() {
                1 => "rank-1",
                2 => "rank-2",
                _ => "rank-3",
            });
            if a.dims.iter().any(|(lo, _)| *lo < 0) {
                self.feat("negative-bound");
            }
            if self.faults && self.rng.chance(1, 25) {
                self.feat("dim:fault");
                let bad = *self.rng.pick(&["3 TO 1", "M&", "1 TO 2, 5 TO 4", "-40000 TO 1", "K%", "1 TO 0, 1 TO M&"]);
                lines.push(format!("DIM {}({})", a.name, bad));
            } else {
                lines.push(text);
            }
            self.arrs.push(a.clone());
            if redim && self.rng.chance(1, 2) {
                // fill, then REDIM again with other bounds: the contents are gone
                let e = self.element(&a);
                lines.push(format!("{} = {}", e, if a.ty == T::Str { "\"z\"".to_owned() } else { "7".to_owned() }));
                let mut dims2 = self.new_dims();
                while dims2.len() != a.dims.len() {
                    dims2 = self.new_dims();
                }
                let a2 = Arr { name: a.name.clone(), ty: a.ty, dims: dims2 };
                let t2 = self.dim_text(&a2, "REDIM");
                lines.push(t2);
                let last = self.arrs.len() - 1;
                self.arrs[last] = a2;
            }
        }
        let n = self.rng.range(4, 10);
        for _ in 0..n {
            self.stmt(2, &mut lines, "");
        }
        // observe everything at the end
        let all = self.arrs.clone();
        for a in all.iter().take(2) {
            self.dump(a, &mut lines, "");
        }
        lines.join("\n") + "\n"
    }
}

fn gen_dedicated(rng: &mut Rng, faults: bool) -> (String, Vec<&'static str>) {
    let mut g = G { rng, arrs: vec![], faults, feats: vec![], counters: vec![], depth: 0, n_data: 0 };
    let text = g.program();
    let _ = g.depth;
    (text, g.feats)
}

// ------------------------------------------------------------------------------------------------

struct Case {
    text: String,
    prog: String,
    tables: String,
    code: String,
    feats: String,
}

fn disagree(real: &Observed, m: &(String, Vec<u8>, String)) -> Option<&'static str> {
    if real.outcome != m.0 {
        return Some("outcome");
    }
    if real.out != m.1 {
        return Some("output");
    }
    None
}

/// which of the three comparisons fail for a program text (used by the shrinker and the debug mode)
fn verdicts(text: &str) -> Option<(Observed, String, String, String)> {
    let (pp, code) = arrl_sx::src_and_code(text)?;
    let real = run_real(text, b"", BUDGET);
    let ans = ask(&[
        format!("(arrl.compare {} {} {})", pp.program, pp.tables, code),
        format!("(arrl.run {} {})", BUDGET, pp.program),
        format!("(arrl.ref {} {})", FUEL, pp.program),
    ]);
    Some((real, ans[0].clone(), ans[1].clone(), ans[2].clone()))
}

fn fails(text: &str, which: &str, what: &str) -> bool {
    let Some((real, cmp, vm, rf)) = verdicts(text) else { return false };
    if real.outcome == "budget" {
        return false;
    }
    match which {
        "compile" => !cmp.starts_with("(same") && !cmp.starts_with("(not-core"),
        "vm" => parse_ref_answer(&vm).map(|m| m.0 != "outOfFuel" && m.0 != "stuck" && disagree(&real, &m) == Some(if what == "outcome" { "outcome" } else { "output" })).unwrap_or(false),
        _ => parse_ref_answer(&rf)
            .map(|m| m.0 != "outOfFuel" && m.0 != "inexact" && m.0 != "illFormed" && m.0 != "tooBig" && disagree(&real, &m) == Some(if what == "outcome" { "outcome" } else { "output" }))
            .unwrap_or(false),
    }
}

fn shrink(text: &str, which: &str, what: &str) -> String {
    let deadline = std::time::Instant::now() + std::time::Duration::from_secs(20);
    let mut lines: Vec<String> = text.lines().map(|l| l.to_owned()).collect();
    let mut changed = true;
    let mut rounds = 0;
    while changed && rounds < 6 && std::time::Instant::now() < deadline {
        changed = false;
        rounds += 1;
        let mut i = 0;
        while i < lines.len() && std::time::Instant::now() < deadline {
            let mut cand = lines.clone();
            cand.remove(i);
            let t = cand.join("\n") + "\n";
            if fails(&t, which, what) {
                lines = cand;
                changed = true;
                continue;
            }
            i += 1;
        }
    }
    lines.join("\n") + "\n"
}

fn main() {
    if let Some(path) = std::env::args().nth(1) {
        let text = std::fs::read_to_string(path).unwrap();
        match verdicts(&text) {
            None => {
                let t = text.clone();
                let why = std::panic::catch_unwind(move || match rusty_parser::parse_main_str(t) {
                    Err(e) => format!("parser: {:?}", e),
                    Ok(p) => match rusty_linter::core::lint(p) {
                        Err(e) => format!("linter: {:?}", e),
                        Ok(_) => "accepted by the front end, outside the modelled language".to_owned(),
                    },
                })
                .unwrap_or_else(|_| "front end panicked".to_owned());
                println!("not compared: {}", why);
            }
            Some((real, cmp, vm, rf)) => {
                println!("real    {} / {:?}", real.outcome, String::from_utf8_lossy(&real.out));
                println!("compare {}", cmp);
                println!("vm      {:?}", parse_ref_answer(&vm).map(|m| (m.0, String::from_utf8_lossy(&m.1).to_string())));
                println!("ref     {:?}", parse_ref_answer(&rf).map(|m| (m.0, String::from_utf8_lossy(&m.1).to_string())));
            }
        }
        return;
    }
    std::panic::set_hook(Box::new(|_| {}));
    let mut rng = Rng::from_env();
    let mut rep = Report::new(
        "C04",
        "programs with arrays of scalars (core language, no procedures): a dedicated generator — arrays of the five element types, 1-3 \
         dimensions, zero / positive / negative lower bounds, bounds given as INTEGER / LONG / SINGLE / DOUBLE expressions computed at run \
         time and as fractional literals, DIM faults (reversed bounds, bounds beyond INTEGER), REDIM (again with other bounds), a DIM \
         that runs again inside a loop; subscripts of every numeric type (literals, fractional literals, INTEGER / LONG / SINGLE / DOUBLE \
         expressions, FOR counters, elements of an INTEGER array, LBOUND / UBOUND) inside the box, on every face, just beyond a face, far \
         beyond, beyond the INTEGER range, wrong number of subscripts; stores of every numeric type into every element type (conversion, \
         Overflow), element-to-element copies, aliased subscripts A(A(i)) = ..., never-assigned elements, elements in PRINT / IF / SELECT \
         CASE / FOR bounds / WHILE conditions, READ into elements, LBOUND / UBOUND with no / literal / variable / computed / element / \
         out-of-range dimension; a dump of all elements of two arrays at the end of every program (a store changes nothing else); each \
         program: model-compiled instruction list = real list, VM model on it = real outcome and stdout, reference semantics = real \
         outcome and stdout. class = (feature set, outcome kind).",
    );
    let thorough = rep.is_thorough();
    let n_ded = if thorough { 8_000 } else { 500 };
    let mut cases: Vec<Case> = vec![];
    let mut outside = 0u64;
    let mut shown_outside = 0;
    for k in 0..n_ded {
        let (text, feats) = gen_dedicated(&mut rng, k % 3 == 0);
        match arrl_sx::src_and_code(&text) {
            Some((pp, code)) => cases.push(Case { text, prog: pp.program, tables: pp.tables, code, feats: feats.join("+") }),
            None => {
                outside += 1;
                if let Ok(dir) = std::env::var("VERIF_C04L_DUMP") {
                    let _ = std::fs::write(format!("{}/rej{}.bas", dir, k), &text);
                }
                if shown_outside < 2 {
                    shown_outside += 1;
                    rep.sample(J::s(format!("rejected by the front end or outside the modelled language:\n{}", text)));
                }
            }
        }
    }
    rep.bump_by("generated.dedicated", n_ded as u64);
    rep.bump_by("generated.dedicated.rejected-or-outside", outside);
    // real runs, in parallel
    let reals: Vec<Observed> = {
        let texts: Vec<String> = cases.iter().map(|c| c.text.clone()).collect();
        let n_threads = 8;
        let chunk = (texts.len() + n_threads - 1) / n_threads.max(1);
        let mut handles = vec![];
        for part in texts.chunks(chunk.max(1)) {
            let part: Vec<String> = part.to_vec();
            handles.push(std::thread::spawn(move || part.iter().map(|t| run_real(t, b"", BUDGET)).collect::<Vec<_>>()));
        }
        handles.into_iter().flat_map(|h| h.join().unwrap()).collect()
    };
    let canswers = ask(&cases.iter().map(|c| format!("(arrl.compare {} {} {})", c.prog, c.tables, c.code)).collect::<Vec<_>>());
    let vanswers = ask(&cases.iter().map(|c| format!("(arrl.run {} {})", BUDGET, c.prog)).collect::<Vec<_>>());
    let ranswers = ask(&cases.iter().map(|c| format!("(arrl.ref {} {})", FUEL, c.prog)).collect::<Vec<_>>());
    // how many explored programs satisfy the premise of ArrL.compile_correct (decided by the checker
    // RbModel.ArrL.progWfB, proved sound in Thm/ArrLWf.lean)
    let wanswers = ask(&cases.iter().map(|c| format!("(arrl.wf {})", c.prog)).collect::<Vec<_>>());
    let mut outside_shown = 0;
    for (k, a) in wanswers.iter().enumerate() {
        if a.starts_with("(wf true") {
            rep.bump("theorem-premise.progWfB-true");
        } else if a.starts_with("(wf false") {
            rep.bump("theorem-premise.progWfB-false");
            if outside_shown < 2 {
                outside_shown += 1;
                rep.sample(J::s(format!("outside the premise of ArrL.compile_correct:\n{}", cases[k].text)));
            }
        } else {
            rep.bump("theorem-premise.unreadable");
        }
    }
    let mut shrunk = 0;
    for (k, c) in cases.iter().enumerate() {
        let real = &reals[k];
        let okind = real.outcome.split(' ').take(2).collect::<Vec<_>>().join(" ");
        rep.case(Some(format!("{}|{}", c.feats, okind)));
        rep.bump(&format!("outcome.{}", okind));
        if c.feats.contains("read-statement:mixed-targets") {
            rep.bump("feature.read-several-targets-with-elements");
        }
        if c.feats.contains("read-statement:subscript-reads-earlier-target") {
            rep.bump("feature.read-subscript-sees-earlier-target");
        }
        if k < 2 || k == cases.len() - 1 {
            rep.sample(J::s(c.text.clone()));
        }
        // 1. the generator model
        let a = &canswers[k];
        if a.starts_with("(same") {
            rep.bump("compile-model.same");
            let n: u64 = a.trim_matches(|ch| ch == '(' || ch == ')').split(' ').nth(1).and_then(|x| x.parse().ok()).unwrap_or(0);
            rep.bump_by("compile-model.instructions-compared", n);
        } else if a.starts_with("(not-core") {
            rep.bump("compile-model.instruction-outside-model");
        } else {
            let parts: Vec<&str> = a.trim_matches(|ch| ch == '(' || ch == ')').split(' ').collect();
            let kind: String = parts
                .get(2)
                .map(|x| x.split('@').next().unwrap_or("").chars().take_while(|ch| !ch.is_ascii_digit() && *ch != ':').collect())
                .unwrap_or_default();
            let text = if shrunk < 4 {
                shrunk += 1;
                shrink(&c.text, "compile", "")
            } else {
                c.text.clone()
            };
            rep.fail(Failure {
                kind: Kind::ModelVsImpl,
                signature: format!("arrl-compile:{}:{}", parts.first().unwrap_or(&"?"), kind),
                input: text,
                implementation: a.clone(),
                expected: "RbModel.ArrL.Compile.compile = normalise(real instruction list)".into(),
                note: "(differ <index> <model instr> <real instr> <model len> <real len>) | (ill-formed) | (bad-op)".into(),
            });
        }
        if real.outcome == "budget" {
            rep.bump("discarded.real-budget");
            continue;
        }
        // 2. the VM model
        match parse_ref_answer(&vanswers[k]) {
            None => rep.bump("vm-model.unreadable"),
            Some(vm) => {
                if vm.0 == "outOfFuel" {
                    rep.bump("vm-model.discarded-fuel");
                } else if vm.0 == "stuck" {
                    rep.bump("vm-model.stuck-or-inexact");
                } else if let Some(what) = disagree(real, &vm) {
                    let text = if shrunk < 4 {
                        shrunk += 1;
                        shrink(&c.text, "vm", what)
                    } else {
                        c.text.clone()
                    };
                    rep.fail(Failure {
                        kind: Kind::ModelVsImpl,
                        signature: format!("arrl-vm:{}", what),
                        input: text,
                        implementation: format!("{} / {:?}", real.outcome, String::from_utf8_lossy(&real.out)),
                        expected: format!("{} / {:?}", vm.0, String::from_utf8_lossy(&vm.1)),
                        note: "real pipeline vs RbModel.ArrL.Vm.run (RbModel.ArrL.Compile.compile p) (before shrinking)".into(),
                    });
                } else {
                    rep.bump("vm-model.same");
                }
            }
        }
        // 3. the reference semantics
        match parse_ref_answer(&ranswers[k]) {
            None => {
                rep.fail(Failure {
                    kind: Kind::ModelVsImpl,
                    signature: "arrl-ref:unreadable".into(),
                    input: c.text.clone(),
                    implementation: c.prog.chars().take(300).collect(),
                    expected: ranswers[k].clone(),
                    note: "the Lean reader rejected the serialised program".into(),
                });
            }
            Some(rf) => {
                if rf.0 == "inexact" {
                    rep.bump("ref.discarded-inexact-float");
                } else if rf.0 == "illFormed" || rf.0 == "tooBig" {
                    rep.bump(&format!("ref.outside-language.{}", rf.0));
                } else if rf.0 == "outOfFuel" {
                    rep.bump("ref.discarded-fuel");
                } else if let Some(what) = disagree(real, &rf) {
                    let text = if shrunk < 4 {
                        shrunk += 1;
                        shrink(&c.text, "ref", what)
                    } else {
                        c.text.clone()
                    };
                    rep.fail(Failure {
                        kind: Kind::ImplVsProperty,
                        signature: format!("arrl-ref:{}", what),
                        input: text,
                        implementation: format!("{} / {:?}", real.outcome, String::from_utf8_lossy(&real.out)),
                        expected: format!("{} / {:?}", rf.0, String::from_utf8_lossy(&rf.1)),
                        note: "implementation vs reference semantics RbModel.ArrL.Ref (before shrinking)".into(),
                    });
                } else {
                    rep.bump("ref.same");
                }
            }
        }
    }
    rep.finish();
}
