//! Debug aid: runs program files through run_in_memory, prints the outcome class.
use rusty_basic::interpreter::verif::run_in_memory;
fn main() {
    let args: Vec<String> = std::env::args().collect();
    std::panic::set_hook(Box::new(|info| {
        let loc = info.location().map(|l| format!("{}:{}", l.file(), l.line())).unwrap_or_default();
        let msg = info.payload().downcast_ref::<&str>().map(|s| s.to_string()).or_else(|| info.payload().downcast_ref::<String>().cloned()).unwrap_or_default();
        eprintln!("PANIC at {} : {}", loc, msg);
    }));
    // each program separated by a line "####"; optional stdin after a line "%%%%"
    let text = std::fs::read_to_string(&args[1]).unwrap();
    for chunk in text.split("####\n") {
        if chunk.trim().is_empty() { continue; }
        let (prog, inp) = match chunk.split_once("%%%%\n") { Some((a, b)) => (a.to_string(), b.to_string()), None => (chunk.to_string(), String::new()) };
        let p2 = prog.clone();
        let r = std::panic::catch_unwind(move || run_in_memory(&p2, inp.as_bytes(), 200000, None, false));
        let first = prog.lines().filter(|l| !l.trim().is_empty()).collect::<Vec<_>>().join(" | ");
        match r {
            Err(_) => println!("PANIC    <- {}", first),
            Ok(Err(e)) => println!("REJECTED {:?} <- {}", e, first),
            Ok(Ok(rr)) => match rr.result {
                Ok(()) => println!("OK{} out={:?} <- {}", if rr.budget_exhausted {"(budget)"} else {""}, String::from_utf8_lossy(&rr.stdout).chars().take(60).collect::<String>(), first),
                Err(e) => println!("ERR{} {:?} <- {}", if rr.budget_exhausted {"(budget)"} else {""}, e, first),
            },
        }
    }
}
