//! C06 — a numeric variable only ever holds a value of its own type and range.
//!
//! 1. `Variant::{plus,minus,multiply,divide,modulo,and,or,negate,unary_not,try_cmp}`, `CastVariant::cast`
//!    and the VM's per-operator instruction sequences, called in-process on the boundary set (exhaustive
//!    over all type pairs and operators) and on random values of the exact domain:
//!      * against the property itself (Rust oracle: result tag = static type from `binary_cast`, payload
//!        in range, conversions round half away from zero and raise Overflow exactly when out of range),
//!      * against the Lean model `RbModel.Num` (cases the model reports `inexact` are counted, not compared).
//! 2. Programs through `run_in_memory` with a per-instruction observer: every variable, array element
//!    and record field whose name says its type must hold a value of that tag, in range, at all times.
//!    Families of their own: `builtin-result` (result of a numeric built-in -> variable) and `literal-store`
//!    (literal at the ends of SINGLE / DOUBLE -> variable: finite, or the program is rejected with Overflow).

use std::cell::RefCell;
use std::rc::Rc;

use rb_harness::driver::ask;
use rb_harness::json::J;
use rb_harness::report::{Failure, Kind, Report};
use rb_harness::rng::Rng;
use rusty_basic::interpreter::verif::{Snapshot, run_in_memory};
use rusty_common::AtPos;
use rusty_linter::core::{CastVariant, binary_cast};
use rusty_parser::{Expression, ExpressionType, Operator, TypeQualifier};
use rusty_variant::{Variant, VariantError};

// ---- exact rationals of floats ------------------------------------------------------------------

/// `x = num / den` exactly (`den` a power of two), or `None` when it cannot be written with moderate
/// numbers (not finite, above 2^101 or finer than 2^-100).
fn rat_of_f64(x: f64) -> Option<(i128, u128)> {
    if !x.is_finite() {
        return None;
    }
    if x == 0.0 {
        return Some((0, 1));
    }
    let bits = x.to_bits();
    let neg = (bits >> 63) == 1;
    let exp = ((bits >> 52) & 0x7FF) as i64;
    let frac = bits & 0xF_FFFF_FFFF_FFFF;
    let (mut m, mut e): (u128, i64) = if exp == 0 { (frac as u128, -1074) } else { ((frac | (1 << 52)) as u128, exp - 1075) };
    while m % 2 == 0 && e < 0 {
        m /= 2;
        e += 1;
    }
    if e >= 0 {
        // up to 2^101 (the model's exact domain ends at 2^100)
        if e + (128 - m.leading_zeros() as i64) > 102 {
            return None;
        }
        let n = (m << e) as i128;
        Some((if neg { -n } else { n }, 1))
    } else {
        if -e > 100 {
            return None;
        }
        let n = m as i128;
        Some((if neg { -n } else { n }, 1u128 << (-e)))
    }
}

fn show_float(tag: &str, x: f64) -> String {
    match rat_of_f64(x) {
        Some((n, d)) => format!("({} {} {})", tag, n, d),
        None => format!("({}-outside {:e})", tag, x),
    }
}

fn show_variant(v: &Variant) -> String {
    match v {
        Variant::VInteger(i) => format!("(int {})", i),
        Variant::VLong(i) => format!("(long {})", i),
        Variant::VSingle(f) => show_float("sgl", *f as f64),
        Variant::VDouble(f) => show_float("dbl", *f),
        Variant::VString(s) => format!("(str {})", rb_harness::sx::chars(s)),
        other => format!("(other {:?})", other),
    }
}

fn err_name(dbg: &str) -> String {
    match dbg {
        "Overflow" => "overflow".into(),
        "DivisionByZero" => "divisionByZero".into(),
        "TypeMismatch" => "typeMismatch".into(),
        other => other.to_owned(),
    }
}

fn show_res<E: std::fmt::Debug>(r: &Result<Variant, E>) -> String {
    match r {
        Ok(v) => format!("(ok {})", show_variant(v)),
        Err(e) => format!("(err {})", err_name(&format!("{:?}", e))),
    }
}

// ---- types, operators --------------------------------------------------------------------------

const TYS: [(&str, TypeQualifier); 5] = [
    ("int", TypeQualifier::PercentInteger),
    ("long", TypeQualifier::AmpersandLong),
    ("sgl", TypeQualifier::BangSingle),
    ("dbl", TypeQualifier::HashDouble),
    ("str", TypeQualifier::DollarString),
];

const OPS: [(&str, Operator); 13] = [
    ("plus", Operator::Plus),
    ("minus", Operator::Minus),
    ("multiply", Operator::Multiply),
    ("divide", Operator::Divide),
    ("modulo", Operator::Modulo),
    ("less", Operator::Less),
    ("lessOrEqual", Operator::LessOrEqual),
    ("equal", Operator::Equal),
    ("greaterOrEqual", Operator::GreaterOrEqual),
    ("greater", Operator::Greater),
    ("notEqual", Operator::NotEqual),
    ("and", Operator::And),
    ("or", Operator::Or),
];

fn tag_of(v: &Variant) -> Option<TypeQualifier> {
    match v {
        Variant::VInteger(_) => Some(TypeQualifier::PercentInteger),
        Variant::VLong(_) => Some(TypeQualifier::AmpersandLong),
        Variant::VSingle(_) => Some(TypeQualifier::BangSingle),
        Variant::VDouble(_) => Some(TypeQualifier::HashDouble),
        Variant::VString(_) => Some(TypeQualifier::DollarString),
        _ => None,
    }
}

fn ty_name(q: TypeQualifier) -> &'static str {
    TYS.iter().find(|(_, t)| *t == q).unwrap().0
}

/// The property's notion of "a value of that type": whole number in range, finite float.
fn in_range(v: &Variant) -> bool {
    match v {
        Variant::VInteger(i) => (-32768..=32767).contains(i),
        Variant::VLong(i) => (-2147483648i64..=2147483647).contains(i),
        Variant::VSingle(f) => f.is_finite(),
        Variant::VDouble(f) => f.is_finite(),
        Variant::VString(_) => true,
        _ => false,
    }
}

fn literal_of(q: TypeQualifier) -> Expression {
    match q {
        TypeQualifier::PercentInteger => Expression::IntegerLiteral(1),
        TypeQualifier::AmpersandLong => Expression::LongLiteral(100000),
        TypeQualifier::BangSingle => Expression::SingleLiteral(1.5),
        TypeQualifier::HashDouble => Expression::DoubleLiteral(1.5),
        TypeQualifier::DollarString => Expression::StringLiteral("a".to_owned()),
    }
}

/// The linter's static type of `l op r` (the real `binary_cast`).
fn static_type(op: Operator, l: TypeQualifier, r: TypeQualifier) -> Option<TypeQualifier> {
    match binary_cast(literal_of(l).at_rc(1, 1), literal_of(r).at_rc(1, 5), op) {
        Ok(Expression::BinaryExpression(_, _, _, ExpressionType::BuiltIn(q))) => Some(q),
        _ => None,
    }
}

fn verr(e: VariantError) -> String {
    err_name(&format!("{:?}", e))
}

/// The instruction sequence the generator emits for a binary expression, on the operand values
/// (`instruction_generator/expression.rs`, `handlers/{math,logical,comparison}.rs`).
fn vm_bin(op: Operator, a: Variant, b: Variant) -> Result<Variant, String> {
    use std::cmp::Ordering;
    let lerr = |e: rusty_linter::core::LintError| err_name(&format!("{:?}", e));
    let rel = |a: Variant, b: Variant, p: fn(Ordering) -> bool| a.try_cmp(&b).map(|o| Variant::from(p(o))).map_err(verr);
    match op {
        Operator::Plus => a.plus(b).map_err(verr),
        Operator::Minus => a.minus(b).map_err(verr),
        Operator::Multiply => a.multiply(b).map_err(verr),
        Operator::Modulo => a.modulo(b).map_err(verr),
        Operator::Divide => match (tag_of(&a), tag_of(&b)) {
            (Some(ta), Some(tb)) => match static_type(op, ta, tb) {
                Some(q) => a.divide(b).map_err(verr)?.cast(q).map_err(lerr),
                None => Err("typeMismatch".into()),
            },
            _ => Err("typeMismatch".into()),
        },
        Operator::And => {
            let x = a.cast(TypeQualifier::PercentInteger).map_err(lerr)?;
            let y = b.cast(TypeQualifier::PercentInteger).map_err(lerr)?;
            x.and(y).map_err(verr)
        }
        Operator::Or => {
            let x = a.cast(TypeQualifier::PercentInteger).map_err(lerr)?;
            let y = b.cast(TypeQualifier::PercentInteger).map_err(lerr)?;
            x.or(y).map_err(verr)
        }
        Operator::Less => rel(a, b, |o| o == Ordering::Less),
        Operator::LessOrEqual => rel(a, b, |o| o != Ordering::Greater),
        Operator::Equal => rel(a, b, |o| o == Ordering::Equal),
        Operator::GreaterOrEqual => rel(a, b, |o| o != Ordering::Less),
        Operator::Greater => rel(a, b, |o| o == Ordering::Greater),
        Operator::NotEqual => rel(a, b, |o| o != Ordering::Equal),
    }
}

fn show_sres(r: &Result<Variant, String>) -> String {
    match r {
        Ok(v) => format!("(ok {})", show_variant(v)),
        Err(e) => format!("(err {})", e),
    }
}

// ---- value sets ---------------------------------------------------------------------------------

/// Boundary candidates (all exactly representable doubles).
fn candidates() -> Vec<f64> {
    let mut v: Vec<f64> = vec![];
    for (min, max) in [(-32768.0f64, 32767.0f64), (-2147483648.0, 2147483647.0)] {
        v.extend_from_slice(&[min - 1.0, min - 0.5, min, min + 0.5, max - 0.5, max, max + 0.5, max + 1.0]);
    }
    v.extend_from_slice(&[-1.0, -0.5, 0.0, 0.5, 1.0, 1.5, 2.5, -2.5, 0.25, 3.0, 7.0, -7.0, 128.0, 181.0, 182.0, 256.0, -256.0]);
    v.extend_from_slice(&[46340.0, 46341.0, 65536.0, 100000.0, -100000.0]);
    // around the comparison / fit thresholds (1e-5, 1e-4)
    v.extend_from_slice(&[2f64.powi(-17), 2f64.powi(-16), 2f64.powi(-14), 2f64.powi(-13), 3.0 + 2f64.powi(-14), 3.0 - 2f64.powi(-17)]);
    // around the single / double precision limits
    v.extend_from_slice(&[16777215.0, 16777216.0, 16777217.0, 9007199254740992.0, 4503599627370496.5]);
    // whole numbers around the end of the 64-bit integers and of `fit_to_type`'s `< 9.0e18` guard
    // (9.0e18 as f64, 9.0e18 as f32 and its f32 predecessor), and far beyond (1E+30, 2^99)
    v.extend_from_slice(&[
        4611686018427387904.0,
        9.0e18 - 1024.0,
        9.0e18,
        8999999652602314752.0,
        9000000202358128640.0,
        9223372036854775808.0,
        -9223372036854775808.0,
        18446744073709551616.0,
        1e30,
        -1e30,
        633825300114114700748351602688.0,
    ]);
    v
}

/// Whole numbers built exactly: small integers times powers of two (up to 2^100) and of ten (up to 1E+22, the
/// largest exact power of ten, times powers of two up to 1E+30).
fn big_wholes() -> Vec<f64> {
    let mut v = vec![];
    for k in [1.0f64, 3.0, 5.0, 7.0, 1023.0] {
        for j in (28..=98).step_by(2) {
            let x = k * 2f64.powi(j);
            if x < 2f64.powi(100) {
                v.push(x);
                v.push(-x);
            }
        }
    }
    for j in 9..=22 {
        let p = 10f64.powi(j); // exact up to 1E+22
        for k in [1.0f64, 2.0, 3.0, 256.0, 100000000.0] {
            let x = p * k;
            if x < 1.0e30 * 1.0000001 && (x / p) == k {
                v.push(x);
                v.push(-x);
            }
        }
    }
    v
}

/// What `fit_to_type` must make of the exact whole number `n` (property: the value is kept, the tag is the
/// smallest whole-number type that holds it, DOUBLE beyond the LONG range).
fn fit_reference(n: f64) -> String {
    if (-32768.0..=32767.0).contains(&n) {
        format!("(ok (int {}))", n as i64)
    } else if (-2147483648.0..=2147483647.0).contains(&n) {
        format!("(ok (long {}))", n as i64)
    } else {
        format!("(ok {})", show_float("dbl", n))
    }
}

fn values_of(q: TypeQualifier, cands: &[f64]) -> Vec<Variant> {
    let mut out = vec![];
    for &c in cands {
        match q {
            TypeQualifier::PercentInteger => {
                if c.fract() == 0.0 && (-32768.0..=32767.0).contains(&c) {
                    out.push(Variant::VInteger(c as i32));
                }
            }
            TypeQualifier::AmpersandLong => {
                if c.fract() == 0.0 && (-2147483648.0..=2147483647.0).contains(&c) {
                    out.push(Variant::VLong(c as i64));
                }
            }
            TypeQualifier::BangSingle => {
                if (c as f32) as f64 == c {
                    out.push(Variant::VSingle(c as f32));
                }
            }
            TypeQualifier::HashDouble => out.push(Variant::VDouble(c)),
            TypeQualifier::DollarString => {}
        }
    }
    if q == TypeQualifier::DollarString {
        out.push(Variant::VString(String::new()));
        out.push(Variant::VString("a".into()));
        out.push(Variant::VString("ab".into()));
        out.push(Variant::VString("B".into()));
    }
    out
}

fn random_value(rng: &mut Rng) -> Variant {
    match rng.below(4) {
        0 => Variant::VInteger(match rng.below(4) {
            0 => rng.range(-32768, -32700) as i32,
            1 => rng.range(32700, 32767) as i32,
            2 => rng.range(-300, 300) as i32,
            _ => rng.range(-32768, 32767) as i32,
        }),
        1 => Variant::VLong(match rng.below(4) {
            0 => rng.range(-2147483648, -2147483000),
            1 => rng.range(2147483000, 2147483647),
            2 => rng.range(-70000, 70000),
            _ => rng.range(-2147483648, 2147483647),
        }),
        2 => {
            let k = rng.below(7) as i32;
            let n = match rng.below(3) {
                0 => rng.range(-2000, 2000),
                1 => rng.range(-(1 << 24) + 1, (1 << 24) - 1),
                _ => rng.range(-4_200_000, 4_200_000),
            };
            Variant::VSingle((n as f64 / 2f64.powi(k)) as f32)
        }
        _ => {
            let k = rng.below(7) as i32;
            let n = match rng.below(3) {
                0 => rng.range(-2000, 2000),
                1 => rng.range(-(1 << 40), 1 << 40),
                _ => rng.range(-280_000_000_000, 280_000_000_000),
            };
            Variant::VDouble(n as f64 / 2f64.powi(k))
        }
    }
}

// ---- reference rounding (exact integer arithmetic) ---------------------------------------------------

/// Nearest whole number, ties away from zero, of `n / d` (d > 0).
fn round_half_away(n: i128, d: u128) -> i128 {
    let d = d as i128;
    if n >= 0 { (2 * n + d).div_euclid(2 * d) } else { -((2 * (-n) + d).div_euclid(2 * d)) }
}

fn exact_of(v: &Variant) -> Option<(i128, u128)> {
    match v {
        Variant::VInteger(i) => Some((*i as i128, 1)),
        Variant::VLong(i) => Some((*i as i128, 1)),
        Variant::VSingle(f) => rat_of_f64(*f as f64),
        Variant::VDouble(f) => rat_of_f64(*f),
        _ => None,
    }
}

// ---- program level -------------------------------------------------------------------------------

fn check_named(name: &str, v: &Variant, out: &mut Vec<String>) {
    let want = match name.chars().last() {
        Some('%') => Some(TypeQualifier::PercentInteger),
        Some('&') => Some(TypeQualifier::AmpersandLong),
        Some('!') => Some(TypeQualifier::BangSingle),
        Some('#') => Some(TypeQualifier::HashDouble),
        _ => None,
    };
    match v {
        Variant::VArray(arr) => {
            for i in 0..arr.len() {
                if let Some(e) = arr.get(i) {
                    check_named(name, e, out);
                }
            }
        }
        Variant::VUserDefined(u) => {
            // record fields are named by convention FI / FL / FS / FD in the generated programs
            let names: Vec<String> = u.names().map(|n| n.to_string().to_uppercase()).collect();
            for (n, e) in names.iter().zip(u.values()) {
                let fname = match n.as_str() {
                    "FI" => "FI%",
                    "FL" => "FL&",
                    "FS" => "FS!",
                    "FD" => "FD#",
                    _ => "",
                };
                check_named(fname, e, out);
            }
        }
        _ => {
            // only the program's own variables (upper case by construction); the interpreter's internal
            // slots for built-in function results ("Val!") are not variables of the program
            if name.chars().any(|ch| ch.is_ascii_lowercase()) {
                return;
            }
            if let Some(q) = want {
                if tag_of(v) != Some(q) {
                    out.push(format!("{} holds {} (wrong tag)", name, show_variant(v)));
                } else if !in_range(v) {
                    out.push(format!("{} holds {} (out of range)", name, show_variant(v)));
                }
            }
        }
    }
}

struct ProgOutcome {
    violations: Vec<String>,
    result: String,
    checked_values: u64,
}

fn run_observed(text: &str, stdin: &[u8]) -> ProgOutcome {
    run_observed_watch(text, stdin, None).0
}

/// `run_observed`, and the last value seen in the variable `watch` (any memory block).
fn run_observed_watch(text: &str, stdin: &[u8], watch: Option<&str>) -> (ProgOutcome, Option<Variant>) {
    let viol: Rc<RefCell<Vec<String>>> = Rc::new(RefCell::new(vec![]));
    let count: Rc<RefCell<u64>> = Rc::new(RefCell::new(0));
    let seen: Rc<RefCell<Option<Variant>>> = Rc::new(RefCell::new(None));
    let v2 = viol.clone();
    let c2 = count.clone();
    let s2 = seen.clone();
    let watch_owned: Option<String> = watch.map(|w| w.to_owned());
    let observer = Box::new(move |s: &Snapshot| {
        if let Some(blocks) = &s.vars {
            for b in blocks {
                for (name, value) in b {
                    *c2.borrow_mut() += 1;
                    if watch_owned.as_deref() == Some(name.as_str()) {
                        *s2.borrow_mut() = Some(value.clone());
                    }
                    let mut out = vec![];
                    check_named(name, value, &mut out);
                    if !out.is_empty() {
                        let mut v = v2.borrow_mut();
                        for o in out {
                            if v.len() < 5 && !v.contains(&o) {
                                v.push(o);
                            }
                        }
                    }
                }
            }
        }
    });
    let text_owned = text.to_owned();
    let stdin_owned = stdin.to_vec();
    let r = std::panic::catch_unwind(std::panic::AssertUnwindSafe(|| {
        run_in_memory(&text_owned, &stdin_owned, 200_000, Some(observer), true)
    }));
    let result = match r {
        Ok(Ok(r)) => match r.result {
            Ok(()) => format!("ok stdout={:?}", String::from_utf8_lossy(&r.stdout)),
            Err(e) => format!("runtime-error {:?}", e),
        },
        Ok(Err(e)) => format!("front-end-error {:?}", e),
        Err(_) => "panic".to_owned(),
    };
    let violations = viol.borrow().clone();
    let checked_values = *count.borrow();
    let last = seen.borrow().clone();
    (ProgOutcome { violations, result, checked_values }, last)
}

/// Runs a program too large for the per-instruction dump and reads the value of `var` from the single
/// number the program prints; the value is checked against the variable's declared type like a dumped one.
fn run_printed(text: &str, var: &str) -> (ProgOutcome, Option<Variant>) {
    let text_owned = text.to_owned();
    let r = std::panic::catch_unwind(std::panic::AssertUnwindSafe(|| run_in_memory(&text_owned, b"", 5_000_000, None, false)));
    let mut last: Option<Variant> = None;
    let result = match r {
        Ok(Ok(r)) => {
            let out = String::from_utf8_lossy(&r.stdout).trim().to_owned();
            if let Ok(n) = out.parse::<i64>() {
                // the program prints an INTEGER variable: the carrier of an INTEGER is an i32
                last = Some(if var.ends_with('%') && i32::try_from(n).is_ok() { Variant::VInteger(n as i32) } else { Variant::VLong(n) });
            }
            match r.result {
                Ok(()) => format!("ok stdout={:?}", String::from_utf8_lossy(&r.stdout)),
                Err(e) => format!("runtime-error {:?}", e),
            }
        }
        Ok(Err(e)) => format!("front-end-error {:?}", e),
        Err(_) => "panic".to_owned(),
    };
    let mut violations = vec![];
    if let Some(v) = &last {
        check_named(var, v, &mut violations);
    }
    (ProgOutcome { violations, result, checked_values: last.is_some() as u64 }, last)
}

// ---- built-in function results -----------------------------------------------------------------------

/// One program of the family `builtin-result`: the result of the built-in `func` is stored in `var`
/// (declared by suffix); `req` is the driver request for what the built-in hands over (`None`: only the
/// property is checked).
struct BuiltinCase {
    func: &'static str,
    text: String,
    var: String,
    req: Option<String>,
    /// run without the per-instruction observer (programs with tens of thousands of variables):
    /// the value is read from the program's own `PRINT` of the variable
    unobserved: bool,
}

/// A string expression of `n` blanks (`SPACE$` takes an INTEGER).
fn spaces_expr(n: usize) -> String {
    if n == 0 {
        return "\"\"".to_owned();
    }
    let mut parts: Vec<String> = vec![];
    let mut left = n;
    while left > 0 {
        let k = left.min(32767);
        parts.push(format!("SPACE$({})", k));
        left -= k;
    }
    parts.join(" + ")
}

fn builtin_cases(rng: &mut Rng, thorough: bool) -> Vec<BuiltinCase> {
    let mut cases: Vec<BuiltinCase> = vec![];
    let mut add = |func: &'static str, text: String, var: &str, req: Option<String>| {
        cases.push(BuiltinCase { func, text: format!("{}Z9% = 0\n", text), var: var.to_owned(), req, unobserved: false });
    };
    let lens: [usize; 9] = [0, 1, 255, 32766, 32767, 32768, 32777, 65536, 70000];
    // LEN of a string of every boundary length, stored in a variable of the static type (INTEGER: no Cast) ...
    for &n in &lens {
        add("len", format!("A$ = {}\nL% = LEN(A$)\n", spaces_expr(n)), "L%", Some(format!("(bres.len (rep {} 32 ()))", n)));
        add("len", format!("L% = LEN({})\n", spaces_expr(n)), "L%", Some(format!("(bres.len (rep {} 32 ()))", n)));
    }
    // ... and in the other numeric types (a Cast follows; the call itself must already have raised Overflow),
    // as an array element, a record field, a by-value parameter, a function result, an array bound
    for &n in &[32767usize, 32777] {
        let req = Some(format!("(bres.len (rep {} 32 ()))", n));
        for sfx in ["&", "!", "#"] {
            add("len", format!("A$ = {}\nL{} = LEN(A$)\n", spaces_expr(n), sfx), &format!("L{}", sfx), req.clone());
        }
        add("len", format!("DIM ARR%(1 TO 2)\nA$ = {}\nARR%(2) = LEN(A$)\nL% = ARR%(2)\n", spaces_expr(n)), "L%", req.clone());
        add("len", format!("TYPE T\n FI AS INTEGER\nEND TYPE\nDIM R AS T\nA$ = {}\nR.FI = LEN(A$)\nL% = R.FI\n", spaces_expr(n)), "L%", req.clone());
        add("len", format!("DECLARE SUB P (X%)\nDIM SHARED L%\nA$ = {}\nP LEN(A$)\nSUB P (X%)\n L% = X%\nEND SUB\n", spaces_expr(n)), "L%", req.clone());
        add("len", format!("DECLARE FUNCTION F% (S$)\nA$ = {}\nL% = F%(A$)\nFUNCTION F% (S$)\n F% = LEN(S$)\nEND FUNCTION\n", spaces_expr(n)), "L%", req.clone());
        add("len", format!("A$ = {}\nFOR L% = LEN(A$) TO LEN(A$)\nNEXT\n", spaces_expr(n)), "L%", None);
        add("len", format!("A$ = {}\nDIM X(LEN(A$) TO LEN(A$))\nL% = UBOUND(X)\n", spaces_expr(n)), "L%", req.clone());
        add("len", format!("A$ = {}\nL% = LEN(A$) - 10\n", spaces_expr(n)), "L%", None);
    }
    // LEN of the four numeric scalars
    for (sfx, v) in [("%", "(int 0)"), ("&", "(long 0)"), ("!", "(sgl 0 1)"), ("#", "(dbl 0 1)")] {
        add("len", format!("X{} = 0\nL% = LEN(X{})\n", sfx, sfx), "L%", Some(format!("(bres.len {})", v)));
    }
    // LEN of a record whose fields add up to every boundary size (fixed-length strings, an INTEGER, a nested record)
    for (a, b) in [(100usize, 5usize), (32766, 1), (32767, 1), (32767, 10), (32000, 32000)] {
        add(
            "len",
            format!("TYPE T\n S AS STRING * {}\n U AS STRING * {}\nEND TYPE\nDIM R AS T\nL% = LEN(R)\n", a, b),
            "L%",
            Some(format!("(bres.lenrec (rep {} 32 ()) (rep {} 32 ()))", a, b)),
        );
    }
    for a in [32765usize, 32766] {
        add(
            "len",
            format!("TYPE T\n S AS STRING * {}\n FI AS INTEGER\nEND TYPE\nDIM R AS T\nL% = LEN(R)\n", a),
            "L%",
            Some(format!("(bres.lenrec (rep {} 32 ()) (int 0))", a)),
        );
        add(
            "len",
            format!("TYPE I\n FD AS DOUBLE\n FL AS LONG\nEND TYPE\nTYPE T\n S AS STRING * {}\n N AS I\nEND TYPE\nDIM R AS T\nL% = LEN(R)\n", a - 10),
            "L%",
            Some(format!("(bres.lenrec (rep {} 32 ()) (dbl 0 1) (long 0))", a - 10)),
        );
    }
    // INSTR: the needle at every boundary position, with and without a start position, not found, empty operands
    for &n in &[0usize, 5, 32765, 32766, 32767, 32777, 69999] {
        add(
            "instr",
            format!("A$ = {} + \"X\"\nP% = INSTR(A$, \"X\")\n", spaces_expr(n)),
            "P%",
            Some(format!("(bres.instr 1 (rep {} 32 (88)) (str (88)))", n)),
        );
        add(
            "instr",
            format!("A$ = {} + \"XY\"\nP% = INSTR(A$, \"XY\")\n", spaces_expr(n)),
            "P%",
            Some(format!("(bres.instr 1 (rep {} 32 (88 89)) (str (88 89)))", n)),
        );
        for start in [2usize, 32767] {
            add(
                "instr",
                format!("A$ = {} + \"X\"\nP% = INSTR({}, A$, \"X\")\n", spaces_expr(n), start),
                "P%",
                Some(format!("(bres.instr {} (rep {} 32 (88)) (str (88)))", start, n)),
            );
        }
        add(
            "instr",
            format!("A$ = {} + \"X\"\nP% = INSTR(A$, \"Y\")\nQ% = INSTR(A$, \"\")\n", spaces_expr(n)),
            "P%",
            Some(format!("(bres.instr 1 (rep {} 32 (88)) (str (89)))", n)),
        );
        add(
            "instr",
            format!("A$ = {} + \"X\"\nP& = INSTR(A$, \"X\")\n", spaces_expr(n)),
            "P&",
            Some(format!("(bres.instr 1 (rep {} 32 (88)) (str (88)))", n)),
        );
    }
    add("instr", "P% = INSTR(\"\", \"X\")\n".to_owned(), "P%", Some("(bres.instr 1 (str ()) (str (88)))".to_owned()));
    add("instr", "P% = INSTR(\"abc\", \"\")\n".to_owned(), "P%", Some("(bres.instr 1 (str (97 98 99)) (str ()))".to_owned()));
    // VARPTR: a variable behind a string of every boundary length (the offset is the size of what precedes it),
    // and an element far inside a large array
    for &n in &[0usize, 32766, 32767, 32768, 32777, 70000] {
        add(
            "varptr",
            format!("A$ = {}\nB% = 1\nP% = VARPTR(B%)\n", spaces_expr(n)),
            "P%",
            Some(format!("(bres.varptr {})", n)),
        );
    }
    for k in [1usize, 8192, 8193, 20000] {
        add(
            "varptr",
            format!("DIM A(1 TO 20000) AS LONG\nP% = VARPTR(A({}))\n", k),
            "P%",
            Some(format!("(bres.varptr {})", (k - 1) * 4)),
        );
    }
    // VARSEG: a plain variable, an element of the first and second array
    add("varseg", "B% = 1\nS% = VARSEG(B%)\n".to_owned(), "S%", Some("(bres.varseg f 0)".to_owned()));
    add("varseg", "DIM A(1)\nS% = VARSEG(A(1))\n".to_owned(), "S%", Some("(bres.varseg t 0)".to_owned()));
    add("varseg", "DIM A(1)\nDIM B(1)\nS% = VARSEG(B(1))\n".to_owned(), "S%", Some("(bres.varseg t 1)".to_owned()));
    // LBOUND / UBOUND at the ends of the INTEGER range (bounds are converted when the array is allocated)
    for (lo, hi) in [(-32768i64, -32768i64), (32767, 32767), (0, 0), (-1, 1), (32760, 32767), (-32768, -32760)] {
        let lo_s = if lo == -32768 { "(-32767 - 1)".to_owned() } else { format!("{}", lo) };
        let hi_s = if hi == -32768 { "(-32767 - 1)".to_owned() } else { format!("{}", hi) };
        add("lbound", format!("DIM A({} TO {}) AS INTEGER\nB% = LBOUND(A)\n", lo_s, hi_s), "B%", Some(format!("(bres.lbound {} {})", lo, hi)));
        add("ubound", format!("DIM A({} TO {}) AS INTEGER\nB% = UBOUND(A)\n", lo_s, hi_s), "B%", Some(format!("(bres.ubound {} {})", lo, hi)));
        add("ubound", format!("LO& = {}\nHI# = {}\nDIM A(LO& TO HI#) AS INTEGER\nB% = UBOUND(A)\n", lo_s, hi_s), "B%", Some(format!("(bres.ubound {} {})", lo, hi)));
    }
    add("ubound", "DIM A(1 TO 2, -5 TO 32767) AS INTEGER\nB% = UBOUND(A, 2)\n".to_owned(), "B%", Some("(bres.ubound -5 32767)".to_owned()));
    add("lbound", "DIM A(1 TO 2, -5 TO 32767) AS INTEGER\nB% = LBOUND(A, 2)\n".to_owned(), "B%", Some("(bres.lbound -5 32767)".to_owned()));
    // ERR: no error yet, after Overflow (alternative 3 of get_code), after Division by zero (6), after Subscript out of range (5)
    add("err", "E% = ERR\n".to_owned(), "E%", Some("(bres.err 99)".to_owned()));
    add("err", "ON ERROR RESUME NEXT\nA% = 32767\nA% = A% + 1\nE% = ERR\n".to_owned(), "E%", Some("(bres.err 3)".to_owned()));
    add("err", "ON ERROR RESUME NEXT\nA% = 0\nB% = 1 / A%\nE% = ERR\n".to_owned(), "E%", Some("(bres.err 6)".to_owned()));
    add("err", "ON ERROR RESUME NEXT\nDIM A(1 TO 2)\nA(3) = 1\nE% = ERR\n".to_owned(), "E%", Some("(bres.err 5)".to_owned()));
    // PEEK: both bytes of INTEGERs at the ends of the byte range
    for (x, lo, hi) in [(258i32, 2u8, 1u8), (-1, 255, 255), (255, 255, 0), (-32768, 0, 128)] {
        let xs = if x == -32768 { "(-32767 - 1)".to_owned() } else { format!("{}", x) };
        add("peek", format!("X% = {}\nDEF SEG = VARSEG(X%)\nP% = PEEK(VARPTR(X%))\n", xs), "P%", Some(format!("(bres.peek {})", lo)));
        add("peek", format!("X% = {}\nDEF SEG = VARSEG(X%)\nP% = PEEK(VARPTR(X%) + 1)\n", xs), "P%", Some(format!("(bres.peek {})", hi)));
    }
    // CVD: the eight bytes of NaNs, infinities, the largest and smallest finite numbers, ordinary numbers,
    // random words with the exponent field forced to all ones / near the bias / anything
    let mut words: Vec<[u8; 8]> = vec![
        [255; 8],
        [0, 0, 0, 0, 0, 0, 240, 127],
        [0, 0, 0, 0, 0, 0, 240, 255],
        [0, 0, 0, 0, 0, 0, 248, 127],
        [1, 0, 0, 0, 0, 0, 240, 127],
        [255, 255, 255, 255, 255, 255, 239, 127],
        [255, 255, 255, 255, 255, 255, 239, 255],
        [0, 0, 0, 0, 0, 0, 0, 64],
        [0, 0, 0, 0, 0, 0, 248, 63],
        [0; 8],
        [0, 0, 0, 0, 0, 0, 0, 128],
        [1, 0, 0, 0, 0, 0, 0, 0],
        [0, 0, 0, 0, 0, 0, 16, 0],
        [0, 0, 0, 0, 0, 0, 224, 127],
    ];
    for k in 0..(if thorough { 3000 } else { 300 }) {
        let mut w: u64 = rng.next_u64();
        match k % 3 {
            0 => w |= 0x7FF0_0000_0000_0000,
            1 => {
                let e: u64 = 1023 - 40 + rng.next_u64() % 80;
                w = (w & 0x800F_FFFF_FFFF_FFFF) | (e << 52);
            }
            _ => {}
        }
        words.push(w.to_le_bytes());
    }
    for w in &words {
        let expr: Vec<String> = w.iter().map(|b| format!("CHR$({})", b)).collect();
        let req: Vec<String> = w.iter().map(|b| format!("{}", b)).collect();
        add("cvd", format!("D# = CVD({})\n", expr.join(" + ")), "D#", Some(format!("(bres.cvd {})", req.join(" "))));
    }
    add("cvd", "D# = CVD(MKD$(1.5#))\nE! = CVD(MKD$(2.5#))\n".to_owned(), "D#", Some("(bres.cvd 0 0 0 0 0 0 248 63)".to_owned()));
    // VAL: more digits than a DOUBLE can hold in front of / behind the point (the digit loop is not modelled: only
    // the hand-over of an infinity is compared with the model)
    for n in [5usize, 100, 308, 309, 400, 1000] {
        let req = if n >= 309 { Some("(bres.val nonfinite)".to_owned()) } else { None };
        add("val", format!("D# = VAL(\"1\" + STRING$({}, \"0\"))\n", n), "D#", req.clone());
        add("val", format!("D# = VAL(\"-1\" + STRING$({}, \"0\"))\n", n), "D#", req.clone());
        add("val", format!("D# = VAL(\".\" + STRING$({}, \"1\"))\n", n), "D#", None);
        add("val", format!("D# = VAL(\"-.\" + STRING$({}, \"0\") + \"5\")\n", n), "D#", None);
        add("val", format!("D# = VAL(\"99999999.\" + STRING$({}, \"1\"))\nS! = VAL(\"1\" + STRING$({}, \"0\"))\n", n, n), "D#", None);
    }
    // VARSEG of an element of the 28671st / 28672nd array: 4096 + 28671 = 32767 fits, one more does not
    // (such a program has too many variables for the per-instruction dump: it prints the variable instead)
    for n in [28671usize, 28672] {
        let mut text = String::new();
        for i in 0..n {
            text.push_str(&format!("DIM A{}(1)\n", i));
        }
        text.push_str(&format!("S% = VARSEG(A{}(1))\nPRINT S%\n", n - 1));
        cases.push(BuiltinCase { func: "varseg", text, var: "S%".to_owned(), req: Some(format!("(bres.varseg t {})", n - 1)), unobserved: true });
    }
    cases
}

// ---- literals stored in variables ---------------------------------------------------------------------

/// `2^1024 - 2^970`: the first whole number no DOUBLE holds; `2^128 - 2^103`: the first one no SINGLE holds
/// (halfway between the largest value of the type and the next power of two; the tie rounds up).
const DBL_EDGE: &str = "179769313486231580793728971405303415079934132710037826936173778980444968292764750946649017977587207096330286416692887910946555547851940402630657488671505820681908902000708383676273854845817711531764475730270069855571366959622842914819860834936475292719074168444365510704342711559699508093042880177904174497792";
const DBL_BELOW_EDGE: &str = "179769313486231580793728971405303415079934132710037826936173778980444968292764750946649017977587207096330286416692887910946555547851940402630657488671505820681908902000708383676273854845817711531764475730270069855571366959622842914819860834936475292719074168444365510704342711559699508093042880177904174497791";
const SGL_EDGE: &str = "340282356779733661637539395458142568448";
const SGL_BELOW_EDGE: &str = "340282356779733661637539395458142568447";

/// One program of the family `literal-store`: the literal `lit` (written with sign and suffix) reaches the
/// variable `var` by `route`; `fits` says whether the literal's own type holds the written value.
struct LiteralCase {
    lit: String,
    text: String,
    var: &'static str,
    route: &'static str,
    fits: bool,
}

fn literal_cases() -> Vec<LiteralCase> {
    // (text without sign, fits its own type)
    let nines = "9".repeat(400);
    let ten309 = format!("1{}", "0".repeat(309));
    let lits: Vec<(String, bool)> = vec![
        // SINGLE literals (a fraction, no suffix)
        ("1.5".to_owned(), true),
        ("340282346638528859811704183484516925440.0".to_owned(), true),
        (format!("{}.9", SGL_BELOW_EDGE), true),
        (format!("{}.0", SGL_EDGE), false),
        ("340282366920938463463374607431768211456.0".to_owned(), false),
        (format!("{}.0", DBL_EDGE), false),
        (format!("{}.5", nines), false),
        (format!(".{}1", "0".repeat(60)), true),
        // DOUBLE literals (a fraction and `#`)
        ("1.5#".to_owned(), true),
        (format!("{}.0#", SGL_EDGE), true),
        (format!("{}.9#", DBL_BELOW_EDGE), true),
        (format!("{}.0#", DBL_EDGE), false),
        (format!("{}.0#", ten309), false),
        (format!("{}.5#", nines), false),
        (format!(".{}1#", "0".repeat(400)), true),
        // runs of digits beyond the LONG range (DOUBLE literals without a fraction)
        (SGL_EDGE.to_owned(), true),
        (DBL_BELOW_EDGE.to_owned(), true),
        (DBL_EDGE.to_owned(), false),
        (ten309.clone(), false),
        (nines.clone(), false),
    ];
    let mut out = vec![];
    for (l, fits) in &lits {
        for neg in [false, true] {
            let lit = format!("{}{}", if neg { "-" } else { "" }, l);
            for var in ["X!", "X#"] {
                let sfx = &var[1..];
                let progs: [(&'static str, String); 4] = [
                    ("assign", format!("{v} = {l}\nPRINT {v}\n", v = var, l = lit)),
                    ("const", format!("CONST C = {l}\n{v} = C\nPRINT {v}\n", v = var, l = lit)),
                    ("array", format!("DIM A{s}(1 TO 2)\nA{s}(2) = {l}\n{v} = A{s}(2)\nPRINT {v}\n", s = sfx, v = var, l = lit)),
                    ("param", format!("DECLARE SUB P (V{s})\nP {l}\nSUB P (V{s})\n {v} = V{s}\n PRINT {v}\nEND SUB\n", s = sfx, v = var, l = lit)),
                ];
                for (route, text) in progs {
                    out.push(LiteralCase { lit: lit.clone(), text, var, route, fits: *fits });
                }
            }
        }
    }
    out
}

fn suffix(q: TypeQualifier) -> &'static str {
    match q {
        TypeQualifier::PercentInteger => "%",
        TypeQualifier::AmpersandLong => "&",
        TypeQualifier::BangSingle => "!",
        TypeQualifier::HashDouble => "#",
        TypeQualifier::DollarString => "$",
    }
}

/// A BASIC expression denoting the exact value `c` with static type `q` (built from small literals so
/// that no literal is outside its type: `(-32767 - 1)`, `(2147483647# + 1)` ...). `None` if `q` cannot hold it.
fn basic_expr(q: TypeQualifier, c: f64) -> Option<String> {
    match q {
        TypeQualifier::PercentInteger => {
            if c.fract() == 0.0 && (-32768.0..=32767.0).contains(&c) {
                Some(if c == -32768.0 { "(-32767 - 1)".into() } else { format!("{}", c as i64) })
            } else {
                None
            }
        }
        TypeQualifier::AmpersandLong => {
            if c.fract() == 0.0 && (-2147483648.0..=2147483647.0).contains(&c) {
                // literals above 32767 are LONG; smaller values are built from a LONG zero
                let n = c as i64;
                Some(if n == -2147483648 {
                    "(-2147483647 - 1)".into()
                } else if n > 32767 {
                    format!("{}", n)
                } else if n < -32767 {
                    format!("(-{})", -n)
                } else if n >= 0 {
                    format!("(65536 - 65536 + {})", n)
                } else {
                    format!("(65536 - 65536 - {})", -n)
                })
            } else {
                None
            }
        }
        TypeQualifier::BangSingle | TypeQualifier::HashDouble => {
            let is_single = q == TypeQualifier::BangSingle;
            let fits = if is_single { (c as f32) as f64 == c && c.abs() < 1e15 } else { c.abs() < 1e17 };
            if fits && (c * 1024.0).fract() == 0.0 {
                // whole part plus a fraction in 1024ths; `1.0` is a SINGLE literal, `1.0#` a DOUBLE literal
                let sfx = if is_single { "" } else { "#" };
                let a = c.abs();
                let whole = a.trunc();
                let frac = ((a - whole) * 1024.0) as i64;
                let magnitude = if frac == 0 {
                    format!("{}.0{}", whole as i64, sfx)
                } else {
                    format!("({}.0{} + {}.0{} / 1024.0{})", whole as i64, sfx, frac, sfx, sfx)
                };
                Some(if c < 0.0 { format!("(0.0{} - {})", sfx, magnitude) } else { magnitude })
            } else {
                None
            }
        }
        TypeQualifier::DollarString => None,
    }
}

fn main() {
    std::panic::set_hook(Box::new(|_| {}));
    let mut rng = Rng::from_env();
    let mut rep = Report::new(
        "C06",
        "value level: every operator (13 binary, negate, NOT, try_cmp) and every conversion over all pairs of the \
         boundary set (per type MIN-1, MIN-1/2, MIN, MIN+1/2, -1, -1/2, 0, 1/2, 1, MAX-1/2, MAX, MAX+1/2, MAX+1, ties, \
         thresholds, precision limits; all type pairs incl. strings) plus random pairs inside the exact domain \
         (class = operator + operands); program level: assignments, by-value parameters, FOR, READ, INPUT, arrays, \
         record fields, arithmetic at the boundaries with every variable checked before every instruction \
         (class = program text). A case is trivial when all operands are 0.",
    );
    let thorough = rep.is_thorough();
    let cands = candidates();
    let num_tys: Vec<TypeQualifier> = TYS.iter().map(|t| t.1).collect();
    let mut all_values: Vec<Variant> = vec![];
    for q in &num_tys {
        all_values.extend(values_of(*q, &cands));
    }
    let n_boundary_values = all_values.len();

    // ---- 1. binary operators ---------------------------------------------------------------------
    let mut pairs: Vec<(Variant, Variant)> = vec![];
    for a in &all_values {
        for b in &all_values {
            pairs.push((a.clone(), b.clone()));
        }
    }
    let n_boundary_pairs = pairs.len();
    rep.exhaustive_parts.push(format!(
        "all 13 VM operator sequences, Variant::divide/and/or and try_cmp over all {} ordered pairs of the {}-value boundary set (5 types)",
        n_boundary_pairs, n_boundary_values
    ));
    let n_random = if thorough { 400_000 } else { 25_000 };
    for _ in 0..n_random {
        pairs.push((random_value(&mut rng), random_value(&mut rng)));
    }
    let mut reqs: Vec<String> = vec![];
    for (a, b) in &pairs {
        let (sa, sb) = (show_variant(a), show_variant(b));
        for (on, _) in OPS.iter() {
            reqs.push(format!("(num.vm {} {} {})", on, sa, sb));
        }
        reqs.push(format!("(num.op divide {} {})", sa, sb));
        reqs.push(format!("(num.op and {} {})", sa, sb));
        reqs.push(format!("(num.op or {} {})", sa, sb));
        reqs.push(format!("(num.cmp {} {})", sa, sb));
    }
    let per_pair = OPS.len() + 4;
    let answers = ask(&reqs);
    let mut inexact_discarded: u64 = 0;
    let mut compared: u64 = 0;
    for (k, (a, b)) in pairs.iter().enumerate() {
        let zero = |v: &Variant| matches!(exact_of(v), Some((0, _)));
        let trivial = zero(a) && zero(b);
        let (ta, tb) = (tag_of(a).unwrap(), tag_of(b).unwrap());
        let origin = if k < n_boundary_pairs { "boundary" } else { "random" };
        for (j, (on, op)) in OPS.iter().enumerate() {
            rep.case(if trivial { None } else { Some(format!("{} {} {}", on, show_variant(a), show_variant(b))) });
            rep.bump(&format!("binary.{}.{}", origin, on));
            let (a2, b2) = (a.clone(), b.clone());
            let op2 = *op;
            let got = std::panic::catch_unwind(move || vm_bin(op2, a2, b2));
            let got_s = match &got {
                Ok(r) => show_sres(r),
                Err(_) => "panic".to_owned(),
            };
            let input = format!("{} {} {}", show_variant(a), on, show_variant(b));
            // (a) the property: tag = static type, payload in range, or a BASIC error
            let st = static_type(*op, ta, tb);
            match (&got, st) {
                (Err(_), _) => rep.fail(Failure {
                    kind: Kind::ImplVsProperty,
                    signature: format!("vm:{}:panic", on),
                    input: input.clone(),
                    implementation: "panic".into(),
                    expected: "a value or a BASIC error".into(),
                    note: "operator panicked".into(),
                }),
                (Ok(Ok(w)), Some(q)) => {
                    if tag_of(w) != Some(q) {
                        rep.fail(Failure {
                            kind: Kind::ImplVsProperty,
                            signature: format!("vm:{}:tag", on),
                            input: input.clone(),
                            implementation: got_s.clone(),
                            expected: format!("a value of the static type {}", ty_name(q)),
                            note: "dynamic tag differs from the linter's static type".into(),
                        });
                    } else if !in_range(w) {
                        rep.fail(Failure {
                            kind: Kind::ImplVsProperty,
                            signature: format!("vm:{}:{}:range", on, ty_name(q)),
                            input: input.clone(),
                            implementation: got_s.clone(),
                            expected: "a value within the type's range, or Overflow".into(),
                            note: "result outside the range of its type".into(),
                        });
                    }
                }
                _ => {}
            }
            // (b) the model
            let m = &answers[k * per_pair + j];
            if m == "inexact" {
                inexact_discarded += 1;
                rep.bump("model.inexact-discarded");
            } else {
                compared += 1;
                if *m != got_s {
                    rep.fail(Failure {
                        kind: Kind::ModelVsImpl,
                        signature: format!("model:vm:{}", on),
                        input: input.clone(),
                        implementation: got_s.clone(),
                        expected: m.clone(),
                        note: "RbModel.Num.vmBin".into(),
                    });
                }
            }
        }
        // Variant-level divide / and / or / try_cmp against the model
        let extra: [(&str, Box<dyn Fn(Variant, Variant) -> String>); 4] = [
            ("divide", Box::new(|a, b| show_res(&a.divide(b)))),
            ("and", Box::new(|a, b| show_res(&a.and(b)))),
            ("or", Box::new(|a, b| show_res(&a.or(b)))),
            (
                "cmp",
                Box::new(|a, b| match a.try_cmp(&b) {
                    Ok(std::cmp::Ordering::Less) => "(ok lt)".into(),
                    Ok(std::cmp::Ordering::Equal) => "(ok eq)".into(),
                    Ok(std::cmp::Ordering::Greater) => "(ok gt)".into(),
                    Err(e) => format!("(err {})", verr(e)),
                }),
            ),
        ];
        for (j, (name, f)) in extra.iter().enumerate() {
            rep.case(if trivial { None } else { Some(format!("v{} {} {}", name, show_variant(a), show_variant(b))) });
            let (a2, b2) = (a.clone(), b.clone());
            let got_s = std::panic::catch_unwind(std::panic::AssertUnwindSafe(|| f(a2, b2))).unwrap_or("panic".into());
            let m = &answers[k * per_pair + OPS.len() + j];
            if m == "inexact" {
                inexact_discarded += 1;
                rep.bump("model.inexact-discarded");
            } else {
                compared += 1;
                if *m != got_s {
                    rep.fail(Failure {
                        kind: Kind::ModelVsImpl,
                        signature: format!("model:variant:{}", name),
                        input: format!("{} {} {}", show_variant(a), name, show_variant(b)),
                        implementation: got_s,
                        expected: m.clone(),
                        note: "RbModel.Num divide/and/or/tryCmp".into(),
                    });
                }
            }
        }
    }
    rep.sample(J::s(format!("{} -> {}", reqs[3], answers[3])));
    rep.sample(J::s(format!("{} -> {}", reqs[per_pair * 57 + 3], answers[per_pair * 57 + 3])));

    // ---- 2. conversions, negate, NOT ---------------------------------------------------------------
    let mut singles: Vec<Variant> = all_values.clone();
    // values far outside every range (the property oracle applies; the model calls them inexact)
    for x in [1e10f64, -1e10, 1e300, -1e300, 3.5e38, -3.5e38, 3.4028235677973366e38, 9.3e18, 1e19, f64::MAX] {
        singles.push(Variant::VDouble(x));
        if x.abs() < 3.4e38 {
            singles.push(Variant::VSingle(x as f32));
        }
    }
    singles.push(Variant::VSingle(f32::MAX));
    let n_exh = singles.len();
    for _ in 0..(if thorough { 200_000 } else { 20_000 }) {
        singles.push(random_value(&mut rng));
    }
    rep.exhaustive_parts.push(format!(
        "CastVariant::cast to all 5 types, negate, unary_not over the {} boundary and far-out values",
        n_exh
    ));
    let mut reqs: Vec<String> = vec![];
    for v in &singles {
        let sv = show_variant(v);
        for (tn, _) in TYS.iter() {
            reqs.push(format!("(num.cast {} {})", sv, tn));
        }
        reqs.push(format!("(num.neg {})", sv));
        reqs.push(format!("(num.not {})", sv));
    }
    // out-of-domain floats cannot be written in the protocol: replace those requests by a marker
    let sendable: Vec<bool> = reqs.iter().map(|r| !r.contains("-outside")).collect();
    let send: Vec<String> = reqs.iter().zip(&sendable).filter(|(_, s)| **s).map(|(r, _)| r.clone()).collect();
    let got_answers = ask(&send);
    let mut answers: Vec<String> = Vec::with_capacity(reqs.len());
    let mut it = got_answers.into_iter();
    for s in &sendable {
        answers.push(if *s { it.next().unwrap() } else { "inexact".to_owned() });
    }
    let per = TYS.len() + 2;
    for (k, v) in singles.iter().enumerate() {
        let tv = tag_of(v).unwrap();
        let trivial = matches!(exact_of(v), Some((0, _)));
        for (j, (tn, q)) in TYS.iter().enumerate() {
            rep.case(if trivial { None } else { Some(format!("cast {} {}", show_variant(v), tn)) });
            rep.bump(&format!("cast.{}->{}", ty_name(tv), tn));
            let v2 = v.clone();
            let q2 = *q;
            let got = std::panic::catch_unwind(move || v2.cast(q2));
            let got_s = match &got {
                Ok(r) => show_res(r),
                Err(_) => "panic".to_owned(),
            };
            let input = format!("cast {} -> {}", show_variant(v), tn);
            let sig = format!("cast:{}->{}", ty_name(tv), tn);
            match &got {
                Err(_) => rep.fail(Failure {
                    kind: Kind::ImplVsProperty,
                    signature: format!("{}:panic", sig),
                    input: input.clone(),
                    implementation: "panic".into(),
                    expected: "a value or a BASIC error".into(),
                    note: "conversion panicked".into(),
                }),
                Ok(r) => {
                    if let Ok(w) = r {
                        if tag_of(w) != Some(*q) || !in_range(w) {
                            rep.fail(Failure {
                                kind: Kind::ImplVsProperty,
                                signature: format!("{}:range", sig),
                                input: input.clone(),
                                implementation: got_s.clone(),
                                expected: format!("a value of type {} within its range, or Overflow", tn),
                                note: "Cast let through a value the target type cannot hold".into(),
                            });
                        }
                    }
                    // whole-number targets: exact reference (round half away from zero, then range)
                    let bounds: Option<(i128, i128)> = match q {
                        TypeQualifier::PercentInteger => Some((-32768, 32767)),
                        TypeQualifier::AmpersandLong => Some((-2147483648, 2147483647)),
                        _ => None,
                    };
                    if let (Some((lo, hi)), Some((n, d))) = (bounds, exact_of(v)) {
                        let r0 = round_half_away(n, d);
                        let expected = if lo <= r0 && r0 <= hi {
                            format!("(ok ({} {}))", tn, r0)
                        } else {
                            "(err overflow)".to_owned()
                        };
                        if expected != got_s {
                            rep.fail(Failure {
                                kind: Kind::ImplVsProperty,
                                signature: format!("{}:value", sig),
                                input: input.clone(),
                                implementation: got_s.clone(),
                                expected,
                                note: "conversion = round to nearest (ties away from zero), Overflow iff outside the range".into(),
                            });
                        }
                    }
                }
            }
            let m = &answers[k * per + j];
            if m == "inexact" {
                inexact_discarded += 1;
                rep.bump("model.inexact-discarded");
            } else {
                compared += 1;
                if *m != got_s {
                    rep.fail(Failure {
                        kind: Kind::ModelVsImpl,
                        signature: format!("model:{}", sig),
                        input,
                        implementation: got_s,
                        expected: m.clone(),
                        note: "RbModel.Num.cast".into(),
                    });
                }
            }
        }
        for (j, name) in ["neg", "not"].iter().enumerate() {
            rep.case(if trivial { None } else { Some(format!("{} {}", name, show_variant(v))) });
            rep.bump(&format!("unary.{}", name));
            let v2 = v.clone();
            let is_neg = j == 0;
            let got = std::panic::catch_unwind(move || if is_neg { v2.negate() } else { v2.unary_not() });
            let got_s = match &got {
                Ok(r) => show_res(r),
                Err(_) => "panic".to_owned(),
            };
            let input = format!("{} {}", name, show_variant(v));
            match &got {
                Ok(Ok(w)) => {
                    if tag_of(w) != Some(tv) || !in_range(w) {
                        rep.fail(Failure {
                            kind: Kind::ImplVsProperty,
                            signature: format!("unary:{}:{}", name, ty_name(tv)),
                            input: input.clone(),
                            implementation: got_s.clone(),
                            expected: "a value of the operand's type within its range, or Overflow".into(),
                            note: "unary result not a value of the operand's type".into(),
                        });
                    }
                }
                Err(_) => rep.fail(Failure {
                    kind: Kind::ImplVsProperty,
                    signature: format!("unary:{}:panic", name),
                    input: input.clone(),
                    implementation: "panic".into(),
                    expected: "a value or a BASIC error".into(),
                    note: "unary operator panicked".into(),
                }),
                _ => {}
            }
            let m = &answers[k * per + TYS.len() + j];
            if m == "inexact" {
                inexact_discarded += 1;
                rep.bump("model.inexact-discarded");
            } else {
                compared += 1;
                if *m != got_s {
                    rep.fail(Failure {
                        kind: Kind::ModelVsImpl,
                        signature: format!("model:unary:{}", name),
                        input,
                        implementation: got_s,
                        expected: m.clone(),
                        note: "RbModel.Num.negate/unaryNot".into(),
                    });
                }
            }
        }
    }
    rep.sample(J::s(format!("{} -> {}", reqs[7 * 20], answers[7 * 20])));
    rep.notes.push(format!(
        "model comparisons: {} compared, {} discarded because the model reports the execution leaves the exact float domain",
        compared, inexact_discarded
    ));

    // ---- 2b. whole quotients far beyond the 64-bit integers (no model needed) ------------------------------
    // x / 1 = x, x / 2 = x/2 (x even), (x * 2) / 2 = x, exactly, with the tag fit_to_type must choose
    let wholes = big_wholes();
    let mut n_whole = 0u64;
    for &x in &wholes {
        let mut carriers: Vec<(&str, Variant)> = vec![("dbl", Variant::VDouble(x))];
        if (x as f32) as f64 == x {
            carriers.push(("sgl", Variant::VSingle(x as f32)));
        }
        for (cn, xv) in carriers {
            let mut cases: Vec<(String, Result<Variant, VariantError>, f64)> = vec![];
            cases.push((format!("{} / (int 1)", show_variant(&xv)), xv.clone().divide(Variant::VInteger(1)), x));
            cases.push((format!("{} / (dbl 1 1)", show_variant(&xv)), xv.clone().divide(Variant::VDouble(1.0)), x));
            cases.push((format!("{} / (int 2)", show_variant(&xv)), xv.clone().divide(Variant::VInteger(2)), x / 2.0));
            if cn == "dbl" || ((2.0 * x) as f32) as f64 == 2.0 * x {
                let doubled = xv.clone().multiply(Variant::VInteger(2));
                if let Ok(d) = doubled {
                    cases.push((format!("({} * (int 2)) / (int 2)", show_variant(&xv)), d.divide(Variant::VInteger(2)), x));
                }
            }
            for (input, got, want) in cases {
                n_whole += 1;
                rep.case(Some(format!("whole {}", input)));
                rep.bump(&format!("whole-quotient.{}", cn));
                let got_s = show_res(&got);
                let expected = fit_reference(want);
                if got_s != expected {
                    rep.fail(Failure {
                        kind: Kind::ImplVsProperty,
                        signature: format!("fit:whole-quotient:{}", cn),
                        input,
                        implementation: got_s,
                        expected,
                        note: "a whole quotient keeps its value; beyond the LONG range it is a DOUBLE holding that value".into(),
                    });
                }
            }
        }
    }
    rep.exhaustive_parts.push(format!(
        "x / 1, x / 2, (x * 2) / 2 for {} whole numbers k * 2^j (j <= 98) and k * 10^j (up to 1E+30) as DOUBLE and, where representable, SINGLE: {} quotients compared with the exact value and the tag fit_to_type must choose",
        wholes.len(),
        n_whole
    ));

    // ---- 3. programs -------------------------------------------------------------------------------
    let mut programs: Vec<(String, Vec<u8>, &'static str)> = vec![];
    let nq: [TypeQualifier; 4] = [
        TypeQualifier::PercentInteger,
        TypeQualifier::AmpersandLong,
        TypeQualifier::BangSingle,
        TypeQualifier::HashDouble,
    ];
    // 3a. assignment / array element / record field / by-value parameter, every source type x target type x boundary value
    let record = "TYPE T\n FI AS INTEGER\n FL AS LONG\n FS AS SINGLE\n FD AS DOUBLE\nEND TYPE\n";
    let field = |q: TypeQualifier| match q {
        TypeQualifier::PercentInteger => "FI",
        TypeQualifier::AmpersandLong => "FL",
        TypeQualifier::BangSingle => "FS",
        _ => "FD",
    };
    for &src in &nq {
        for &dst in &nq {
            for &c in &cands {
                if let Some(e) = basic_expr(src, c) {
                    let (s, d) = (suffix(src), suffix(dst));
                    programs.push((
                        format!(
                            "{}DECLARE SUB P (X{d})\nDIM R AS T\nDIM ARR{d}(1 TO 2)\nON ERROR RESUME NEXT\nSRC{s} = {e}\nDST{d} = SRC{s}\nARR{d}(2) = SRC{s}\nR.{f} = SRC{s}\nP (SRC{s})\nDST{d} = {e}\nSUB P (X{d})\n X{d} = X{d}\nEND SUB\n",
                            record,
                            s = s,
                            d = d,
                            e = e,
                            f = field(dst)
                        ),
                        vec![],
                        "assign-array-field-param",
                    ));
                }
            }
        }
    }
    // 3b. arithmetic through the real VM: DST = A op B for boundary operands
    let arith_ops = ["+", "-", "*", "/", "MOD", "AND", "OR", "<"];
    let small: Vec<f64> = cands
        .iter()
        .cloned()
        .filter(|c| [-32768.0, 32767.0, -2147483648.0, 2147483647.0, -1.0, 0.0, 1.0, 0.5, 2.5, 3.0, 256.0, 46341.0, 65536.0, 16777217.0].contains(c))
        .collect();
    let mut arith_programs: Vec<(String, Vec<u8>, &'static str)> = vec![];
    for &ta in &nq {
        for &tb in &nq {
            for &ca in &small {
                for &cb in &small {
                    if let (Some(ea), Some(eb)) = (basic_expr(ta, ca), basic_expr(tb, cb)) {
                        let mut text = format!("ON ERROR RESUME NEXT\nA{} = {}\nB{} = {}\n", suffix(ta), ea, suffix(tb), eb);
                        for (i, op) in arith_ops.iter().enumerate() {
                            for &td in &nq {
                                text.push_str(&format!("D{}{} = A{} {} B{}\n", i, suffix(td), suffix(ta), op, suffix(tb)));
                            }
                        }
                        text.push_str(&format!("N{} = -A{}\nM{} = NOT A{}\n", suffix(ta), suffix(ta), suffix(ta), suffix(ta)));
                        arith_programs.push((text, vec![], "arithmetic-at-boundaries"));
                    }
                }
            }
        }
    }
    rep.exhaustive_parts.push(format!(
        "programs: {} assignment/array/field/parameter programs (all source x target types x boundary values), {} arithmetic programs (8 operators + unary, all operand type pairs over {} boundary operands, results stored into all 4 types)",
        programs.len(),
        arith_programs.len(),
        small.len()
    ));
    if !thorough {
        // quick: every 3rd arithmetic program (seeded offset)
        let off = rng.below(3) as usize;
        arith_programs = arith_programs.into_iter().enumerate().filter(|(i, _)| i % 3 == off).map(|(_, p)| p).collect();
    }
    programs.extend(arith_programs);
    // 3c. FOR loops (initialisation, increment, final increment past the limit)
    for text in [
        "FOR I% = 32760 TO 32767\nNEXT\n",
        "FOR I% = -32760 TO -32768 STEP -1\nNEXT\n",
        "FOR I% = 1 TO 10 STEP 2.5\nNEXT\n",
        "FOR I% = 1.5 TO 3.5\nNEXT\n",
        "FOR I% = 40000 TO 40001\nNEXT\n",
        "FOR I% = 1 TO 32767 STEP 16384\nNEXT\n",
        "FOR I& = 2147483640 TO 2147483647\nNEXT\n",
        "FOR I& = 1 TO 2147483647 STEP 1073741824\nNEXT\n",
        "FOR I& = 1 TO 3 STEP .5\nNEXT\n",
        "FOR S! = 0 TO 1 STEP .25\nNEXT\n",
        "FOR D# = 0 TO 1 STEP .25\nNEXT\n",
        "FOR S! = 16777210 TO 16777220\nNEXT\n",
        "A& = 70000\nFOR I% = 1 TO A&\nNEXT\n",
        "A# = 32767.4\nFOR I% = A# TO 32767\nNEXT\n",
        "ON ERROR RESUME NEXT\nFOR I% = 32766 TO 32767\nNEXT\nJ% = I%\n",
        "DIM K AS INTEGER\nFOR K = 32766 TO 32767\nNEXT\n",
    ] {
        programs.push((text.to_owned(), vec![], "for"));
    }
    // 3c'. FOR loops, systematically: every counter type x every step type, the step given as a literal
    // and as a variable of that type, starts near the counter type's upper and lower limits and in the
    // middle, ascending and descending (the increment must be converted back to the counter's type and
    // raise Overflow when it leaves it; the observer checks the tag and range of every variable)
    for (cq, starts) in [("%", ["1", "32000", "-32000"]), ("&", ["1", "2147483000", "-2147483000"]), ("!", ["1", "16777000", "-0.5"]), ("#", ["1", "9007199254740000", "-0.5"])] {
        for sq in ["%", "&", "!", "#"] {
            for step in ["1", "500", "-500", "3"] {
                for start in starts {
                    let down = step.starts_with('-');
                    let limit = match (cq, down) {
                        ("%", false) => "32767",
                        ("%", true) => "-32768",
                        ("&", false) => "2147483647",
                        ("&", true) => "-2147483648",
                        (_, false) => "100000000000000000000",
                        (_, true) => "-100000000000000000000",
                    };
                    // bounded number of iterations: stop after 4 rounds through a guard
                    let body = format!("N% = N% + 1\nIF N% >= 4 THEN {st} = 0 : C{cq} = {lim}\n", st = format!("S{}", sq), cq = cq, lim = limit);
                    programs.push((
                        format!("S{sq} = {step}\nFOR C{cq} = {start} TO {limit} STEP S{sq}\nN% = N% + 1\nIF N% >= 4 THEN GOTO Done\nNEXT\nDone:\nT{cq} = C{cq}\n", sq = sq, step = step, cq = cq, start = start, limit = limit),
                        vec![],
                        "for-matrix",
                    ));
                    programs.push((
                        format!("FOR C{cq} = {start} TO {limit} STEP {step}\nN% = N% + 1\nIF N% >= 4 THEN GOTO Done\nNEXT\nDone:\nT{cq} = C{cq}\n", cq = cq, start = start, limit = limit, step = step),
                        vec![],
                        "for-matrix",
                    ));
                    let _ = body;
                }
            }
        }
    }
    // 3d. READ and INPUT conversions
    let data_items = ["0", "1", "-1", "1.5", "2.5", "-2.5", "32767", "32768", "-32768", "-32769", "32767.5", "2147483647",
        "2147483648", "-2147483648", "-2147483649", "2147483647.5#", "10000000000", "16777217", "99999999999", ".5", "-.5",
        "340282350000000000000000000000000000000.0#", "1000000000000000000000000000000000000000.0#"];
    let input_items = ["0", "1", "-1", "1.5", "2.5", "-2.5", "32767", "32768", "-32768", "-32769", "32767.5", "2147483647",
        "2147483648", "-2147483648", "-2147483649", "2147483647.5", "1E10", "1E38", "1E39", "1E300", "16777217", "99999999999", ".5", "-.5", ""];
    for &dst in &nq {
        let d = suffix(dst);
        for item in data_items.iter() {
            // one READ per program and no error handler: resuming after a failed READ is not C06's business
            programs.push((format!("DATA {i}\nREAD V{d}\n", i = item, d = d), vec![], "read"));
            programs.push((format!("DIM ARR{d}(3)\nDATA {i}\nREAD ARR{d}(1)\n", i = item, d = d), vec![], "read"));
            programs.push((format!("{r}DIM R AS T\nDATA {i}\nREAD R.{f}\n", r = record, i = item, f = field(dst)), vec![], "read"));
        }
        for item in input_items.iter() {
            programs.push((format!("INPUT V{}\n", d), format!("{}\n", item).into_bytes(), "input"));
            programs.push((format!("W{} = VAL(\"{}\")\n", d, item), vec![], "val"));
        }
    }
    // 3e. hand-written boundary programs
    for text in [
        "A% = 32767\nB% = A% + 1\n",
        "A% = -32767\nB% = A% - 2\n",
        "A% = 256\nB% = A% * 128\n",
        "B& = 2147483647 + 1\n",
        "L& = 2147483647\nM& = L& + 1\n",
        "L& = 65536\nM& = L& * 32768\n",
        "L& = -2147483647\nM& = L& - 2\n",
        "L& = -2147483647\nL& = L& - 1\nI% = 0\nM& = L& - I%\n",
        "A% = 1 / 3\n",
        "X! = 6 / 3\n",
        "L& = 7 / 2\n",
        "D# = 1 / 3\n",
        "A% = 10 MOD 3\nB% = -7 MOD 2\n",
        "A% = NOT 5\nB% = NOT -32768\n",
        "A% = -32767\nA% = A% - 1\nB% = -A%\n",
        "CONST C = 32767 + 1\nA% = C\n",
        "CONST C% = 6 / 3\nA% = C%\n",
        "X! = 10000000000.0\nX! = X! * X! * X!\nY! = X! * X! * 1000.0\n",
        "X! = 10000000000.0\nX! = X! * X! * X!\nY! = X! * 300000000.0\nZ! = Y! + Y!\nW! = -Y! - Y!\n",
        "X# = 10000000000.0#\nFOR I% = 1 TO 30\nX# = X# * 10000000000.0#\nNEXT\nY! = X#\n",
        "X# = 10000000000.0#\nFOR I% = 1 TO 4\nX# = X# * 10000000000.0#\nNEXT\nY! = X#\n",
        "X! = 1.0\nY! = X! / .0000000001 / .0000000001 / .0000000001 / .0000000001\n",
        "D# = 1000000000000000.0#\nD# = D# * D#\nE# = D# / 1\nZ! = 10000000000.0\nZ! = Z! * Z!\nY! = Z! / 1\nL& = 7\nE# = D# / L&\n",
        "X! = 2147483648\nA& = X!\n",
        "X! = -2147483648\nA& = X!\n",
        "FUNCTION F%(X%)\n F% = X% + 1\nEND FUNCTION\nA% = F%(32767)\n",
        "FUNCTION G%\n G% = 32767.6\nEND FUNCTION\nA% = G%\n",
        "SUB S (A%, B&)\n A% = A% * 2\n B& = B& * 2\nEND SUB\nX% = 20000\nY& = 2000000000\nS X%, Y&\n",
        "DEFINT A-Z\nA = 32767\nB = A + A\n",
        "DEFLNG A-Z\nA = 2147483647\nB = A + A\n",
        "DIM A(1 TO 3) AS INTEGER\nA(1) = 32767\nA(2) = A(1) + A(1)\n",
        "A% = 5\nSWAP A%, B%\nA% = 32767\nB% = 1\nC% = A% + B%\n",
        "A% = LEN(\"abc\") * 20000\n",
        "A% = ASC(\"a\") * 400\n",
        "A% = INT(40000.5)\nB% = FIX(-40000.5)\nC% = CINT(32767.5)\n",
        "A& = CLNG(2147483647.5#)\nB% = SGN(-5) * 32768\n",
        "A% = ABS(-32767 - 1)\n",
    ] {
        programs.push((text.to_owned(), vec![], "boundary-arithmetic"));
    }
    // 3f. literals at the extremes of INTEGER and LONG in every spelling (decimal, &H, &O, negated once or twice,
    // parenthesised), stored into every numeric type by assignment, by-value parameter, FOR bounds, DATA / READ,
    // array element: whatever the parser folds such a literal into must still be in range where it is stored
    // (after a wave-7 seed: `-&H8000` folded into an INTEGER literal 32768)
    let lits = [
        "-&H8000", "-&O100000", "--32768", "-(-32768)", "-(&H8000)", "&H8000", "&HFFFF", "-&HFFFF", "-32768", "32767",
        "-&H7FFF", "- -32768", "-&H80000000", "-&O20000000000", "--2147483648", "-(-2147483648)", "&H80000000",
        "&HFFFFFFFF", "-2147483648", "2147483647", "-&H7FFFFFFF", "NOT &H7FFF", "NOT -&H8000", "-&H8000 - 1", "- -&H8000",
    ];
    for lit in lits {
        for sfx in ["%", "&", "!", "#"] {
            programs.push((format!("ON ERROR RESUME NEXT\nA{} = {}\nB{} = A{}\n", sfx, lit, sfx, sfx), vec![], "boundary-arithmetic"));
            programs.push((format!("ON ERROR RESUME NEXT\nDIM A(1 TO 2) AS {}\nA(1) = {}\n", ["INTEGER", "LONG", "SINGLE", "DOUBLE"][["%", "&", "!", "#"].iter().position(|x| *x == sfx).unwrap()], lit), vec![], "boundary-arithmetic"));
            programs.push((format!("SUB S (P{})\n Q{} = P{}\nEND SUB\nON ERROR RESUME NEXT\nS ({})\nS {}\n", sfx, sfx, sfx, lit, lit), vec![], "boundary-arithmetic"));
            programs.push((format!("ON ERROR RESUME NEXT\nFOR I{} = {} TO {}\nNEXT\n", sfx, lit, lit), vec![], "boundary-arithmetic"));
            programs.push((format!("ON ERROR RESUME NEXT\nREAD A{}\nDATA {}\n", sfx, lit), vec![], "boundary-arithmetic"));
        }
    }
    let mut checked_values = 0u64;
    let mut outcomes: std::collections::BTreeMap<String, u64> = Default::default();
    for (i, (text, stdin, class)) in programs.iter().enumerate() {
        rep.case(Some(format!("prog:{}", text)));
        rep.bump(&format!("program.{}", class));
        let o = run_observed(text, stdin);
        checked_values += o.checked_values;
        let kind = o.result.split_whitespace().next().unwrap_or("?").to_owned();
        *outcomes.entry(kind.clone()).or_insert(0) += 1;
        // declared type of the variable the program is about (first violating variable, else the first
        // suffixed name in the text): makes the signature specific to construct x kind x type
        let ty_of_name = |n: &str| match n.chars().last() {
            Some('%') => "int",
            Some('&') => "long",
            Some('!') => "sgl",
            Some('#') => "dbl",
            _ => "record-field",
        };
        if kind == "panic" {
            let first_var = text
                .split(|ch: char| !(ch.is_ascii_alphanumeric() || "%&!#".contains(ch)))
                .find(|w| w.len() > 1 && "%&!#".contains(w.chars().last().unwrap()))
                .unwrap_or("?");
            rep.fail(Failure {
                kind: Kind::ImplVsProperty,
                signature: format!("program:{}:panic:{}", class, ty_of_name(first_var)),
                input: text.clone(),
                implementation: "panic".into(),
                expected: "a run or a BASIC error".into(),
                note: format!("stdin={:?}", String::from_utf8_lossy(stdin)),
            });
        }
        if kind == "front-end-error" && *class != "boundary-arithmetic" && *class != "for" {
            rep.fail(Failure {
                kind: Kind::ModelVsImpl,
                signature: format!("program:{}:does-not-compile", class),
                input: text.clone(),
                implementation: o.result.clone(),
                expected: "a generated test program compiles".into(),
                note: "harness generator problem".into(),
            });
        }
        if !o.violations.is_empty() {
            let var = o.violations[0].split_whitespace().next().unwrap_or("?");
            rep.fail(Failure {
                kind: Kind::ImplVsProperty,
                signature: format!(
                    "program:{}:{}:{}",
                    class,
                    if o.violations[0].contains("wrong tag") { "tag" } else { "range" },
                    ty_of_name(var)
                ),
                input: text.clone(),
                implementation: o.violations.join("; "),
                expected: "every numeric variable holds a value of its declared type, in range".into(),
                note: format!("run result: {}; stdin={:?}", o.result, String::from_utf8_lossy(stdin)),
            });
        }
        if i == 0 || i == programs.len() - 1 {
            rep.sample(J::s(format!("{} => {}", text, o.result)));
        }
    }
    // 3f. printed form: x / 1, (x * 2) / 2 print what x prints (whole numbers built by multiplication)
    for (decl, init) in [
        ("D#", "D# = 1000000000000000.0#\nD# = D# * D#\n"),
        ("D#", "D# = 1099511627776.0#\nD# = D# * D# * 1024.0#\n"),
        ("D#", "D# = 3000000000.0#\nD# = D# * D#\n"),
        ("Z!", "Z! = 10000000000.0\nZ! = Z! * Z! * Z!\n"),
        ("Z!", "Z! = 4294967296.0\nZ! = Z! * Z!\n"),
        ("D#", "D# = 3000000000.0#\n"),
        ("Z!", "Z! = 65536.0\n"),
    ] {
        let text = format!("{i}PRINT {v}\nPRINT {v} / 1\nPRINT ({v} * 2) / 2\nQ# = {v} / 1\nPRINT Q#\nR# = {v}\nPRINT R#\n", i = init, v = decl);
        rep.case(Some(format!("prog:{}", text)));
        rep.bump("program.print-whole-quotient");
        let o = run_observed(&text, b"");
        let lines: Vec<String> = match o.result.strip_prefix("ok stdout=") {
            Some(out) => out.trim_matches('"').split("\\r\\n").map(|l| l.trim().to_owned()).filter(|l| !l.is_empty()).collect(),
            None => vec![],
        };
        // x, x / 1 and (x * 2) / 2 print the same; x / 1 stored in a DOUBLE prints what x stored in a DOUBLE prints
        let all_equal = lines.len() == 5 && lines[1] == lines[0] && lines[2] == lines[0] && lines[3] == lines[4];
        if !all_equal || !o.violations.is_empty() {
            rep.fail(Failure {
                kind: Kind::ImplVsProperty,
                signature: format!("program:print-whole-quotient:{}", if decl == "D#" { "dbl" } else { "sgl" }),
                input: text.clone(),
                implementation: format!("{} {}", o.result, o.violations.join("; ")),
                expected: "lines 1-3 equal (x, x / 1, (x * 2) / 2) and line 4 = line 5 (x / 1 and x, each stored in a DOUBLE)".into(),
                note: "a whole quotient keeps its value".into(),
            });
        }
    }
    // ---- 4. results of built-in functions -------------------------------------------------------------
    // A call of a built-in function has the function's static type, so no Cast precedes the store when the
    // target has that type: what the built-in hands over is what the variable holds. For every numeric built-in
    // x boundary arguments the result is stored in a variable and (a) the observer checks tag and range of every
    // variable before every instruction (the property), (b) the outcome is compared with the model of the hand-over
    // (RbModel.BuiltinRes through the driver).
    let bcases = builtin_cases(&mut rng, thorough);
    let breqs: Vec<String> = bcases.iter().filter_map(|c| c.req.clone()).collect();
    let banswers = ask(&breqs);
    let mut bi = 0usize;
    let mut b_inexact = 0u64;
    let mut b_compared = 0u64;
    let mut b_outcomes: std::collections::BTreeMap<String, u64> = Default::default();
    for (k, c) in bcases.iter().enumerate() {
        rep.case(Some(format!("prog:{}", c.text)));
        rep.bump(&format!("program.builtin-result.{}", c.func));
        let answer: Option<String> = c.req.as_ref().map(|_| {
            bi += 1;
            banswers[bi - 1].clone()
        });
        let (o, last) = if c.unobserved { run_printed(&c.text, &c.var) } else { run_observed_watch(&c.text, b"", Some(&c.var)) };
        checked_values += o.checked_values;
        let kind = o.result.split_whitespace().next().unwrap_or("?").to_owned();
        let overflowed = kind == "runtime-error" && o.result.contains("Overflow");
        *b_outcomes.entry(if overflowed { "overflow".to_owned() } else { kind.clone() }).or_insert(0) += 1;
        // a long program (tens of thousands of DIMs) is replayed from its last lines
        let shown = if c.text.len() > 4000 {
            format!("[{} lines DIM A<i>(1), i = 0 ..]\n{}", c.text.lines().count() - 2, c.text.lines().rev().take(2).collect::<Vec<_>>().into_iter().rev().collect::<Vec<_>>().join("\n"))
        } else {
            c.text.clone()
        };
        if kind == "panic" {
            rep.fail(Failure {
                kind: Kind::ImplVsProperty,
                signature: format!("program:builtin-result:{}:panic", c.func),
                input: shown.clone(),
                implementation: "panic".into(),
                expected: "a run or a BASIC error".into(),
                note: String::new(),
            });
            continue;
        }
        if kind == "front-end-error" {
            rep.fail(Failure {
                kind: Kind::ModelVsImpl,
                signature: "program:builtin-result:does-not-compile".into(),
                input: shown.clone(),
                implementation: o.result.clone(),
                expected: "a generated test program compiles".into(),
                note: "harness generator problem".into(),
            });
            continue;
        }
        // (a) the property: every variable of its declared type, in range, at all times
        if !o.violations.is_empty() {
            rep.fail(Failure {
                kind: Kind::ImplVsProperty,
                signature: format!(
                    "program:builtin-result:{}:{}",
                    c.func,
                    if o.violations[0].contains("wrong tag") { "tag" } else { "range" }
                ),
                input: shown.clone(),
                implementation: o.violations.join("; "),
                expected: format!(
                    "the result of {} stored in {} is a value of the variable's type within its range, or the call raises Overflow",
                    c.func.to_uppercase(),
                    c.var
                ),
                note: format!("run result: {}", o.result),
            });
        }
        // (b) the model of the hand-over
        if let Some(ans) = answer {
            let sfx = c.var.chars().last().unwrap_or('%');
            let verdict: Option<(String, String)> = if ans == "inexact" {
                b_inexact += 1;
                None
            } else if ans == "(err overflow)" {
                b_compared += 1;
                if overflowed { None } else { Some(("Overflow".to_owned(), format!("{} {}={}", o.result, c.var, last.as_ref().map(show_variant).unwrap_or("unset".into())))) }
            } else if let Some(v) = ans.strip_prefix("(ok ").and_then(|r| r.strip_suffix(")")) {
                b_compared += 1;
                // what the variable holds after the store: the value handed over, converted to the variable's type
                let want = if let Some(n) = v.strip_prefix("(int ").and_then(|r| r.strip_suffix(")")) {
                    match sfx {
                        '%' => format!("(int {})", n),
                        '&' => format!("(long {})", n),
                        '!' => format!("(sgl {} 1)", n),
                        _ => format!("(dbl {} 1)", n),
                    }
                } else {
                    v.to_owned()
                };
                let got = last.as_ref().map(show_variant).unwrap_or("unset".into());
                if kind == "ok" && got == want { None } else { Some((format!("ok, {} = {}", c.var, want), format!("{} {}={}", o.result, c.var, got))) }
            } else {
                Some((format!("a model answer, got {}", ans), o.result.clone()))
            };
            if let Some((want, got)) = verdict {
                rep.fail(Failure {
                    kind: Kind::ModelVsImpl,
                    signature: format!("model:builtin-result:{}", c.func),
                    input: shown.clone(),
                    implementation: got,
                    expected: want,
                    note: format!("request {}", c.req.clone().unwrap_or_default()),
                });
            }
        }
        if k == 0 {
            rep.sample(J::s(format!("{} => {}", shown, o.result)));
        }
    }
    // ---- literals ------------------------------------------------------------------------------------------
    // A literal is a value that reaches a variable without any arithmetic or conversion of the interpreter when
    // the types agree: what the parser made of the digits is what the variable holds. Literals at and around the
    // ends of SINGLE and DOUBLE (with a fraction, with `#`, plain digit runs; both signs) are stored in `X!` and
    // `X#` by assignment, through a CONST, an array element and a by-value parameter: the variable holds a finite
    // value at all times, or the program is rejected (parse error Overflow) or stops with Overflow.
    let lcases = literal_cases();
    let mut l_outcomes: std::collections::BTreeMap<String, u64> = Default::default();
    for (k, c) in lcases.iter().enumerate() {
        rep.case(Some(format!("prog:{}", c.text)));
        rep.bump(&format!("program.literal-store.{}", c.route));
        rep.bump(if c.fits { "program.literal-store.literal-fits" } else { "program.literal-store.literal-beyond-its-type" });
        let (o, last) = run_observed_watch(&c.text, b"", Some(c.var));
        checked_values += o.checked_values;
        let kind = o.result.split_whitespace().next().unwrap_or("?").to_owned();
        let rejected = kind == "front-end-error" && o.result.contains("Overflow");
        let overflowed = kind == "runtime-error" && o.result.contains("Overflow");
        let outcome = if rejected { "rejected-overflow".to_owned() } else if overflowed { "runtime-overflow".to_owned() } else { kind.clone() };
        *l_outcomes.entry(outcome.clone()).or_insert(0) += 1;
        let shown = c.text.clone();
        // (a) the property: every variable of its declared type, finite, at all times
        if !o.violations.is_empty() || kind == "panic" {
            rep.fail(Failure {
                kind: Kind::ImplVsProperty,
                signature: format!("program:literal-store:{}", if kind == "panic" { "panic" } else { "range" }),
                input: shown.clone(),
                implementation: if kind == "panic" { "panic".into() } else { o.violations.join("; ") },
                expected: format!(
                    "the literal {} stored in {} is a finite value of the variable's type, or the program is rejected / stops with Overflow",
                    c.lit, c.var
                ),
                note: format!("run result: {}", o.result),
            });
            continue;
        }
        // (b) nothing else happens: a literal beyond its own type is rejected, one that fits is stored (the nearest
        // value of the literal's type, converted to the variable's) or does not fit the variable (SINGLE): Overflow
        let last_shown = last.as_ref().map(show_variant).unwrap_or("unset".into());
        let unsigned = c.lit.trim_start_matches('-').trim_end_matches('#');
        let is_double_lit = c.lit.ends_with('#') || !c.lit.contains('.');
        let as_f64: f64 = if is_double_lit { unsigned.parse::<f64>().unwrap_or(f64::NAN) } else { unsigned.parse::<f32>().map(|f| f as f64).unwrap_or(f64::NAN) };
        let as_f64 = if c.lit.starts_with('-') { -as_f64 } else { as_f64 };
        let want: String = if !c.fits {
            "rejected-overflow".to_owned()
        } else if c.var == "X#" {
            format!("ok {}", show_variant(&Variant::VDouble(as_f64)))
        } else if (as_f64 as f32).is_finite() {
            format!("ok {}", show_variant(&Variant::VSingle(as_f64 as f32)))
        } else {
            "runtime-overflow".to_owned()
        };
        let got = if outcome == "ok" { format!("ok {}", last_shown) } else { outcome.clone() };
        if got != want {
            rep.fail(Failure {
                kind: Kind::ImplVsProperty,
                signature: format!("program:literal-store:{}", if c.fits { "fitting-literal" } else { "accepted-beyond-type" }),
                input: shown.clone(),
                implementation: format!("{} ({})", got, o.result),
                expected: want,
                note: format!("literal {} by route {}", c.lit, c.route),
            });
        }
        if k == 0 {
            rep.sample(J::s(format!("{} => {}", shown, o.result)));
        }
    }
    rep.notes.push(format!(
        "literals: {} programs (20 literals at and around the ends of SINGLE / DOUBLE x 2 signs x X! / X# x assignment, CONST, array element, by-value parameter); outcomes {:?}",
        lcases.len(),
        l_outcomes
    ));
    rep.notes.push(format!(
        "built-in results: {} programs over 10 of the 11 numeric built-ins (LEN INSTR VARPTR VARSEG LBOUND UBOUND ERR PEEK CVD VAL; EOF needs a file and is exercised by C18), {} compared with the model of the hand-over, {} inexact (finite numbers outside the exact float domain: property only); outcomes {:?}",
        bcases.len(),
        b_compared,
        b_inexact,
        b_outcomes
    ));
    rep.notes.push(format!(
        "program level: {} programs, {} variable observations; outcomes {:?}",
        programs.len(),
        checked_values,
        outcomes
    ));
    rep.finish();
}
