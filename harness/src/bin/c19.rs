//! C19 — bit-level primitives vs two's complement / IEEE-754, and vs the Lean model `RbModel.Bits`
//! (integers: bit vectors; doubles: the 64-bit pattern split into 8 bytes, least significant first, and joined back).

use rb_harness::driver::ask;
use rb_harness::json::J;
use rb_harness::report::{Failure, Kind, Report};
use rb_harness::rng::Rng;
use rb_harness::sx;
use rusty_basic::interpreter::verif::run_in_memory;
use rusty_variant::{Variant, bytes_to_f64, bytes_to_i32, f64_to_bytes, i32_to_bytes, qb_and, qb_or};

fn boundary_set() -> Vec<i32> {
    let mut v: Vec<i32> = vec![
        -32768, -32767, -32766, -16385, -16384, -16383, -257, -256, -255, -129, -128, -127, -3, -2, -1, 0, 1, 2, 3,
        127, 128, 129, 255, 256, 257, 16383, 16384, 16385, 21845, -21846, 32765, 32766, 32767, 0x0F0F, 0x00FF,
        -0x0100, 0x3333, 0x5A5A, -0x5A5B,
    ];
    for k in 0..15 {
        v.push(1 << k); // one-hot
        v.push(-(1 << k) - 1); // complement of one-hot
        v.push((1 << k) - 1);
        v.push(-(1 << k));
    }
    v.sort();
    v.dedup();
    v
}

fn variant_int(v: Result<Variant, rusty_variant::VariantError>) -> String {
    match v {
        Ok(Variant::VInteger(i)) => i.to_string(),
        Ok(other) => format!("non-integer {:?}", other),
        Err(e) => format!("error {:?}", e),
    }
}

fn run_program(text: &str) -> String {
    match std::panic::catch_unwind(|| run_in_memory(text, b"", 200_000, None, false)) {
        Ok(Ok(r)) => match r.result {
            Ok(()) => String::from_utf8_lossy(&r.stdout)
                .split("\r\n")
                .map(|l| l.trim_end().to_owned())
                .collect::<Vec<_>>()
                .join("|")
                .trim_end_matches('|')
                .to_owned(),
            Err(e) => format!("runtime-error {:?}", e),
        },
        Ok(Err(e)) => format!("front-end-error {:?}", e),
        Err(_) => "panic".to_owned(),
    }
}

fn main() {
    std::panic::set_hook(Box::new(|_| {}));
    let mut rng = Rng::from_env();
    let mut rep = Report::new(
        "C19",
        "unary functions and byte conversions: all 65536 INTEGER values (class = value); binary AND/OR: all pairs of the \
         boundary/one-hot/complement set plus random pairs (class = operand pair); doubles: all powers of two, boundary \
         mantissas x boundary exponents, subnormals, values beyond 2^63, +-0, infinities, NaN patterns, random bit patterns \
         (class = bit pattern); program-level AND/OR/NOT/PEEK/POKE and MKD$/CVD (8 arbitrary bytes; doubles computed by \
         repeated doubling/halving) through the in-memory interpreter hook (class = program text). A case is non-trivial unless every operand is 0.",
    );
    let thorough = rep.is_thorough();

    // ---- 1. unary / conversions, exhaustive over the INTEGER range -----------------------------
    let mut reqs: Vec<String> = vec![];
    for i in -32768..=32767i32 {
        reqs.push(format!("(bits.toBytes {})", i));
        reqs.push(format!("(bits.not {})", i));
        let w = (i as i16) as u16;
        reqs.push(format!("(bits.fromBytes ({} {}))", w & 0xFF, w >> 8));
    }
    let answers = ask(&reqs);
    for (k, i) in (-32768..=32767i32).enumerate() {
        rep.case(if i == 0 { None } else { Some(format!("u{}", i)) });
        let w = (i as i16) as u16;
        let le = [(w & 0xFF) as u8, (w >> 8) as u8];
        // implementation vs the property (two's complement, low byte first)
        let got = i32_to_bytes(i);
        if got != le {
            rep.fail(Failure {
                kind: Kind::ImplVsProperty,
                signature: "i32_to_bytes".into(),
                input: format!("i32_to_bytes({})", i),
                implementation: format!("{:?}", got),
                expected: format!("{:?}", le),
                note: "bytes of an INTEGER are its 16-bit two's-complement word, low byte first".into(),
            });
        }
        let back = bytes_to_i32(le);
        if back != i {
            rep.fail(Failure {
                kind: Kind::ImplVsProperty,
                signature: "bytes_to_i32".into(),
                input: format!("bytes_to_i32({:?})", le),
                implementation: back.to_string(),
                expected: i.to_string(),
                note: "bytes -> INTEGER must invert INTEGER -> bytes".into(),
            });
        }
        let not_impl = variant_int(Variant::VInteger(i).unary_not());
        let not_spec = (!(i as i16) as i32).to_string();
        if not_impl != not_spec {
            rep.fail(Failure {
                kind: Kind::ImplVsProperty,
                signature: "unary_not".into(),
                input: format!("NOT {}", i),
                implementation: not_impl.clone(),
                expected: not_spec,
                note: "NOT is the 16-bit complement".into(),
            });
        }
        // implementation vs model
        let m_bytes = &answers[3 * k];
        let i_bytes = sx::ints(got.iter());
        if *m_bytes != i_bytes {
            rep.fail(Failure {
                kind: Kind::ModelVsImpl,
                signature: "model:i32ToBytes".into(),
                input: reqs[3 * k].clone(),
                implementation: i_bytes,
                expected: m_bytes.clone(),
                note: "RbModel.Bits.i32ToBytes".into(),
            });
        }
        if answers[3 * k + 1] != not_impl {
            rep.fail(Failure {
                kind: Kind::ModelVsImpl,
                signature: "model:unaryNot".into(),
                input: reqs[3 * k + 1].clone(),
                implementation: not_impl,
                expected: answers[3 * k + 1].clone(),
                note: "RbModel.Bits.unaryNot".into(),
            });
        }
        if answers[3 * k + 2] != back.to_string() {
            rep.fail(Failure {
                kind: Kind::ModelVsImpl,
                signature: "model:bytesToI32".into(),
                input: reqs[3 * k + 2].clone(),
                implementation: back.to_string(),
                expected: answers[3 * k + 2].clone(),
                note: "RbModel.Bits.bytesToI32".into(),
            });
        }
    }
    rep.exhaustive_parts
        .push("i32_to_bytes, bytes_to_i32, NOT over all 65536 INTEGER values".into());
    rep.bump_by("unary.values", 65536);
    rep.sample(J::s(format!("{} -> {}", reqs[3 * 100], answers[3 * 100])));

    // ---- 2. binary AND / OR ------------------------------------------------------------------
    let bs = boundary_set();
    let mut pairs: Vec<(i32, i32)> = vec![];
    for &a in &bs {
        for &b in &bs {
            pairs.push((a, b));
        }
    }
    rep.exhaustive_parts
        .push(format!("AND/OR over all {} pairs of the {}-element boundary set", pairs.len(), bs.len()));
    let n_random = if thorough { 2_000_000 } else { 100_000 };
    for _ in 0..n_random {
        pairs.push((rng.range(-32768, 32767) as i32, rng.range(-32768, 32767) as i32));
    }
    let mut reqs: Vec<String> = Vec::with_capacity(pairs.len() * 2);
    for (a, b) in &pairs {
        reqs.push(format!("(bits.and {} {})", a, b));
        reqs.push(format!("(bits.or {} {})", a, b));
    }
    let answers = ask(&reqs);
    for (k, (a, b)) in pairs.iter().enumerate() {
        rep.case(if *a == 0 && *b == 0 { None } else { Some(format!("b{},{}", a, b)) });
        rep.bump(if *a < 0 && *b < 0 {
            "binary.neg-neg"
        } else if *a < 0 || *b < 0 {
            "binary.mixed-sign"
        } else {
            "binary.pos-pos"
        });
        let spec_and = ((*a as i16) & (*b as i16)) as i32;
        let spec_or = ((*a as i16) | (*b as i16)) as i32;
        let impl_and = std::panic::catch_unwind(|| qb_and(*a, *b)).map(|x| x.to_string()).unwrap_or("panic".into());
        let impl_or = std::panic::catch_unwind(|| qb_or(*a, *b)).map(|x| x.to_string()).unwrap_or("panic".into());
        for (name, imp, spec, model) in [
            ("AND", &impl_and, spec_and, &answers[2 * k]),
            ("OR", &impl_or, spec_or, &answers[2 * k + 1]),
        ] {
            if *imp != spec.to_string() {
                rep.fail(Failure {
                    kind: Kind::ImplVsProperty,
                    signature: format!("qb_{}", name.to_lowercase()),
                    input: format!("{} {} {}", a, name, b),
                    implementation: imp.clone(),
                    expected: spec.to_string(),
                    note: "AND/OR are the bitwise operations on 16-bit two's-complement words".into(),
                });
            }
            if imp != model {
                rep.fail(Failure {
                    kind: Kind::ModelVsImpl,
                    signature: format!("model:qb{}", name),
                    input: format!("{} {} {}", a, name, b),
                    implementation: imp.clone(),
                    expected: model.clone(),
                    note: "RbModel.Bits.qbAnd/qbOr".into(),
                });
            }
        }
    }
    rep.sample(J::s(format!("{} -> {}", reqs[7], answers[7])));

    // ---- 3. program level, through the real parser/linter/generator/VM ---------------------------
    let n_prog = if thorough { 3000 } else { 300 };
    for k in 0..n_prog {
        let (a, b) = if k < bs.len() {
            (bs[k], bs[(k * 7 + 3) % bs.len()])
        } else {
            (rng.range(-32768, 32767) as i32, rng.range(-32768, 32767) as i32)
        };
        let hi_lo = i32_to_bytes(b);
        let text = format!(
            "DEFINT A-Z\nA = {}\nB = {}\nPRINT A AND B; A OR B; NOT A\nPRINT PEEK(VARPTR(A)); PEEK(VARPTR(A) + 1)\nPOKE VARPTR(A), {}\nPOKE VARPTR(A) + 1, {}\nPRINT A\n",
            a, b, hi_lo[0], hi_lo[1]
        );
        let out = run_program(&text);
        let wa = (a as i16) as u16;
        let fmt = |x: i32| if x < 0 { format!("{} ", x) } else { format!(" {} ", x) };
        let expected = format!(
            "{}|{}|{}",
            format!(
                "{}{}{}",
                fmt(((a as i16) & (b as i16)) as i32),
                fmt(((a as i16) | (b as i16)) as i32),
                fmt(!(a as i16) as i32)
            )
            .trim_end(),
            format!("{}{}", fmt((wa & 0xFF) as i32), fmt((wa >> 8) as i32)).trim_end(),
            fmt(b).trim_end()
        );
        rep.case(Some(format!("p{},{}", a, b)));
        rep.bump("program.and-or-not-peek-poke");
        if out != expected {
            rep.fail(Failure {
                kind: Kind::ImplVsProperty,
                signature: "program:and-or-not-peek-poke".into(),
                input: text.clone(),
                implementation: out,
                expected,
                note: "program-level AND/OR/NOT, PEEK of both bytes, POKE of both bytes".into(),
            });
        }
        if k == 0 {
            rep.sample(J::s(text));
        }
    }

    // ---- 4. doubles: MKD$/CVD vs IEEE-754 and vs the Lean model (RbModel.Bits.f64ToBytes / bytesToF64) ----
    // A double is identified by its bit pattern w; `structured` patterns get the full treatment (bytes,
    // inverse, model fields -> IEEE value), random ones bytes and inverse.
    let mut structured: Vec<u64> = vec![];
    for f in [0.0, 1.0, -1.0, 2.0, 0.5, 1.5, -2.5, 3.141592653589793, 1e10, 1e-10, 123456.789, -0.1f64] {
        structured.push(f.to_bits());
    }
    // all powers of two, normal (2^-1022 .. 2^1023) and subnormal (2^-1074 .. 2^-1023), both signs, and 1.5 * them
    for e in 1u64..=2046 {
        for sign in [0u64, 1 << 63] {
            structured.push(sign | (e << 52));
            structured.push(sign | (e << 52) | (1 << 51));
        }
    }
    for k in 0..52 {
        for sign in [0u64, 1 << 63] {
            structured.push(sign | (1u64 << k));
            structured.push(sign | (1u64 << k) | ((1u64 << k) >> 1));
        }
    }
    // boundary mantissas x boundary exponents (0 = zero/subnormal, 2047 = infinity/NaN, 1086.. = beyond 2^63)
    for m in [0u64, 1, 2, 3, 0xF_FFFF_FFFF_FFFF, 0xF_FFFF_FFFF_FFFE, 0x8_0000_0000_0000, 0x8_0000_0000_0001,
        0x7_FFFF_FFFF_FFFF, 0x5_5555_5555_5555, 0xA_AAAA_AAAA_AAAA, 0x0_0000_0000_00FF, 0x0_0000_0001_0000,
        0xF_0000_0000_0000, 0x0_FFFF_FFFF_FFFF]
    {
        for e in [0u64, 1, 2, 3, 1000, 1022, 1023, 1024, 1074, 1075, 1076, 1085, 1086, 1087, 1100, 2000, 2045, 2046, 2047] {
            structured.push((e << 52) | m);
            structured.push((1u64 << 63) | (e << 52) | m);
        }
    }
    // the recorded failing inputs of F12a-c, the extremes, one-hot patterns and their complements
    for f in [9.223372036854775808e18, -9.223372036854775808e18, 1.6e20, -1e300, f64::MAX, f64::MIN, f64::MIN_POSITIVE,
        f64::EPSILON, f64::INFINITY, f64::NEG_INFINITY, -0.0, 5e-324, -5e-324, 2.2250738585072009e-308f64]
    {
        structured.push(f.to_bits());
    }
    structured.push(f64::NAN.to_bits());
    structured.push(0x7FF0_0000_0000_0001); // signalling NaN, payload 1
    structured.push(0xFFF0_0000_0000_0001);
    structured.push(0x7FF8_0000_0000_0000); // quiet NaN
    structured.push(0xFFF8_0000_0000_0000);
    structured.push(0x7FFF_FFFF_FFFF_FFFF);
    structured.push(0xFFFF_FFFF_FFFF_FFFF);
    structured.push(0x7FF4_0000_DEAD_BEEF);
    for k in 0..64 {
        structured.push(1u64 << k);
        structured.push(!(1u64 << k));
    }
    structured.sort();
    structured.dedup();
    let n_structured = structured.len();
    rep.exhaustive_parts.push(format!(
        "f64_to_bytes/bytes_to_f64 over all {} structured bit patterns: every power of two 2^-1074..2^1023 and 1.5x it \
         (both signs), 15 boundary mantissas x 19 boundary exponents (incl. subnormal, beyond 2^63, infinity, NaN), +-0, \
         extremes, one-hot patterns and complements",
        n_structured
    ));
    let n_rand = if thorough { 2_000_000 } else { 250_000 };
    let mut patterns = structured;
    for k in 0..n_rand {
        let mut w = rng.next_u64();
        // uniformly random patterns are almost never subnormal / infinite / NaN: force the exponent field now and then
        match k % 16 {
            0 => w &= !(0x7FFu64 << 52),                  // zero / subnormal
            1 => w |= 0x7FFu64 << 52,                     // infinity / NaN
            2 => w = (w & !(0x7FFu64 << 52)) | ((1086 + (w >> 52) % 961) << 52), // |x| >= 2^63
            _ => {}
        }
        patterns.push(w);
    }
    let le = |w: u64| -> [u8; 8] { std::array::from_fn(|i| ((w >> (8 * i)) & 0xFF) as u8) };
    let mut reqs: Vec<String> = Vec::with_capacity(patterns.len() * 2 + n_structured);
    for (k, w) in patterns.iter().enumerate() {
        reqs.push(format!("(bits.f64ToBytes {})", w));
        reqs.push(format!("(bits.f64FromBytes {})", sx::ints(le(*w).iter())));
        if k < n_structured {
            reqs.push(format!("(bits.f64Fields {})", w));
        }
    }
    let answers = ask(&reqs);
    let pow2 = |j: i32| -> f64 {
        // exact: every intermediate is a power of two within the normal range (|j| <= 1023)
        let mut p = 1.0f64;
        for _ in 0..j.abs() {
            p *= if j > 0 { 2.0 } else { 0.5 };
        }
        p
    };
    let mut nan_altered = 0u64;
    let mut at = 0usize;
    for (k, &w) in patterns.iter().enumerate() {
        let f = std::hint::black_box(f64::from_bits(std::hint::black_box(w)));
        let class = if f.is_nan() {
            "nan"
        } else if f.is_infinite() {
            "infinity"
        } else if f == 0.0 {
            "zero"
        } else if !f.is_normal() {
            "subnormal"
        } else if f.abs() >= 9.223372036854775808e18 {
            "magnitude>=2^63"
        } else {
            "normal<2^63"
        };
        rep.case(if w == 0 { None } else { Some(format!("d{:016x}", w)) });
        rep.bump(&format!("double.{}", class));
        // NaN patterns: moving a double through a register may set the quiet bit (bit 51) on some platforms (x87);
        // where the platform's own from_bits/to_bits round trip preserves the pattern (x86-64 SSE2, aarch64: always)
        // the comparison is exact, otherwise bit 51 is ignored for that pattern and the case is counted.
        let platform_w = f.to_bits();
        let mask: u64 = if platform_w == w {
            !0
        } else {
            nan_altered += 1;
            !(1u64 << 51)
        };
        let bytes = le(w); // the property: byte i = (w >> 8i) & 0xFF
        let reference = f.to_le_bytes(); // Rust's reference encoder
        let got = std::panic::catch_unwind(|| f64_to_bytes(f));
        let got_w = got.as_ref().ok().map(|b| u64::from_le_bytes(*b));
        let got_s = match &got {
            Ok(b) => format!("{:?}", b),
            Err(_) => "panic".to_owned(),
        };
        if got_w.map(|g| g & mask) != Some(w & mask) || (mask == !0 && bytes != reference) {
            rep.fail(Failure {
                kind: Kind::ImplVsProperty,
                signature: format!("f64_to_bytes:{}", class),
                input: format!("f64_to_bytes({:e}) [bits {:016x}]", f, w),
                implementation: got_s.clone(),
                expected: format!("{:?} (f64::to_le_bytes: {:?})", bytes, reference),
                note: "MKD$ must yield the IEEE-754 binary64 bytes, least significant first".into(),
            });
        }
        let back = std::panic::catch_unwind(|| bytes_to_f64(&bytes));
        let back_s = match &back {
            Ok(x) => format!("{:016x}", x.to_bits()),
            Err(_) => "panic".to_owned(),
        };
        // exact inverse for every pattern: -0.0, infinities and NaN payloads included
        if back.as_ref().ok().map(|x| x.to_bits() & mask) != Some(w & mask) {
            rep.fail(Failure {
                kind: Kind::ImplVsProperty,
                signature: format!("bytes_to_f64:{}", class),
                input: format!("bytes_to_f64({:?}) [{:e}]", bytes, f),
                implementation: back_s.clone(),
                expected: format!("{:016x}", w),
                note: "CVD must be the exact inverse of the IEEE-754 encoding".into(),
            });
        }
        // implementation vs model
        let m_bytes = &answers[at];
        let m_back = &answers[at + 1];
        let i_bytes = match &got {
            Ok(b) if mask == !0 => sx::ints(b.iter()),
            Ok(b) => sx::ints(le(u64::from_le_bytes(*b) & mask | w & !mask).iter()),
            Err(_) => "panic".to_owned(),
        };
        if *m_bytes != i_bytes {
            rep.fail(Failure {
                kind: Kind::ModelVsImpl,
                signature: "model:f64ToBytes".into(),
                input: reqs[at].clone(),
                implementation: i_bytes,
                expected: m_bytes.clone(),
                note: "RbModel.Bits.f64ToBytes on the bit pattern of the argument".into(),
            });
        }
        let i_back = match &back {
            Ok(x) => (x.to_bits() & mask | w & !mask).to_string(),
            Err(_) => "panic".to_owned(),
        };
        if *m_back != i_back {
            rep.fail(Failure {
                kind: Kind::ModelVsImpl,
                signature: "model:bytesToF64".into(),
                input: reqs[at + 1].clone(),
                implementation: i_back,
                expected: m_back.clone(),
                note: "RbModel.Bits.bytesToF64 vs the bit pattern of the result".into(),
            });
        }
        at += 2;
        if k < n_structured {
            // The trusted base, sampled: the value IEEE-754 assigns to the model's fields (sign, exponent, fraction),
            // computed with exact floating point operations only, is the double Rust's from_bits makes of the pattern.
            let fields = &answers[at];
            at += 1;
            let nums: Vec<u64> = fields
                .trim_matches(|c| c == '(' || c == ')')
                .split_whitespace()
                .filter_map(|t| t.parse().ok())
                .collect();
            let ok = if let [s, e, m] = nums[..] {
                let sign_ok = f.is_sign_negative() == (s == 1) && s <= 1;
                let value_ok = if e == 2047 {
                    if m == 0 { f.is_infinite() } else { f.is_nan() }
                } else if e == 0 {
                    // m * 2^-1074, in two exact steps (the product is representable, so the last one is exact too)
                    (m as f64) * pow2(-537) * pow2(-537) == f.abs()
                } else {
                    // (2^52 + m) * 2^(e - 1075)
                    let j = e as i32 - 1075;
                    ((m + (1u64 << 52)) as f64) * pow2(j / 2) * pow2(j - j / 2) == f.abs()
                };
                sign_ok && value_ok && e < 2048 && m < (1u64 << 52)
            } else {
                false
            };
            rep.bump("double.ieee-value-of-model-fields");
            if !ok {
                rep.fail(Failure {
                    kind: Kind::ModelVsImpl,
                    signature: "model:f64Fields-ieee-value".into(),
                    input: reqs[at - 1].clone(),
                    implementation: format!("f64::from_bits({:016x}) = {:e}", w, f),
                    expected: fields.clone(),
                    note: "(-1)^s * (1.f) * 2^(e-1023), subnormal 0.f * 2^-1022, e=2047: infinity/NaN, from RbModel.Bits.f64Sign/f64Exponent/f64Fraction".into(),
                });
            }
        }
    }
    rep.bump_by("double.nan-pattern-altered-by-platform(bit 51 ignored)", nan_altered);
    rep.sample(J::s(format!("{} -> {}", reqs[0], answers[0])));
    rep.sample(J::s(format!("{} -> {}", reqs[reqs.len() - 2], answers[reqs.len() - 2])));

    // ---- 5. MKD$ / CVD at program level --------------------------------------------------------
    // (a) a string of 8 arbitrary bytes S$: MKD$(CVD(S$)) = S$ (string comparison: exact), LEN = 8, and
    //     CVD(MKD$(X#)) = X# for X# = CVD(S$) (the interpreter compares doubles with a tolerance: a weak observation).
    // (b) a double computed by arithmetic (an integer scaled by repeated multiplication by 2 or .5#, so that it goes beyond
    //     2^63 or below 2^-1022): MKD$(X#) is the expected string and CVD(MKD$(X#)) = X#.
    let n_prog = if thorough { 3000 } else { 300 };
    // the model of CVD (RbModel.Bits.cvd: the pattern, or Overflow when the exponent field is all ones) on the same strings
    let cvd_reqs: Vec<String> = (0..n_prog)
        .map(|k| {
            let w = if k < n_prog / 2 { patterns[(k * 37) % n_structured] } else { patterns[n_structured + k] };
            format!("(bits.cvd ({}))", le(w).iter().map(|x| x.to_string()).collect::<Vec<_>>().join(" "))
        })
        .collect();
    let cvd_answers = ask(&cvd_reqs);
    for k in 0..n_prog {
        let w = if k < n_prog / 2 { patterns[(k * 37) % n_structured] } else { patterns[n_structured + k] };
        let b = le(w);
        let chrs = |b: &[u8; 8]| b.iter().map(|x| format!("CHR$({})", x)).collect::<Vec<_>>().join(" + ");
        let text = format!(
            "S$ = {}\nX# = CVD(S$)\nT$ = MKD$(X#)\nPRINT T$ = S$; LEN(T$); CVD(T$) = X#; CVD(MKD$(-X#)) = -X#\n",
            chrs(&b)
        );
        let out = run_program(&text);
        rep.case(Some(format!("pd{:016x}", w)));
        rep.bump("program.cvd-mkd-bytes");
        // model vs implementation: CVD raises Overflow exactly where the model does, and answers the pattern otherwise
        {
            let overflowed = out.starts_with("runtime-error") && out.contains("Overflow") && out.contains("row: 2");
            let model = cvd_answers[k].as_str();
            let agree = if model == "overflow" { overflowed } else { model == format!("(ok {})", w) && !out.starts_with("runtime-error") };
            if !agree {
                rep.fail(Failure {
                    kind: Kind::ModelVsImpl,
                    signature: "model:cvd".into(),
                    input: text.clone(),
                    implementation: out.clone(),
                    expected: format!("model {}: {}", cvd_reqs[k], model),
                    note: "RbModel.Bits.cvd: the pattern of the 8 bytes, Overflow when they encode an infinity or a NaN".into(),
                });
            }
        }
        // since /repo 181b08f CVD raises Overflow (6) for the 8-byte strings that encode an infinity or a NaN: a DOUBLE
        // only ever holds a finite number (C06), and C19 claims CVD(MKD$(x)) = x for finite x only
        if (w >> 52) & 0x7ff == 2047 {
            rep.bump("program.cvd-mkd-bytes.non-finite-pattern");
            if !(out.starts_with("runtime-error") && out.contains("Overflow") && out.contains("row: 2")) {
                rep.fail(Failure {
                    kind: Kind::ImplVsProperty,
                    signature: "program:cvd-non-finite".into(),
                    input: text.clone(),
                    implementation: out,
                    expected: "runtime error Overflow at the CVD statement (row 2)".into(),
                    note: "8 bytes that encode an infinity or a NaN are not a value of a DOUBLE: CVD raises Overflow".into(),
                });
            }
            continue;
        }
        let expected = "-1  8 -1 -1";
        if out != expected {
            rep.fail(Failure {
                kind: Kind::ImplVsProperty,
                signature: "program:cvd-mkd".into(),
                input: text.clone(),
                implementation: out,
                expected: expected.into(),
                note: "program-level MKD$(CVD(S$)) = S$ for 8 arbitrary bytes, CVD(MKD$(X#)) = X#".into(),
            });
        }
        if k == 0 {
            rep.sample(J::s(text));
        }
    }
    for k in 0..n_prog {
        let m = if k % 3 == 0 { 1 + rng.below(15) as i64 } else { rng.range(1, 2_000_000_000) };
        let m = if k % 2 == 0 { m } else { -m };
        let up = k % 4 < 2;
        // a quarter of the programs end among the subnormals (or at zero)
        let steps = if k % 4 == 3 { 1000 + rng.below(100) as i32 } else { rng.below(1100) as i32 };
        let mut x = m as f64;
        for _ in 0..steps {
            x *= if up { 2.0 } else { 0.5 };
        }
        if !x.is_finite() {
            continue; // overflow is a run-time error of the program, not this property
        }
        let b = le(x.to_bits());
        let text = format!(
            "X# = {}\nFOR I% = 1 TO {}\nX# = X# * {}\nNEXT\nT$ = MKD$(X#)\nPRINT T$ = {}; LEN(T$); CVD(T$) = X#\n",
            m,
            steps,
            // (not `/ 2`: Variant::divide snaps quotients within 1e-4 of an integer to that integer, which is not this property)
            if up { "2" } else { ".5#" },
            b.iter().map(|x| format!("CHR$({})", x)).collect::<Vec<_>>().join(" + ")
        );
        let out = run_program(&text);
        rep.case(Some(format!("pa{},{},{}", m, steps, up)));
        rep.bump(if x.abs() >= 9.223372036854775808e18 {
            "program.mkd-of-computed.magnitude>=2^63"
        } else if !x.is_normal() {
            "program.mkd-of-computed.subnormal-or-zero"
        } else {
            "program.mkd-of-computed.normal<2^63"
        });
        let expected = "-1  8 -1";
        if out != expected {
            rep.fail(Failure {
                kind: Kind::ImplVsProperty,
                signature: "program:mkd-of-computed".into(),
                input: text.clone(),
                implementation: out,
                expected: expected.into(),
                note: format!("MKD$ of {} scaled {} times by 2 ({:e}) must be the IEEE-754 bytes {:?}", m, steps, x, b),
            });
        }
        if k == 0 {
            rep.sample(J::s(text));
        }
    }
    rep.finish();
}
