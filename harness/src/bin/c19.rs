//! C19 — bit-level primitives vs two's complement / IEEE-754, and vs the Lean model `RbModel.Bits`
//! (integers: bit vectors; doubles: the 64-bit pattern split into 8 bytes, least significant first, and joined back).

use rb_harness::driver::ask;
use rb_harness::json::J;
use rb_harness::report::{Failure, Kind, Report};
use rb_harness::rng::Rng;
use rb_harness::sx;
use rusty_basic::interpreter::verif::run_in_memory;
use rusty_variant::{Variant, bytes_to_f64, bytes_to_i32, f64_to_bytes, i32_to_bytes, qb_and, qb_or};

fn boundary_set() -> Vec<i32> {
    let mut v: Vec<i32> = vec![
        -32768, -32767, -32766, -16385, -16384, -16383, -257, -256, -255, -129, -128, -127, -3, -2, -1, 0, 1, 2, 3,
        127, 128, 129, 255, 256, 257, 16383, 16384, 16385, 21845, -21846, 32765, 32766, 32767, 0x0F0F, 0x00FF,
        -0x0100, 0x3333, 0x5A5A, -0x5A5B,
    ];
    for k in 0..15 {
        v.push(1 << k); // one-hot
        v.push(-(1 << k) - 1); // complement of one-hot
        v.push((1 << k) - 1);
        v.push(-(1 << k));
    }
    v.sort();
    v.dedup();
    v
}

fn variant_int(v: Result<Variant, rusty_variant::VariantError>) -> String {
    match v {
        Ok(Variant::VInteger(i)) => i.to_string(),
        Ok(other) => format!("non-integer {:?}", other),
        Err(e) => format!("error {:?}", e),
    }
}

fn run_program(text: &str) -> String {
    match std::panic::catch_unwind(|| run_in_memory(text, b"", 200_000, None, false)) {
        Ok(Ok(r)) => match r.result {
            Ok(()) => String::from_utf8_lossy(&r.stdout)
                .split("\r\n")
                .map(|l| l.trim_end().to_owned())
                .collect::<Vec<_>>()
                .join("|")
                .trim_end_matches('|')
                .to_owned(),
            Err(e) => format!("runtime-error {:?}", e),
        },
        Ok(Err(e)) => format!("front-end-error {:?}", e),
        Err(_) => "panic".to_owned(),
    }
}

// ---------------------------------------------------------------------------------------------
// Family `layout`: PEEK / POKE / VARPTR under declaration histories.
//
// The property speaks of "the two bytes PEEK reads from and POKE writes to an INTEGER variable": where that
// variable lives is decided by everything declared before it (VARPTR adds up the sizes of the variables in front,
// PEEK / POKE walk over them again), so the programs of this family put 0-3 arrays (every element type, one or two
// dimensions, a few elements or thousands of bytes) and scalars of every type in front of and behind the variable,
// at module level, in a SUB, in a FUNCTION, in a STATIC SUB (called twice), with DIM SHARED (inspected from inside
// a SUB) and as a by-reference parameter; the variable itself is a plain INTEGER, an element of an INTEGER array,
// an INTEGER member of a TYPE variable or of an element of an array of TYPE.  Oracle (the property, nothing about
// addresses): PEEK(VARPTR(x)) and PEEK(VARPTR(x) + 1) are the low and the high byte of x's 16-bit word, after
// POKEing the two bytes of b there x = b, and EVERY other variable and array element still holds what it held
// (small arrays are printed element by element, large ones as a weighted sum).
// ---------------------------------------------------------------------------------------------

#[derive(Clone, Copy, PartialEq, Debug)]
enum Ty {
    Int,
    Long,
    Sgl,
    Dbl,
    Str,
    Fix(usize),
    Card,
}

impl Ty {
    fn basic(self) -> String {
        match self {
            Ty::Int => "INTEGER".into(),
            Ty::Long => "LONG".into(),
            Ty::Sgl => "SINGLE".into(),
            Ty::Dbl => "DOUBLE".into(),
            Ty::Str => "STRING".into(),
            Ty::Fix(n) => format!("STRING * {}", n),
            Ty::Card => "Card".into(),
        }
    }
    fn sigil(self) -> &'static str {
        match self {
            Ty::Int => "%",
            Ty::Long => "&",
            Ty::Sgl => "!",
            Ty::Dbl => "#",
            Ty::Str => "$",
            _ => "",
        }
    }
    fn name(self) -> &'static str {
        match self {
            Ty::Int => "integer",
            Ty::Long => "long",
            Ty::Sgl => "single",
            Ty::Dbl => "double",
            Ty::Str => "string",
            Ty::Fix(_) => "fixed-string",
            Ty::Card => "type",
        }
    }
}

#[derive(Clone, Debug, PartialEq)]
enum Val {
    N(f64),
    S(String),
    C(i32, String, i32),
}

#[derive(Clone, Debug)]
struct LVar {
    /// the name as the program writes it (with its sigil when the variable is implicit)
    name: String,
    ty: Ty,
    /// empty: a scalar
    dims: Vec<(i32, i32)>,
    shared: bool,
    /// no DIM: the variable comes into existence with its first assignment
    implicit: bool,
    /// numeric arrays of more than 64 elements: filled and summed by loops
    large: bool,
    /// seed of the values
    idx: usize,
}

impl LVar {
    fn count(&self) -> usize {
        self.dims.iter().map(|(l, h)| (h - l + 1) as usize).product()
    }
    fn indices(&self) -> Vec<Vec<i32>> {
        let mut res: Vec<Vec<i32>> = vec![vec![]];
        for (l, h) in &self.dims {
            let mut next = vec![];
            for p in &res {
                for i in *l..=*h {
                    let mut q = p.clone();
                    q.push(i);
                    next.push(q);
                }
            }
            res = next;
        }
        res
    }
    fn elem_ref(&self, ix: &[i32]) -> String {
        if ix.is_empty() {
            self.name.clone()
        } else {
            format!("{}({})", self.name, ix.iter().map(|i| i.to_string()).collect::<Vec<_>>().join(", "))
        }
    }
    /// the value the element with ordinal k (small) / index tuple ix (large) is given
    fn value(&self, k: usize, ix: &[i32]) -> Val {
        let c = self.idx as i32;
        if self.large {
            let (i, j) = (ix[0], ix.get(1).copied().unwrap_or(0));
            return Val::N((((i * 3 + j) % 97) + c + 1) as f64);
        }
        let k = k as i32;
        let sign = if (k + c) % 3 == 0 { -1 } else { 1 };
        let letters = |n: usize| -> String { (0..n).map(|p| (b'a' + ((c as usize * 5 + k as usize * 3 + p) % 26) as u8) as char).collect() };
        match self.ty {
            Ty::Int => Val::N((sign * (100 * (c + 1) + k + 1)) as f64),
            Ty::Long => Val::N((sign * (100_000 * (c + 1) + k + 1)) as f64),
            Ty::Sgl => Val::N((sign * (10 * (c + 1) + k)) as f64 + 0.5),
            Ty::Dbl => Val::N((sign * (1000 * (c + 1) + k)) as f64 + 0.25),
            Ty::Str => Val::S(letters(1 + ((c + k) as usize % 6))),
            Ty::Fix(n) => Val::S(letters(n)),
            Ty::Card => Val::C(sign * (300 + 7 * c + k), letters(5), -sign * (20 * c + k + 1)),
        }
    }
    fn bytes(&self) -> usize {
        let one = match self.ty {
            Ty::Int => 2,
            Ty::Long | Ty::Sgl => 4,
            Ty::Dbl => 8,
            Ty::Str => 6,
            Ty::Fix(n) => n,
            Ty::Card => 9,
        };
        one * self.count()
    }
    fn weight(ix: &[i32]) -> i64 {
        let (i, j) = (ix[0] as i64, ix.get(1).copied().unwrap_or(0) as i64);
        (i + 2 * j) % 5 + 1
    }
}

/// Which INTEGER the program inspects.
#[derive(Clone, Debug, PartialEq)]
enum Target {
    Plain,
    Elem(Vec<i32>),
    Member(&'static str),
    ElemMember(Vec<i32>, &'static str),
}

impl Target {
    fn name(&self) -> &'static str {
        match self {
            Target::Plain => "plain",
            Target::Elem(_) => "array-element",
            Target::Member(_) => "type-member",
            Target::ElemMember(..) => "type-array-element-member",
        }
    }
}

#[derive(Clone, Copy, Debug, PartialEq)]
enum Scope {
    Module,
    Sub,
    Function,
    StaticSub,
    SharedInSub,
    Param,
}

impl Scope {
    fn name(self) -> &'static str {
        match self {
            Scope::Module => "module",
            Scope::Sub => "sub-local",
            Scope::Function => "function-local",
            Scope::StaticSub => "static-sub-local",
            Scope::SharedInSub => "dim-shared-from-sub",
            Scope::Param => "byref-parameter",
        }
    }
}

#[derive(Clone, Debug)]
struct Layout {
    scope: Scope,
    target: Target,
    owner: LVar,
    /// in the owner's scope, before / after it
    pre: Vec<LVar>,
    post: Vec<LVar>,
    /// the other scope: module-level variables when the owner is local to a procedure, locals of the procedure when
    /// the owner is a module-level variable looked at from inside a procedure (nothing for Scope::Module)
    other: Vec<LVar>,
    a: i32,
    b: i32,
    /// 0: VARPTR written out in every PEEK / POKE; 1: kept in PP%, which exists from the start; 2: PP% made on the spot
    ptr_mode: u8,
    /// DEF SEG = VARSEG(x) also where x is in the default segment (it is always there for array elements)
    def_seg: bool,
    /// all DIMs of a scope first, then the assignments (implicit variables then come after every declared one)
    dims_first: bool,
}

fn fmt_n(x: f64) -> String {
    let t = if x == x.trunc() { format!("{}", x as i64) } else { format!("{}", x) };
    if x < 0.0 { t } else { format!(" {}", t) }
}

struct Emit {
    lines: Vec<String>,
    expected: Vec<String>,
}

impl Emit {
    fn stmt(&mut self, indent: &str, s: String) {
        self.lines.push(format!("{}{}", indent, s));
    }
}

impl Layout {
    fn x_ref(&self) -> String {
        match &self.target {
            Target::Plain => self.owner.name.clone(),
            Target::Elem(ix) => self.owner.elem_ref(ix),
            Target::Member(f) => format!("{}.{}", self.owner.name, f),
            Target::ElemMember(ix, f) => format!("{}.{}", self.owner.elem_ref(ix), f),
        }
    }

    fn in_array(&self) -> bool {
        matches!(self.target, Target::Elem(_) | Target::ElemMember(..))
    }

    fn declare(v: &LVar, ind: &str, out: &mut Vec<String>) {
        if v.implicit {
            return;
        }
        let dims = if v.dims.is_empty() {
            String::new()
        } else {
            format!(
                "({})",
                v.dims.iter().map(|(l, h)| if *l == 0 && (h % 2 == 1) { format!("{}", h) } else { format!("{} TO {}", l, h) }).collect::<Vec<_>>().join(", ")
            )
        };
        out.push(format!("{}DIM {}{}{} AS {}", ind, if v.shared { "SHARED " } else { "" }, v.name, dims, v.ty.basic()));
    }

    fn assign_val(target: &str, val: &Val, ind: &str, out: &mut Vec<String>) {
        match val {
            Val::N(x) => out.push(format!("{}{} = {}", ind, target, if *x == x.trunc() { format!("{}", *x as i64) } else { format!("{}", x) })),
            Val::S(s) => out.push(format!("{}{} = \"{}\"", ind, target, s)),
            Val::C(v, s, l) => {
                out.push(format!("{}{}.V = {}", ind, target, v));
                out.push(format!("{}{}.S = \"{}\"", ind, target, s));
                out.push(format!("{}{}.L = {}", ind, target, l));
            }
        }
    }

    fn init(v: &LVar, ind: &str, out: &mut Vec<String>) {
        if v.large {
            let c = v.idx as i32 + 1;
            if v.dims.len() == 1 {
                out.push(format!("{}FOR CI% = {} TO {} : {}(CI%) = ((CI% * 3) MOD 97) + {} : NEXT", ind, v.dims[0].0, v.dims[0].1, v.name, c));
            } else {
                out.push(format!(
                    "{}FOR CI% = {} TO {} : FOR CJ% = {} TO {} : {}(CI%, CJ%) = ((CI% * 3 + CJ%) MOD 97) + {} : NEXT : NEXT",
                    ind, v.dims[0].0, v.dims[0].1, v.dims[1].0, v.dims[1].1, v.name, c
                ));
            }
            return;
        }
        if v.dims.is_empty() {
            Self::assign_val(&v.name, &v.value(0, &[]), ind, out);
        } else {
            for (k, ix) in v.indices().iter().enumerate() {
                Self::assign_val(&v.elem_ref(ix), &v.value(k, ix), ind, out);
            }
        }
    }

    /// PRINT statements for every element of v and the lines they must produce; `over` = the element / member of v
    /// that holds `x` instead of its initial value.
    fn show(v: &LVar, over: Option<(&Target, i32)>, ind: &str, e: &mut Emit) {
        let put = |e: &mut Emit, r: &str, val: &Val, o: Option<(&'static str, i32)>| match val {
            Val::N(x) => {
                e.stmt(ind, format!("PRINT {}", r));
                e.expected.push(fmt_n(match o {
                    Some((_, b)) => b as f64,
                    None => *x,
                }));
            }
            Val::S(s) => {
                e.stmt(ind, format!("PRINT \"[\" + {} + \"]\"", r));
                e.expected.push(format!("[{}]", s));
            }
            Val::C(vv, s, l) => {
                e.stmt(ind, format!("PRINT {}.V : PRINT \"[\" + {}.S + \"]\" : PRINT {}.L", r, r, r));
                let (vv, l) = match o {
                    Some(("V", b)) => (b, *l),
                    Some((_, b)) => (*vv, b),
                    None => (*vv, *l),
                };
                e.expected.push(fmt_n(vv as f64));
                e.expected.push(format!("[{}]", s));
                e.expected.push(fmt_n(l as f64));
            }
        };
        if v.large {
            // weighted sum over all elements, in a LONG
            let mut sum: i64 = 0;
            for ix in v.indices() {
                let mut x = match v.value(0, &ix) {
                    Val::N(x) => x as i64,
                    _ => 0,
                };
                if let Some((Target::Elem(at), b)) = over {
                    if *at == ix {
                        x = b as i64;
                    }
                }
                sum += x * LVar::weight(&ix);
            }
            if v.dims.len() == 1 {
                e.stmt(ind, format!("CK& = 0 : FOR CI% = {} TO {} : CW& = CI% MOD 5 + 1 : CK& = CK& + {}(CI%) * CW& : NEXT : PRINT CK&", v.dims[0].0, v.dims[0].1, v.name));
            } else {
                e.stmt(
                    ind,
                    format!(
                        "CK& = 0 : FOR CI% = {} TO {} : FOR CJ% = {} TO {} : CW& = (CI% + 2 * CJ%) MOD 5 + 1 : CK& = CK& + {}(CI%, CJ%) * CW& : NEXT : NEXT : PRINT CK&",
                        v.dims[0].0, v.dims[0].1, v.dims[1].0, v.dims[1].1, v.name
                    ),
                );
            }
            e.expected.push(fmt_n(sum as f64));
            return;
        }
        if v.dims.is_empty() {
            let o = match over {
                Some((Target::Plain, b)) => Some(("", b)),
                Some((Target::Member(f), b)) => Some((*f, b)),
                _ => None,
            };
            put(e, &v.name, &v.value(0, &[]), o);
        } else {
            for (k, ix) in v.indices().iter().enumerate() {
                let o = match over {
                    Some((Target::Elem(at), b)) if at == ix => Some(("", b)),
                    Some((Target::ElemMember(at, f), b)) if at == ix => Some((*f, b)),
                    _ => None,
                };
                put(e, &v.elem_ref(ix), &v.value(k, ix), o);
            }
        }
    }

    /// DIMs and assignments of a scope's variables, in declaration order.
    fn set_up(&self, vars: &[&LVar], ind: &str, e: &mut Emit) {
        let mut out = vec![];
        if self.dims_first {
            for v in vars {
                Self::declare(v, ind, &mut out);
            }
            for v in vars {
                Self::init(v, ind, &mut out);
            }
        } else {
            for v in vars {
                Self::declare(v, ind, &mut out);
                Self::init(v, ind, &mut out);
            }
        }
        e.lines.extend(out);
    }

    /// x = a, both PEEKs, both POKEs, both PEEKs again, x.
    fn inspect(&self, x: &str, ind: &str, e: &mut Emit) {
        let wa = (self.a as i16) as u16;
        let wb = (self.b as i16) as u16;
        e.stmt(ind, format!("{} = {}", x, self.a));
        if self.in_array() || self.def_seg {
            e.stmt(ind, format!("DEF SEG = VARSEG({})", x));
        }
        let p = if self.ptr_mode == 0 {
            format!("VARPTR({})", x)
        } else {
            e.stmt(ind, format!("PP% = VARPTR({})", x));
            "PP%".to_owned()
        };
        e.stmt(ind, format!("PRINT PEEK({}); PEEK({} + 1)", p, p));
        e.expected.push(format!("{}{}", fmt_n((wa & 0xFF) as f64), format!(" {}", fmt_n((wa >> 8) as f64))));
        e.stmt(ind, format!("POKE {}, {}", p, wb & 0xFF));
        e.stmt(ind, format!("POKE {} + 1, {}", p, wb >> 8));
        e.stmt(ind, format!("PRINT PEEK({}); PEEK({} + 1)", p, p));
        e.expected.push(format!("{}{}", fmt_n((wb & 0xFF) as f64), format!(" {}", fmt_n((wb >> 8) as f64))));
        if self.in_array() || self.def_seg {
            e.stmt(ind, "DEF SEG".to_owned());
        }
        e.stmt(ind, format!("PRINT {}", x));
        e.expected.push(fmt_n(self.b as f64));
    }

    fn uses_card(&self) -> bool {
        self.pre.iter().chain(&self.post).chain(&self.other).chain(std::iter::once(&self.owner)).any(|v| v.ty == Ty::Card)
    }

    /// (program text, expected output lines joined like `run_program` joins them)
    fn program(&self) -> (String, String) {
        let mut e = Emit { lines: vec![], expected: vec![] };
        if self.uses_card() {
            e.lines.push("TYPE Card\n  V AS INTEGER\n  S AS STRING * 5\n  L AS INTEGER\nEND TYPE".to_owned());
        }
        let own: Vec<&LVar> = self.pre.iter().chain(std::iter::once(&self.owner)).chain(self.post.iter()).collect();
        let other: Vec<&LVar> = self.other.iter().collect();
        let x = self.x_ref();
        let show_own = |e: &mut Emit, ind: &str, over_b: i32| {
            for v in self.pre.iter() {
                Self::show(v, None, ind, e);
            }
            Self::show(&self.owner, Some((&self.target, over_b)), ind, e);
            for v in self.post.iter() {
                Self::show(v, None, ind, e);
            }
        };
        match self.scope {
            Scope::Module => {
                if self.ptr_mode == 1 {
                    e.lines.push("PP% = 0".into());
                }
                self.set_up(&own, "", &mut e);
                self.inspect(&x, "", &mut e);
                show_own(&mut e, "", self.b);
            }
            Scope::Sub | Scope::Function | Scope::StaticSub => {
                if self.scope == Scope::Function {
                    e.lines.push("DECLARE FUNCTION FQ% ()".into());
                }
                self.set_up(&other, "", &mut e);
                let calls = if self.scope == Scope::StaticSub { 2 } else { 1 };
                // the procedure's body and what it prints
                let mut body = Emit { lines: vec![], expected: vec![] };
                if self.ptr_mode == 1 {
                    body.lines.push("  PP% = 0".into());
                }
                self.set_up(&own, "  ", &mut body);
                self.inspect(&x, "  ", &mut body);
                show_own(&mut body, "  ", self.b);
                for _ in 0..calls {
                    if self.scope == Scope::Function {
                        e.lines.push("RQ% = FQ%".into());
                    } else {
                        e.lines.push("Q".into());
                    }
                    e.expected.extend(body.expected.iter().cloned());
                }
                for v in &self.other {
                    Self::show(v, None, "", &mut e);
                }
                e.lines.push("END".into());
                e.lines.push(match self.scope {
                    Scope::Function => "FUNCTION FQ%".to_owned(),
                    Scope::StaticSub => "SUB Q STATIC".to_owned(),
                    _ => "SUB Q".to_owned(),
                });
                e.lines.extend(body.lines);
                e.lines.push(if self.scope == Scope::Function { "  FQ% = 1\nEND FUNCTION".to_owned() } else { "END SUB".to_owned() });
            }
            Scope::SharedInSub => {
                self.set_up(&own, "", &mut e);
                e.lines.push("Q".into());
                // inside Q: its own locals first, then the look at the shared variable, then the locals again
                let mut body = Emit { lines: vec![], expected: vec![] };
                if self.ptr_mode == 1 {
                    body.lines.push("  PP% = 0".into());
                }
                self.set_up(&other, "  ", &mut body);
                self.inspect(&x, "  ", &mut body);
                for v in &self.other {
                    Self::show(v, None, "  ", &mut body);
                }
                e.expected.extend(body.expected.iter().cloned());
                show_own(&mut e, "", self.b);
                e.lines.push("END".into());
                e.lines.push("SUB Q".into());
                e.lines.extend(body.lines);
                e.lines.push("END SUB".into());
            }
            Scope::Param => {
                self.set_up(&own, "", &mut e);
                e.lines.push(format!("{} = {}", x, self.a));
                e.lines.push(format!("K9& = 70000 : P K9&, {}", x));
                let mut body = Emit { lines: vec![], expected: vec![] };
                if self.ptr_mode == 1 {
                    body.lines.push("  PP% = 0".into());
                }
                self.set_up(&other, "  ", &mut body);
                // the parameter is a variable of the procedure; the caller's variable gets its value on return
                let mut inner = self.clone();
                inner.target = Target::Plain;
                inner.inspect("PX", "  ", &mut body);
                body.stmt("  ", "PRINT PK".to_owned());
                body.expected.push(fmt_n(70000.0));
                for v in &self.other {
                    Self::show(v, None, "  ", &mut body);
                }
                e.expected.extend(body.expected.iter().cloned());
                show_own(&mut e, "", self.b);
                e.lines.push("END".into());
                e.lines.push("SUB P (PK AS LONG, PX AS INTEGER)".into());
                e.lines.extend(body.lines);
                e.lines.push("END SUB".into());
            }
        }
        let mut text = e.lines.join("\n");
        text.push('\n');
        (text, e.expected.join("|").trim_end_matches('|').to_owned())
    }

    fn vars_mut(&mut self) -> [&mut Vec<LVar>; 3] {
        [&mut self.pre, &mut self.post, &mut self.other]
    }
}

const ALL_TYPES: [Ty; 8] = [Ty::Int, Ty::Long, Ty::Sgl, Ty::Dbl, Ty::Str, Ty::Fix(3), Ty::Card, Ty::Fix(8)];

/// A variable for the surroundings: `array` 0 scalar, 1 small array, 2 large array (numeric types; small otherwise).
fn make_var(rng: &mut Rng, name: &str, ty: Ty, array: u8, shared: bool, idx: usize) -> LVar {
    let numeric = matches!(ty, Ty::Int | Ty::Long | Ty::Sgl | Ty::Dbl);
    let (dims, large): (Vec<(i32, i32)>, bool) = match array {
        0 => (vec![], false),
        2 if numeric => {
            let one = match ty {
                Ty::Int => 2,
                Ty::Dbl => 8,
                _ => 4,
            };
            let n = (rng.range(3000, 8000) as i32) / one; // 3000..8000 bytes
            if rng.chance(1, 2) {
                let lo = rng.range(0, 1) as i32;
                (vec![(lo, lo + n - 1)], true)
            } else {
                let cols = rng.range(5, 25) as i32;
                (vec![(1, (n / cols).max(2)), (0, cols - 1)], true)
            }
        }
        _ => {
            if rng.chance(2, 3) {
                let lo = *rng.pick(&[0, 0, 1, 1, -2, 5]);
                (vec![(lo, lo + rng.range(0, 5) as i32)], false)
            } else {
                let l2 = rng.range(0, 1) as i32;
                (vec![(1, rng.range(1, 3) as i32), (l2, l2 + rng.range(1, 2) as i32)], false)
            }
        }
    };
    let implicit = dims.is_empty() && !shared && !matches!(ty, Ty::Fix(_) | Ty::Card) && rng.chance(1, 3);
    LVar {
        name: if implicit { format!("{}{}", name, ty.sigil()) } else { name.to_owned() },
        ty,
        dims,
        shared,
        implicit,
        large,
        idx,
    }
}

fn layout_family(rep: &mut Report, rng: &mut Rng, thorough: bool, bs: &[i32]) {
    let scopes = [Scope::Module, Scope::Sub, Scope::Function, Scope::StaticSub, Scope::SharedInSub, Scope::Param];
    let mut specs: Vec<Layout> = vec![];
    let mut ty_at = 0usize;
    let rounds = if thorough { 30 } else { 3 };
    for round in 0..rounds {
        for &scope in &scopes {
            for t in 0..4 {
                for arrays_before in 0..=3usize {
                    for arrays_after in 0..=1usize {
                        let mut idx = 0usize;
                        let mut budget: usize = 24_000; // VARPTR is an INTEGER function: everything stays below 32768
                        let mut next_ty = || {
                            ty_at += 1;
                            ALL_TYPES[ty_at % ALL_TYPES.len()]
                        };
                        let owner_shared = scope == Scope::SharedInSub;
                        // the owner of x
                        let big_owner = rng.chance(1, 3);
                        let mut owner = match t {
                            0 => make_var(rng, "X", Ty::Int, 0, owner_shared, 0),
                            1 => make_var(rng, "XA", Ty::Int, if big_owner { 2 } else { 1 }, owner_shared, 0),
                            2 => make_var(rng, "XC", Ty::Card, 0, owner_shared, 0),
                            _ => make_var(rng, "XCA", Ty::Card, 1, owner_shared, 0),
                        };
                        owner.implicit = owner.implicit && t == 0;
                        budget -= owner.bytes().min(budget);
                        let pick_ix = |rng: &mut Rng, v: &LVar| -> Vec<i32> {
                            let all = v.indices();
                            match rng.below(3) {
                                0 => all[0].clone(),
                                1 => all[all.len() - 1].clone(),
                                _ => all[rng.below(all.len() as u64) as usize].clone(),
                            }
                        };
                        let target = match t {
                            0 => Target::Plain,
                            1 => Target::Elem(pick_ix(rng, &owner)),
                            2 => Target::Member(if rng.chance(1, 2) { "V" } else { "L" }),
                            _ => Target::ElemMember(pick_ix(rng, &owner), if rng.chance(1, 2) { "V" } else { "L" }),
                        };
                        let local_scope = matches!(scope, Scope::Sub | Scope::Function | Scope::StaticSub);
                        let mut surround = |rng: &mut Rng, n_arrays: usize, prefix: &str, shared_ok: bool, budget: &mut usize, idx: &mut usize| -> Vec<LVar> {
                            let mut vs = vec![];
                            let n_scalars = rng.range(0, 3) as usize;
                            let mut kinds: Vec<u8> = vec![];
                            for _ in 0..n_arrays {
                                kinds.push(if rng.chance(1, 3) { 2 } else { 1 });
                            }
                            for _ in 0..n_scalars {
                                kinds.push(0);
                            }
                            // arrays and scalars in a random order
                            for i in (1..kinds.len()).rev() {
                                let j = rng.below(i as u64 + 1) as usize;
                                kinds.swap(i, j);
                            }
                            for k in kinds {
                                *idx += 1;
                                let ty = next_ty();
                                let sh = shared_ok && rng.chance(1, 3);
                                let mut v = make_var(rng, &format!("{}{}", prefix, *idx), ty, k, sh, *idx);
                                if v.bytes() > *budget {
                                    v = make_var(rng, &format!("{}{}", prefix, *idx), ty, k.min(1), v.shared, *idx);
                                }
                                *budget -= v.bytes().min(*budget);
                                vs.push(v);
                            }
                            vs
                        };
                        let own_prefix = if local_scope { "L" } else { "M" };
                        let pre = surround(rng, arrays_before, own_prefix, !local_scope, &mut budget, &mut idx);
                        let post = surround(rng, arrays_after, own_prefix, !local_scope, &mut budget, &mut idx);
                        // the other scope: module level in front of a procedure's locals (an earlier memory block), or
                        // the locals of the procedure that looks at a module-level variable
                        let other = if scope == Scope::Module {
                            vec![]
                        } else {
                            let n = (arrays_before + round + t) % 4;
                            surround(rng, n, if local_scope { "M" } else { "L" }, local_scope, &mut budget, &mut idx)
                        };
                        let k = specs.len();
                        let (a, b) = if k % 3 != 2 {
                            (bs[(k * 5 + 1) % bs.len()], bs[(k * 11 + 7) % bs.len()])
                        } else {
                            (rng.range(-32768, 32767) as i32, rng.range(-32768, 32767) as i32)
                        };
                        specs.push(Layout {
                            scope,
                            target,
                            owner,
                            pre,
                            post,
                            other,
                            a,
                            b,
                            ptr_mode: rng.below(3) as u8,
                            def_seg: rng.chance(1, 3),
                            dims_first: rng.chance(1, 3),
                        });
                    }
                }
            }
        }
    }
    let run = |text: &str| -> String {
        match std::panic::catch_unwind(|| run_in_memory(text, b"", 5_000_000, None, false)) {
            Ok(Ok(r)) => {
                let out = String::from_utf8_lossy(&r.stdout).split("\r\n").map(|l| l.trim_end().to_owned()).collect::<Vec<_>>().join("|").trim_end_matches('|').to_owned();
                match r.result {
                    Ok(()) if r.budget_exhausted => format!("{}|instruction budget exhausted", out),
                    Ok(()) => out,
                    Err(e) => format!("{}|runtime-error {:?}", out, e),
                }
            }
            Ok(Err(e)) => format!("front-end-error {:?}", e),
            Err(_) => "panic".to_owned(),
        }
    };
    let mut reported: std::collections::BTreeSet<String> = Default::default();
    for (k, spec) in specs.iter().enumerate() {
        let (text, expected) = spec.program();
        let out = run(&text);
        let arrays_before = spec.pre.iter().filter(|v| !v.dims.is_empty()).count();
        let arrays_elsewhere = spec.other.iter().filter(|v| !v.dims.is_empty()).count();
        rep.case(Some(format!("layout{}", k)));
        rep.bump("program.layout");
        rep.bump(&format!("layout.scope.{}", spec.scope.name()));
        rep.bump(&format!("layout.target.{}", spec.target.name()));
        rep.bump(&format!("layout.arrays-before-in-scope.{}", arrays_before));
        rep.bump(&format!("layout.arrays-in-other-scope.{}", arrays_elsewhere));
        for v in spec.pre.iter().chain(&spec.post).chain(&spec.other) {
            rep.bump(&format!(
                "layout.surrounding.{}{}",
                v.ty.name(),
                if v.dims.is_empty() { "" } else if v.large { "-array-large" } else if v.dims.len() == 2 { "-array-2d" } else { "-array-1d" }
            ));
        }
        if out != expected {
            let sig = format!("program:layout:{}", spec.scope.name());
            // one (shrunk) report per scope and target kind
            if !reported.insert(format!("{}:{}", sig, spec.target.name())) {
                rep.bump("layout.further-failures-not-reported");
                continue;
            }
            // shrink: drop surrounding variables while the program still disagrees with the property
            let mut small = spec.clone();
            loop {
                let mut changed = false;
                for which in 0..3 {
                    let mut i = 0;
                    while i < small.vars_mut()[which].len() {
                        let mut cand = small.clone();
                        cand.vars_mut()[which].remove(i);
                        let (t, e) = cand.program();
                        if run(&t) != e {
                            small = cand;
                            changed = true;
                        } else {
                            i += 1;
                        }
                    }
                }
                for f in 0..3u8 {
                    let mut cand = small.clone();
                    match f {
                        0 if cand.ptr_mode != 0 => cand.ptr_mode = 0,
                        1 if cand.def_seg => cand.def_seg = false,
                        2 if cand.dims_first => cand.dims_first = false,
                        _ => continue,
                    }
                    let (t, e) = cand.program();
                    if run(&t) != e {
                        small = cand;
                        changed = true;
                    }
                }
                if !changed {
                    break;
                }
            }
            let (text, expected) = small.program();
            let out = run(&text);
            rep.fail(Failure {
                kind: Kind::ImplVsProperty,
                signature: sig,
                input: text,
                implementation: out,
                expected,
                note: format!(
                    "the INTEGER inspected is a {} ({}); the bytes PEEK reads at VARPTR(x), VARPTR(x) + 1 are x's word, low byte first; POKE there changes x and nothing else (every variable and array element is printed afterwards; large arrays as a weighted sum)",
                    small.target.name(),
                    small.scope.name()
                ),
            });
        }
        if k == 37 {
            rep.sample(J::s(text));
        }
    }
}

fn main() {
    std::panic::set_hook(Box::new(|_| {}));
    let mut rng = Rng::from_env();
    let mut rep = Report::new(
        "C19",
        "unary functions and byte conversions: all 65536 INTEGER values (class = value); binary AND/OR: all pairs of the \
         boundary/one-hot/complement set plus random pairs (class = operand pair); doubles: all powers of two, boundary \
         mantissas x boundary exponents, subnormals, values beyond 2^63, +-0, infinities, NaN patterns, random bit patterns \
         (class = bit pattern); program-level AND/OR/NOT/PEEK/POKE and MKD$/CVD (8 arbitrary bytes; doubles computed by \
         repeated doubling/halving) through the in-memory interpreter hook (class = program text); PEEK/POKE/VARPTR under declaration histories (family layout: the INTEGER is a plain variable, an array element, a TYPE member or a member of an element of an array of TYPE, with 0-3 arrays of every element type, 1-2 dimensions, small and large, and scalars of every type before and after it, at module level, local to a SUB / FUNCTION / STATIC SUB, DIM SHARED seen from a SUB, and as a by-reference parameter; every variable and array element is printed after the POKEs). A case is non-trivial unless every operand is 0.",
    );
    let thorough = rep.is_thorough();

    // ---- 1. unary / conversions, exhaustive over the INTEGER range -----------------------------
    let mut reqs: Vec<String> = vec![];
    for i in -32768..=32767i32 {
        reqs.push(format!("(bits.toBytes {})", i));
        reqs.push(format!("(bits.not {})", i));
        let w = (i as i16) as u16;
        reqs.push(format!("(bits.fromBytes ({} {}))", w & 0xFF, w >> 8));
    }
    let answers = ask(&reqs);
    for (k, i) in (-32768..=32767i32).enumerate() {
        rep.case(if i == 0 { None } else { Some(format!("u{}", i)) });
        let w = (i as i16) as u16;
        let le = [(w & 0xFF) as u8, (w >> 8) as u8];
        // implementation vs the property (two's complement, low byte first)
        let got = i32_to_bytes(i);
        if got != le {
            rep.fail(Failure {
                kind: Kind::ImplVsProperty,
                signature: "i32_to_bytes".into(),
                input: format!("i32_to_bytes({})", i),
                implementation: format!("{:?}", got),
                expected: format!("{:?}", le),
                note: "bytes of an INTEGER are its 16-bit two's-complement word, low byte first".into(),
            });
        }
        let back = bytes_to_i32(le);
        if back != i {
            rep.fail(Failure {
                kind: Kind::ImplVsProperty,
                signature: "bytes_to_i32".into(),
                input: format!("bytes_to_i32({:?})", le),
                implementation: back.to_string(),
                expected: i.to_string(),
                note: "bytes -> INTEGER must invert INTEGER -> bytes".into(),
            });
        }
        let not_impl = variant_int(Variant::VInteger(i).unary_not());
        let not_spec = (!(i as i16) as i32).to_string();
        if not_impl != not_spec {
            rep.fail(Failure {
                kind: Kind::ImplVsProperty,
                signature: "unary_not".into(),
                input: format!("NOT {}", i),
                implementation: not_impl.clone(),
                expected: not_spec,
                note: "NOT is the 16-bit complement".into(),
            });
        }
        // implementation vs model
        let m_bytes = &answers[3 * k];
        let i_bytes = sx::ints(got.iter());
        if *m_bytes != i_bytes {
            rep.fail(Failure {
                kind: Kind::ModelVsImpl,
                signature: "model:i32ToBytes".into(),
                input: reqs[3 * k].clone(),
                implementation: i_bytes,
                expected: m_bytes.clone(),
                note: "RbModel.Bits.i32ToBytes".into(),
            });
        }
        if answers[3 * k + 1] != not_impl {
            rep.fail(Failure {
                kind: Kind::ModelVsImpl,
                signature: "model:unaryNot".into(),
                input: reqs[3 * k + 1].clone(),
                implementation: not_impl,
                expected: answers[3 * k + 1].clone(),
                note: "RbModel.Bits.unaryNot".into(),
            });
        }
        if answers[3 * k + 2] != back.to_string() {
            rep.fail(Failure {
                kind: Kind::ModelVsImpl,
                signature: "model:bytesToI32".into(),
                input: reqs[3 * k + 2].clone(),
                implementation: back.to_string(),
                expected: answers[3 * k + 2].clone(),
                note: "RbModel.Bits.bytesToI32".into(),
            });
        }
    }
    rep.exhaustive_parts
        .push("i32_to_bytes, bytes_to_i32, NOT over all 65536 INTEGER values".into());
    rep.bump_by("unary.values", 65536);
    rep.sample(J::s(format!("{} -> {}", reqs[3 * 100], answers[3 * 100])));

    // ---- 2. binary AND / OR ------------------------------------------------------------------
    let bs = boundary_set();
    let mut pairs: Vec<(i32, i32)> = vec![];
    for &a in &bs {
        for &b in &bs {
            pairs.push((a, b));
        }
    }
    rep.exhaustive_parts
        .push(format!("AND/OR over all {} pairs of the {}-element boundary set", pairs.len(), bs.len()));
    let n_random = if thorough { 2_000_000 } else { 100_000 };
    for _ in 0..n_random {
        pairs.push((rng.range(-32768, 32767) as i32, rng.range(-32768, 32767) as i32));
    }
    let mut reqs: Vec<String> = Vec::with_capacity(pairs.len() * 2);
    for (a, b) in &pairs {
        reqs.push(format!("(bits.and {} {})", a, b));
        reqs.push(format!("(bits.or {} {})", a, b));
    }
    let answers = ask(&reqs);
    for (k, (a, b)) in pairs.iter().enumerate() {
        rep.case(if *a == 0 && *b == 0 { None } else { Some(format!("b{},{}", a, b)) });
        rep.bump(if *a < 0 && *b < 0 {
            "binary.neg-neg"
        } else if *a < 0 || *b < 0 {
            "binary.mixed-sign"
        } else {
            "binary.pos-pos"
        });
        let spec_and = ((*a as i16) & (*b as i16)) as i32;
        let spec_or = ((*a as i16) | (*b as i16)) as i32;
        let impl_and = std::panic::catch_unwind(|| qb_and(*a, *b)).map(|x| x.to_string()).unwrap_or("panic".into());
        let impl_or = std::panic::catch_unwind(|| qb_or(*a, *b)).map(|x| x.to_string()).unwrap_or("panic".into());
        for (name, imp, spec, model) in [
            ("AND", &impl_and, spec_and, &answers[2 * k]),
            ("OR", &impl_or, spec_or, &answers[2 * k + 1]),
        ] {
            if *imp != spec.to_string() {
                rep.fail(Failure {
                    kind: Kind::ImplVsProperty,
                    signature: format!("qb_{}", name.to_lowercase()),
                    input: format!("{} {} {}", a, name, b),
                    implementation: imp.clone(),
                    expected: spec.to_string(),
                    note: "AND/OR are the bitwise operations on 16-bit two's-complement words".into(),
                });
            }
            if imp != model {
                rep.fail(Failure {
                    kind: Kind::ModelVsImpl,
                    signature: format!("model:qb{}", name),
                    input: format!("{} {} {}", a, name, b),
                    implementation: imp.clone(),
                    expected: model.clone(),
                    note: "RbModel.Bits.qbAnd/qbOr".into(),
                });
            }
        }
    }
    rep.sample(J::s(format!("{} -> {}", reqs[7], answers[7])));

    // ---- 3. program level, through the real parser/linter/generator/VM ---------------------------
    let n_prog = if thorough { 3000 } else { 300 };
    for k in 0..n_prog {
        let (a, b) = if k < bs.len() {
            (bs[k], bs[(k * 7 + 3) % bs.len()])
        } else {
            (rng.range(-32768, 32767) as i32, rng.range(-32768, 32767) as i32)
        };
        let hi_lo = i32_to_bytes(b);
        let text = format!(
            "DEFINT A-Z\nA = {}\nB = {}\nPRINT A AND B; A OR B; NOT A\nPRINT PEEK(VARPTR(A)); PEEK(VARPTR(A) + 1)\nPOKE VARPTR(A), {}\nPOKE VARPTR(A) + 1, {}\nPRINT A\n",
            a, b, hi_lo[0], hi_lo[1]
        );
        let out = run_program(&text);
        let wa = (a as i16) as u16;
        let fmt = |x: i32| if x < 0 { format!("{} ", x) } else { format!(" {} ", x) };
        let expected = format!(
            "{}|{}|{}",
            format!(
                "{}{}{}",
                fmt(((a as i16) & (b as i16)) as i32),
                fmt(((a as i16) | (b as i16)) as i32),
                fmt(!(a as i16) as i32)
            )
            .trim_end(),
            format!("{}{}", fmt((wa & 0xFF) as i32), fmt((wa >> 8) as i32)).trim_end(),
            fmt(b).trim_end()
        );
        rep.case(Some(format!("p{},{}", a, b)));
        rep.bump("program.and-or-not-peek-poke");
        if out != expected {
            rep.fail(Failure {
                kind: Kind::ImplVsProperty,
                signature: "program:and-or-not-peek-poke".into(),
                input: text.clone(),
                implementation: out,
                expected,
                note: "program-level AND/OR/NOT, PEEK of both bytes, POKE of both bytes".into(),
            });
        }
        if k == 0 {
            rep.sample(J::s(text));
        }
    }

    // ---- 3b. PEEK / POKE / VARPTR under declaration histories (family `layout`, see above) ------------
    {
        // a stream of its own: the random choices of the sections below stay what they were
        let mut lrng = Rng(rng.0 ^ 0x0C19_1A70);
        layout_family(&mut rep, &mut lrng, thorough, &bs);
    }

    // ---- 4. doubles: MKD$/CVD vs IEEE-754 and vs the Lean model (RbModel.Bits.f64ToBytes / bytesToF64) ----
    // A double is identified by its bit pattern w; `structured` patterns get the full treatment (bytes,
    // inverse, model fields -> IEEE value), random ones bytes and inverse.
    let mut structured: Vec<u64> = vec![];
    for f in [0.0, 1.0, -1.0, 2.0, 0.5, 1.5, -2.5, 3.141592653589793, 1e10, 1e-10, 123456.789, -0.1f64] {
        structured.push(f.to_bits());
    }
    // all powers of two, normal (2^-1022 .. 2^1023) and subnormal (2^-1074 .. 2^-1023), both signs, and 1.5 * them
    for e in 1u64..=2046 {
        for sign in [0u64, 1 << 63] {
            structured.push(sign | (e << 52));
            structured.push(sign | (e << 52) | (1 << 51));
        }
    }
    for k in 0..52 {
        for sign in [0u64, 1 << 63] {
            structured.push(sign | (1u64 << k));
            structured.push(sign | (1u64 << k) | ((1u64 << k) >> 1));
        }
    }
    // boundary mantissas x boundary exponents (0 = zero/subnormal, 2047 = infinity/NaN, 1086.. = beyond 2^63)
    for m in [0u64, 1, 2, 3, 0xF_FFFF_FFFF_FFFF, 0xF_FFFF_FFFF_FFFE, 0x8_0000_0000_0000, 0x8_0000_0000_0001,
        0x7_FFFF_FFFF_FFFF, 0x5_5555_5555_5555, 0xA_AAAA_AAAA_AAAA, 0x0_0000_0000_00FF, 0x0_0000_0001_0000,
        0xF_0000_0000_0000, 0x0_FFFF_FFFF_FFFF]
    {
        for e in [0u64, 1, 2, 3, 1000, 1022, 1023, 1024, 1074, 1075, 1076, 1085, 1086, 1087, 1100, 2000, 2045, 2046, 2047] {
            structured.push((e << 52) | m);
            structured.push((1u64 << 63) | (e << 52) | m);
        }
    }
    // the recorded failing inputs of F12a-c, the extremes, one-hot patterns and their complements
    for f in [9.223372036854775808e18, -9.223372036854775808e18, 1.6e20, -1e300, f64::MAX, f64::MIN, f64::MIN_POSITIVE,
        f64::EPSILON, f64::INFINITY, f64::NEG_INFINITY, -0.0, 5e-324, -5e-324, 2.2250738585072009e-308f64]
    {
        structured.push(f.to_bits());
    }
    structured.push(f64::NAN.to_bits());
    structured.push(0x7FF0_0000_0000_0001); // signalling NaN, payload 1
    structured.push(0xFFF0_0000_0000_0001);
    structured.push(0x7FF8_0000_0000_0000); // quiet NaN
    structured.push(0xFFF8_0000_0000_0000);
    structured.push(0x7FFF_FFFF_FFFF_FFFF);
    structured.push(0xFFFF_FFFF_FFFF_FFFF);
    structured.push(0x7FF4_0000_DEAD_BEEF);
    for k in 0..64 {
        structured.push(1u64 << k);
        structured.push(!(1u64 << k));
    }
    structured.sort();
    structured.dedup();
    let n_structured = structured.len();
    rep.exhaustive_parts.push(format!(
        "f64_to_bytes/bytes_to_f64 over all {} structured bit patterns: every power of two 2^-1074..2^1023 and 1.5x it \
         (both signs), 15 boundary mantissas x 19 boundary exponents (incl. subnormal, beyond 2^63, infinity, NaN), +-0, \
         extremes, one-hot patterns and complements",
        n_structured
    ));
    let n_rand = if thorough { 2_000_000 } else { 250_000 };
    let mut patterns = structured;
    for k in 0..n_rand {
        let mut w = rng.next_u64();
        // uniformly random patterns are almost never subnormal / infinite / NaN: force the exponent field now and then
        match k % 16 {
            0 => w &= !(0x7FFu64 << 52),                  // zero / subnormal
            1 => w |= 0x7FFu64 << 52,                     // infinity / NaN
            2 => w = (w & !(0x7FFu64 << 52)) | ((1086 + (w >> 52) % 961) << 52), // |x| >= 2^63
            _ => {}
        }
        patterns.push(w);
    }
    let le = |w: u64| -> [u8; 8] { std::array::from_fn(|i| ((w >> (8 * i)) & 0xFF) as u8) };
    let mut reqs: Vec<String> = Vec::with_capacity(patterns.len() * 2 + n_structured);
    for (k, w) in patterns.iter().enumerate() {
        reqs.push(format!("(bits.f64ToBytes {})", w));
        reqs.push(format!("(bits.f64FromBytes {})", sx::ints(le(*w).iter())));
        if k < n_structured {
            reqs.push(format!("(bits.f64Fields {})", w));
        }
    }
    let answers = ask(&reqs);
    let pow2 = |j: i32| -> f64 {
        // exact: every intermediate is a power of two within the normal range (|j| <= 1023)
        let mut p = 1.0f64;
        for _ in 0..j.abs() {
            p *= if j > 0 { 2.0 } else { 0.5 };
        }
        p
    };
    let mut nan_altered = 0u64;
    let mut at = 0usize;
    for (k, &w) in patterns.iter().enumerate() {
        let f = std::hint::black_box(f64::from_bits(std::hint::black_box(w)));
        let class = if f.is_nan() {
            "nan"
        } else if f.is_infinite() {
            "infinity"
        } else if f == 0.0 {
            "zero"
        } else if !f.is_normal() {
            "subnormal"
        } else if f.abs() >= 9.223372036854775808e18 {
            "magnitude>=2^63"
        } else {
            "normal<2^63"
        };
        rep.case(if w == 0 { None } else { Some(format!("d{:016x}", w)) });
        rep.bump(&format!("double.{}", class));
        // NaN patterns: moving a double through a register may set the quiet bit (bit 51) on some platforms (x87);
        // where the platform's own from_bits/to_bits round trip preserves the pattern (x86-64 SSE2, aarch64: always)
        // the comparison is exact, otherwise bit 51 is ignored for that pattern and the case is counted.
        let platform_w = f.to_bits();
        let mask: u64 = if platform_w == w {
            !0
        } else {
            nan_altered += 1;
            !(1u64 << 51)
        };
        let bytes = le(w); // the property: byte i = (w >> 8i) & 0xFF
        let reference = f.to_le_bytes(); // Rust's reference encoder
        let got = std::panic::catch_unwind(|| f64_to_bytes(f));
        let got_w = got.as_ref().ok().map(|b| u64::from_le_bytes(*b));
        let got_s = match &got {
            Ok(b) => format!("{:?}", b),
            Err(_) => "panic".to_owned(),
        };
        if got_w.map(|g| g & mask) != Some(w & mask) || (mask == !0 && bytes != reference) {
            rep.fail(Failure {
                kind: Kind::ImplVsProperty,
                signature: format!("f64_to_bytes:{}", class),
                input: format!("f64_to_bytes({:e}) [bits {:016x}]", f, w),
                implementation: got_s.clone(),
                expected: format!("{:?} (f64::to_le_bytes: {:?})", bytes, reference),
                note: "MKD$ must yield the IEEE-754 binary64 bytes, least significant first".into(),
            });
        }
        let back = std::panic::catch_unwind(|| bytes_to_f64(&bytes));
        let back_s = match &back {
            Ok(x) => format!("{:016x}", x.to_bits()),
            Err(_) => "panic".to_owned(),
        };
        // exact inverse for every pattern: -0.0, infinities and NaN payloads included
        if back.as_ref().ok().map(|x| x.to_bits() & mask) != Some(w & mask) {
            rep.fail(Failure {
                kind: Kind::ImplVsProperty,
                signature: format!("bytes_to_f64:{}", class),
                input: format!("bytes_to_f64({:?}) [{:e}]", bytes, f),
                implementation: back_s.clone(),
                expected: format!("{:016x}", w),
                note: "CVD must be the exact inverse of the IEEE-754 encoding".into(),
            });
        }
        // implementation vs model
        let m_bytes = &answers[at];
        let m_back = &answers[at + 1];
        let i_bytes = match &got {
            Ok(b) if mask == !0 => sx::ints(b.iter()),
            Ok(b) => sx::ints(le(u64::from_le_bytes(*b) & mask | w & !mask).iter()),
            Err(_) => "panic".to_owned(),
        };
        if *m_bytes != i_bytes {
            rep.fail(Failure {
                kind: Kind::ModelVsImpl,
                signature: "model:f64ToBytes".into(),
                input: reqs[at].clone(),
                implementation: i_bytes,
                expected: m_bytes.clone(),
                note: "RbModel.Bits.f64ToBytes on the bit pattern of the argument".into(),
            });
        }
        let i_back = match &back {
            Ok(x) => (x.to_bits() & mask | w & !mask).to_string(),
            Err(_) => "panic".to_owned(),
        };
        if *m_back != i_back {
            rep.fail(Failure {
                kind: Kind::ModelVsImpl,
                signature: "model:bytesToF64".into(),
                input: reqs[at + 1].clone(),
                implementation: i_back,
                expected: m_back.clone(),
                note: "RbModel.Bits.bytesToF64 vs the bit pattern of the result".into(),
            });
        }
        at += 2;
        if k < n_structured {
            // The trusted base, sampled: the value IEEE-754 assigns to the model's fields (sign, exponent, fraction),
            // computed with exact floating point operations only, is the double Rust's from_bits makes of the pattern.
            let fields = &answers[at];
            at += 1;
            let nums: Vec<u64> = fields
                .trim_matches(|c| c == '(' || c == ')')
                .split_whitespace()
                .filter_map(|t| t.parse().ok())
                .collect();
            let ok = if let [s, e, m] = nums[..] {
                let sign_ok = f.is_sign_negative() == (s == 1) && s <= 1;
                let value_ok = if e == 2047 {
                    if m == 0 { f.is_infinite() } else { f.is_nan() }
                } else if e == 0 {
                    // m * 2^-1074, in two exact steps (the product is representable, so the last one is exact too)
                    (m as f64) * pow2(-537) * pow2(-537) == f.abs()
                } else {
                    // (2^52 + m) * 2^(e - 1075)
                    let j = e as i32 - 1075;
                    ((m + (1u64 << 52)) as f64) * pow2(j / 2) * pow2(j - j / 2) == f.abs()
                };
                sign_ok && value_ok && e < 2048 && m < (1u64 << 52)
            } else {
                false
            };
            rep.bump("double.ieee-value-of-model-fields");
            if !ok {
                rep.fail(Failure {
                    kind: Kind::ModelVsImpl,
                    signature: "model:f64Fields-ieee-value".into(),
                    input: reqs[at - 1].clone(),
                    implementation: format!("f64::from_bits({:016x}) = {:e}", w, f),
                    expected: fields.clone(),
                    note: "(-1)^s * (1.f) * 2^(e-1023), subnormal 0.f * 2^-1022, e=2047: infinity/NaN, from RbModel.Bits.f64Sign/f64Exponent/f64Fraction".into(),
                });
            }
        }
    }
    rep.bump_by("double.nan-pattern-altered-by-platform(bit 51 ignored)", nan_altered);
    rep.sample(J::s(format!("{} -> {}", reqs[0], answers[0])));
    rep.sample(J::s(format!("{} -> {}", reqs[reqs.len() - 2], answers[reqs.len() - 2])));

    // ---- 5. MKD$ / CVD at program level --------------------------------------------------------
    // (a) a string of 8 arbitrary bytes S$: MKD$(CVD(S$)) = S$ (string comparison: exact), LEN = 8, and
    //     CVD(MKD$(X#)) = X# for X# = CVD(S$) (the interpreter compares doubles with a tolerance: a weak observation).
    // (b) a double computed by arithmetic (an integer scaled by repeated multiplication by 2 or .5#, so that it goes beyond
    //     2^63 or below 2^-1022): MKD$(X#) is the expected string and CVD(MKD$(X#)) = X#.
    let n_prog = if thorough { 3000 } else { 300 };
    // the model of CVD (RbModel.Bits.cvd: the pattern, or Overflow when the exponent field is all ones) on the same strings
    let cvd_reqs: Vec<String> = (0..n_prog)
        .map(|k| {
            let w = if k < n_prog / 2 { patterns[(k * 37) % n_structured] } else { patterns[n_structured + k] };
            format!("(bits.cvd ({}))", le(w).iter().map(|x| x.to_string()).collect::<Vec<_>>().join(" "))
        })
        .collect();
    let cvd_answers = ask(&cvd_reqs);
    for k in 0..n_prog {
        let w = if k < n_prog / 2 { patterns[(k * 37) % n_structured] } else { patterns[n_structured + k] };
        let b = le(w);
        let chrs = |b: &[u8; 8]| b.iter().map(|x| format!("CHR$({})", x)).collect::<Vec<_>>().join(" + ");
        let text = format!(
            "S$ = {}\nX# = CVD(S$)\nT$ = MKD$(X#)\nPRINT T$ = S$; LEN(T$); CVD(T$) = X#; CVD(MKD$(-X#)) = -X#\n",
            chrs(&b)
        );
        let out = run_program(&text);
        rep.case(Some(format!("pd{:016x}", w)));
        rep.bump("program.cvd-mkd-bytes");
        // model vs implementation: CVD raises Overflow exactly where the model does, and answers the pattern otherwise
        {
            let overflowed = out.starts_with("runtime-error") && out.contains("Overflow") && out.contains("row: 2");
            let model = cvd_answers[k].as_str();
            let agree = if model == "overflow" { overflowed } else { model == format!("(ok {})", w) && !out.starts_with("runtime-error") };
            if !agree {
                rep.fail(Failure {
                    kind: Kind::ModelVsImpl,
                    signature: "model:cvd".into(),
                    input: text.clone(),
                    implementation: out.clone(),
                    expected: format!("model {}: {}", cvd_reqs[k], model),
                    note: "RbModel.Bits.cvd: the pattern of the 8 bytes, Overflow when they encode an infinity or a NaN".into(),
                });
            }
        }
        // since /repo 181b08f CVD raises Overflow (6) for the 8-byte strings that encode an infinity or a NaN: a DOUBLE
        // only ever holds a finite number (C06), and C19 claims CVD(MKD$(x)) = x for finite x only
        if (w >> 52) & 0x7ff == 2047 {
            rep.bump("program.cvd-mkd-bytes.non-finite-pattern");
            if !(out.starts_with("runtime-error") && out.contains("Overflow") && out.contains("row: 2")) {
                rep.fail(Failure {
                    kind: Kind::ImplVsProperty,
                    signature: "program:cvd-non-finite".into(),
                    input: text.clone(),
                    implementation: out,
                    expected: "runtime error Overflow at the CVD statement (row 2)".into(),
                    note: "8 bytes that encode an infinity or a NaN are not a value of a DOUBLE: CVD raises Overflow".into(),
                });
            }
            continue;
        }
        let expected = "-1  8 -1 -1";
        if out != expected {
            rep.fail(Failure {
                kind: Kind::ImplVsProperty,
                signature: "program:cvd-mkd".into(),
                input: text.clone(),
                implementation: out,
                expected: expected.into(),
                note: "program-level MKD$(CVD(S$)) = S$ for 8 arbitrary bytes, CVD(MKD$(X#)) = X#".into(),
            });
        }
        if k == 0 {
            rep.sample(J::s(text));
        }
    }
    for k in 0..n_prog {
        let m = if k % 3 == 0 { 1 + rng.below(15) as i64 } else { rng.range(1, 2_000_000_000) };
        let m = if k % 2 == 0 { m } else { -m };
        let up = k % 4 < 2;
        // a quarter of the programs end among the subnormals (or at zero)
        let steps = if k % 4 == 3 { 1000 + rng.below(100) as i32 } else { rng.below(1100) as i32 };
        let mut x = m as f64;
        for _ in 0..steps {
            x *= if up { 2.0 } else { 0.5 };
        }
        if !x.is_finite() {
            continue; // overflow is a run-time error of the program, not this property
        }
        let b = le(x.to_bits());
        let text = format!(
            "X# = {}\nFOR I% = 1 TO {}\nX# = X# * {}\nNEXT\nT$ = MKD$(X#)\nPRINT T$ = {}; LEN(T$); CVD(T$) = X#\n",
            m,
            steps,
            // (not `/ 2`: Variant::divide snaps quotients within 1e-4 of an integer to that integer, which is not this property)
            if up { "2" } else { ".5#" },
            b.iter().map(|x| format!("CHR$({})", x)).collect::<Vec<_>>().join(" + ")
        );
        let out = run_program(&text);
        rep.case(Some(format!("pa{},{},{}", m, steps, up)));
        rep.bump(if x.abs() >= 9.223372036854775808e18 {
            "program.mkd-of-computed.magnitude>=2^63"
        } else if !x.is_normal() {
            "program.mkd-of-computed.subnormal-or-zero"
        } else {
            "program.mkd-of-computed.normal<2^63"
        });
        let expected = "-1  8 -1";
        if out != expected {
            rep.fail(Failure {
                kind: Kind::ImplVsProperty,
                signature: "program:mkd-of-computed".into(),
                input: text.clone(),
                implementation: out,
                expected: expected.into(),
                note: format!("MKD$ of {} scaled {} times by 2 ({:e}) must be the IEEE-754 bytes {:?}", m, steps, x, b),
            });
        }
        if k == 0 {
            rep.sample(J::s(text));
        }
    }
    rep.finish();
}
