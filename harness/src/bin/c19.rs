//! C19 — bit-level primitives vs two's complement / IEEE-754, and vs the Lean model `RbModel.Bits`.

use rb_harness::driver::ask;
use rb_harness::json::J;
use rb_harness::report::{Failure, Kind, Report};
use rb_harness::rng::Rng;
use rb_harness::sx;
use rusty_basic::interpreter::verif::run_in_memory;
use rusty_variant::{Variant, bytes_to_f64, bytes_to_i32, f64_to_bytes, i32_to_bytes, qb_and, qb_or};

fn boundary_set() -> Vec<i32> {
    let mut v: Vec<i32> = vec![
        -32768, -32767, -32766, -16385, -16384, -16383, -257, -256, -255, -129, -128, -127, -3, -2, -1, 0, 1, 2, 3,
        127, 128, 129, 255, 256, 257, 16383, 16384, 16385, 21845, -21846, 32765, 32766, 32767, 0x0F0F, 0x00FF,
        -0x0100, 0x3333, 0x5A5A, -0x5A5B,
    ];
    for k in 0..15 {
        v.push(1 << k); // one-hot
        v.push(-(1 << k) - 1); // complement of one-hot
        v.push((1 << k) - 1);
        v.push(-(1 << k));
    }
    v.sort();
    v.dedup();
    v
}

fn variant_int(v: Result<Variant, rusty_variant::VariantError>) -> String {
    match v {
        Ok(Variant::VInteger(i)) => i.to_string(),
        Ok(other) => format!("non-integer {:?}", other),
        Err(e) => format!("error {:?}", e),
    }
}

fn run_program(text: &str) -> String {
    match std::panic::catch_unwind(|| run_in_memory(text, b"", 200_000, None, false)) {
        Ok(Ok(r)) => match r.result {
            Ok(()) => String::from_utf8_lossy(&r.stdout)
                .split("\r\n")
                .map(|l| l.trim_end().to_owned())
                .collect::<Vec<_>>()
                .join("|")
                .trim_end_matches('|')
                .to_owned(),
            Err(e) => format!("runtime-error {:?}", e),
        },
        Ok(Err(e)) => format!("front-end-error {:?}", e),
        Err(_) => "panic".to_owned(),
    }
}

fn main() {
    std::panic::set_hook(Box::new(|_| {}));
    let mut rng = Rng::from_env();
    let mut rep = Report::new(
        "C19",
        "unary functions and byte conversions: all 65536 INTEGER values (class = value); binary AND/OR: all pairs of the \
         boundary/one-hot/complement set plus random pairs (class = operand pair); doubles: powers of two, boundary \
         mantissas, subnormals, huge values, random bit patterns (class = bit pattern); program-level AND/OR/NOT/PEEK/POKE/\
         MKD$/CVD through the in-memory interpreter hook (class = program text). A case is non-trivial unless every operand is 0.",
    );
    let thorough = rep.is_thorough();

    // ---- 1. unary / conversions, exhaustive over the INTEGER range -----------------------------
    let mut reqs: Vec<String> = vec![];
    for i in -32768..=32767i32 {
        reqs.push(format!("(bits.toBytes {})", i));
        reqs.push(format!("(bits.not {})", i));
        let w = (i as i16) as u16;
        reqs.push(format!("(bits.fromBytes ({} {}))", w & 0xFF, w >> 8));
    }
    let answers = ask(&reqs);
    for (k, i) in (-32768..=32767i32).enumerate() {
        rep.case(if i == 0 { None } else { Some(format!("u{}", i)) });
        let w = (i as i16) as u16;
        let le = [(w & 0xFF) as u8, (w >> 8) as u8];
        // implementation vs the property (two's complement, low byte first)
        let got = i32_to_bytes(i);
        if got != le {
            rep.fail(Failure {
                kind: Kind::ImplVsProperty,
                signature: "i32_to_bytes".into(),
                input: format!("i32_to_bytes({})", i),
                implementation: format!("{:?}", got),
                expected: format!("{:?}", le),
                note: "bytes of an INTEGER are its 16-bit two's-complement word, low byte first".into(),
            });
        }
        let back = bytes_to_i32(le);
        if back != i {
            rep.fail(Failure {
                kind: Kind::ImplVsProperty,
                signature: "bytes_to_i32".into(),
                input: format!("bytes_to_i32({:?})", le),
                implementation: back.to_string(),
                expected: i.to_string(),
                note: "bytes -> INTEGER must invert INTEGER -> bytes".into(),
            });
        }
        let not_impl = variant_int(Variant::VInteger(i).unary_not());
        let not_spec = (!(i as i16) as i32).to_string();
        if not_impl != not_spec {
            rep.fail(Failure {
                kind: Kind::ImplVsProperty,
                signature: "unary_not".into(),
                input: format!("NOT {}", i),
                implementation: not_impl.clone(),
                expected: not_spec,
                note: "NOT is the 16-bit complement".into(),
            });
        }
        // implementation vs model
        let m_bytes = &answers[3 * k];
        let i_bytes = sx::ints(got.iter());
        if *m_bytes != i_bytes {
            rep.fail(Failure {
                kind: Kind::ModelVsImpl,
                signature: "model:i32ToBytes".into(),
                input: reqs[3 * k].clone(),
                implementation: i_bytes,
                expected: m_bytes.clone(),
                note: "RbModel.Bits.i32ToBytes".into(),
            });
        }
        if answers[3 * k + 1] != not_impl {
            rep.fail(Failure {
                kind: Kind::ModelVsImpl,
                signature: "model:unaryNot".into(),
                input: reqs[3 * k + 1].clone(),
                implementation: not_impl,
                expected: answers[3 * k + 1].clone(),
                note: "RbModel.Bits.unaryNot".into(),
            });
        }
        if answers[3 * k + 2] != back.to_string() {
            rep.fail(Failure {
                kind: Kind::ModelVsImpl,
                signature: "model:bytesToI32".into(),
                input: reqs[3 * k + 2].clone(),
                implementation: back.to_string(),
                expected: answers[3 * k + 2].clone(),
                note: "RbModel.Bits.bytesToI32".into(),
            });
        }
    }
    rep.exhaustive_parts
        .push("i32_to_bytes, bytes_to_i32, NOT over all 65536 INTEGER values".into());
    rep.bump_by("unary.values", 65536);
    rep.sample(J::s(format!("{} -> {}", reqs[3 * 100], answers[3 * 100])));

    // ---- 2. binary AND / OR ------------------------------------------------------------------
    let bs = boundary_set();
    let mut pairs: Vec<(i32, i32)> = vec![];
    for &a in &bs {
        for &b in &bs {
            pairs.push((a, b));
        }
    }
    rep.exhaustive_parts
        .push(format!("AND/OR over all {} pairs of the {}-element boundary set", pairs.len(), bs.len()));
    let n_random = if thorough { 2_000_000 } else { 100_000 };
    for _ in 0..n_random {
        pairs.push((rng.range(-32768, 32767) as i32, rng.range(-32768, 32767) as i32));
    }
    let mut reqs: Vec<String> = Vec::with_capacity(pairs.len() * 2);
    for (a, b) in &pairs {
        reqs.push(format!("(bits.and {} {})", a, b));
        reqs.push(format!("(bits.or {} {})", a, b));
    }
    let answers = ask(&reqs);
    for (k, (a, b)) in pairs.iter().enumerate() {
        rep.case(if *a == 0 && *b == 0 { None } else { Some(format!("b{},{}", a, b)) });
        rep.bump(if *a < 0 && *b < 0 {
            "binary.neg-neg"
        } else if *a < 0 || *b < 0 {
            "binary.mixed-sign"
        } else {
            "binary.pos-pos"
        });
        let spec_and = ((*a as i16) & (*b as i16)) as i32;
        let spec_or = ((*a as i16) | (*b as i16)) as i32;
        let impl_and = std::panic::catch_unwind(|| qb_and(*a, *b)).map(|x| x.to_string()).unwrap_or("panic".into());
        let impl_or = std::panic::catch_unwind(|| qb_or(*a, *b)).map(|x| x.to_string()).unwrap_or("panic".into());
        for (name, imp, spec, model) in [
            ("AND", &impl_and, spec_and, &answers[2 * k]),
            ("OR", &impl_or, spec_or, &answers[2 * k + 1]),
        ] {
            if *imp != spec.to_string() {
                rep.fail(Failure {
                    kind: Kind::ImplVsProperty,
                    signature: format!("qb_{}", name.to_lowercase()),
                    input: format!("{} {} {}", a, name, b),
                    implementation: imp.clone(),
                    expected: spec.to_string(),
                    note: "AND/OR are the bitwise operations on 16-bit two's-complement words".into(),
                });
            }
            if imp != model {
                rep.fail(Failure {
                    kind: Kind::ModelVsImpl,
                    signature: format!("model:qb{}", name),
                    input: format!("{} {} {}", a, name, b),
                    implementation: imp.clone(),
                    expected: model.clone(),
                    note: "RbModel.Bits.qbAnd/qbOr".into(),
                });
            }
        }
    }
    rep.sample(J::s(format!("{} -> {}", reqs[7], answers[7])));

    // ---- 3. program level, through the real parser/linter/generator/VM ---------------------------
    let n_prog = if thorough { 3000 } else { 300 };
    for k in 0..n_prog {
        let (a, b) = if k < bs.len() {
            (bs[k], bs[(k * 7 + 3) % bs.len()])
        } else {
            (rng.range(-32768, 32767) as i32, rng.range(-32768, 32767) as i32)
        };
        let hi_lo = i32_to_bytes(b);
        let text = format!(
            "DEFINT A-Z\nA = {}\nB = {}\nPRINT A AND B; A OR B; NOT A\nPRINT PEEK(VARPTR(A)); PEEK(VARPTR(A) + 1)\nPOKE VARPTR(A), {}\nPOKE VARPTR(A) + 1, {}\nPRINT A\n",
            a, b, hi_lo[0], hi_lo[1]
        );
        let out = run_program(&text);
        let wa = (a as i16) as u16;
        let fmt = |x: i32| if x < 0 { format!("{} ", x) } else { format!(" {} ", x) };
        let expected = format!(
            "{}|{}|{}",
            format!(
                "{}{}{}",
                fmt(((a as i16) & (b as i16)) as i32),
                fmt(((a as i16) | (b as i16)) as i32),
                fmt(!(a as i16) as i32)
            )
            .trim_end(),
            format!("{}{}", fmt((wa & 0xFF) as i32), fmt((wa >> 8) as i32)).trim_end(),
            fmt(b).trim_end()
        );
        rep.case(Some(format!("p{},{}", a, b)));
        rep.bump("program.and-or-not-peek-poke");
        if out != expected {
            rep.fail(Failure {
                kind: Kind::ImplVsProperty,
                signature: "program:and-or-not-peek-poke".into(),
                input: text.clone(),
                implementation: out,
                expected,
                note: "program-level AND/OR/NOT, PEEK of both bytes, POKE of both bytes".into(),
            });
        }
        if k == 0 {
            rep.sample(J::s(text));
        }
    }

    // ---- 4. doubles: MKD$/CVD vs IEEE-754 ------------------------------------------------------
    let mut doubles: Vec<f64> = vec![0.0, 1.0, -1.0, 2.0, 0.5, 1.5, -2.5, 3.141592653589793, 1e10, 1e-10, 123456.789, -0.1];
    for e in -1022..=1023 {
        doubles.push(2f64.powi(e));
        doubles.push(-2f64.powi(e) * 1.5);
    }
    for m in [0u64, 1, 2, 0xF_FFFF_FFFF_FFFF, 0xF_FFFF_FFFF_FFFE, 0x8_0000_0000_0000, 0x5_5555_5555_5555] {
        for e in [1u64, 2, 1000, 1022, 1023, 1024, 1075, 1085, 1086, 2000, 2046] {
            doubles.push(f64::from_bits((e << 52) | m));
            doubles.push(f64::from_bits((1u64 << 63) | (e << 52) | m));
        }
    }
    // subnormals and values beyond 2^63 (known-bad regions, F12)
    for m in [1u64, 2, 0x8_0000_0000_0000, 0xF_FFFF_FFFF_FFFF] {
        doubles.push(f64::from_bits(m));
    }
    doubles.push(9.223372036854775808e18);
    doubles.push(1.6e20);
    doubles.push(-1e300);
    let n_rand = if thorough { 1_000_000 } else { 50_000 };
    for _ in 0..n_rand {
        let bits = rng.next_u64();
        let f = f64::from_bits(bits);
        if f.is_finite() {
            doubles.push(f);
        }
    }
    for f in doubles {
        let class = if f == 0.0 {
            "zero"
        } else if !f.is_normal() {
            "subnormal"
        } else if f.abs() >= 9.223372036854775808e18 {
            "magnitude>=2^63"
        } else {
            "normal<2^63"
        };
        rep.case(if f == 0.0 { None } else { Some(format!("d{:016x}", f.to_bits())) });
        rep.bump(&format!("double.{}", class));
        let ieee = f.to_le_bytes();
        let got = std::panic::catch_unwind(|| f64_to_bytes(f));
        let got_s = match &got {
            Ok(b) => format!("{:?}", b),
            Err(_) => "panic".to_owned(),
        };
        if got_s != format!("{:?}", ieee) {
            rep.fail(Failure {
                kind: Kind::ImplVsProperty,
                signature: format!("f64_to_bytes:{}", class),
                input: format!("f64_to_bytes({:e}) [bits {:016x}]", f, f.to_bits()),
                implementation: got_s,
                expected: format!("{:?}", ieee),
                note: "MKD$ must yield the IEEE-754 binary64 bytes, least significant first".into(),
            });
        }
        let back = std::panic::catch_unwind(|| bytes_to_f64(&ieee));
        let back_s = match &back {
            Ok(x) => format!("{:016x}", x.to_bits()),
            Err(_) => "panic".to_owned(),
        };
        // -0.0 and +0.0 are the same BASIC value
        let want = if f == 0.0 { format!("{:016x}", 0f64.to_bits()) } else { format!("{:016x}", f.to_bits()) };
        if back_s != want {
            rep.fail(Failure {
                kind: Kind::ImplVsProperty,
                signature: format!("bytes_to_f64:{}", class),
                input: format!("bytes_to_f64({:?}) [{:e}]", ieee, f),
                implementation: back_s,
                expected: want,
                note: "CVD must be the exact inverse of the IEEE-754 encoding".into(),
            });
        }
    }
    rep.sample(J::s("f64_to_bytes(3.141592653589793) vs f64::to_le_bytes"));
    rep.finish();
}
